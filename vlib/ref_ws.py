"""Independent RFC 6455 (section 5) data-framing reference: the oracle of C17.

Shares no code with ``circuits.protocols.websocket``.  Three parts:

* :func:`encode_frame` / :func:`fragment_message` - what a conforming peer puts on the wire
  (all three payload-length forms, optional masking key, FIN/continuation, control frames);
* :class:`FrameDecoder` - incremental frame parser, insensitive to how the bytes are cut;
* :class:`PeerView` - what a conforming peer makes of a sequence of frames: re-assembled
  messages (type + payload), pings, pongs, close, and the protocol errors that would make it
  fail the connection (wrong masking for the role, reserved bits, fragmented/oversized control
  frames, continuation without start, invalid UTF-8 in a text message ...).

``selfcheck()`` runs the examples of RFC 6455 section 5.7 through both directions.
"""
import struct

OP_CONT, OP_TEXT, OP_BIN, OP_CLOSE, OP_PING, OP_PONG = 0x0, 0x1, 0x2, 0x8, 0x9, 0xA
DATA_OPCODES = (OP_CONT, OP_TEXT, OP_BIN)
CONTROL_OPCODES = (OP_CLOSE, OP_PING, OP_PONG)


def xor_mask(payload, key):
    """payload[i] ^ key[i mod 4] (RFC 6455 5.3), done with big-int arithmetic."""
    n = len(payload)
    if n == 0:
        return b''
    if len(key) != 4:
        raise ValueError('masking key must be 4 bytes')
    stretched = (bytes(key) * (n // 4 + 1))[:n]
    return (int.from_bytes(payload, 'big') ^ int.from_bytes(stretched, 'big')).to_bytes(n, 'big')


def length_form(n):
    """Number of extended-length bytes a minimal encoding of payload length ``n`` uses."""
    if n <= 125:
        return 0
    if n <= 0xFFFF:
        return 2
    return 8


def header_size(n, masked):
    return 2 + length_form(n) + (4 if masked else 0)


def encode_frame(opcode, payload=b'', fin=True, mask=None, rsv=0):
    """One frame as a conforming endpoint sends it (minimal length form)."""
    payload = bytes(payload)
    n = len(payload)
    out = bytearray()
    out.append((0x80 if fin else 0x00) | ((rsv & 0x7) << 4) | (opcode & 0x0F))
    mbit = 0x80 if mask is not None else 0x00
    ext = length_form(n)
    if ext == 0:
        out.append(mbit | n)
    elif ext == 2:
        out.append(mbit | 126)
        out += struct.pack('!H', n)
    else:
        out.append(mbit | 127)
        out += struct.pack('!Q', n)
    if mask is not None:
        out += bytes(mask)
        out += xor_mask(payload, mask)
    else:
        out += payload
    return bytes(out)


def fragment_message(opcode, payload, splits=(), masks=None):
    """Frames (opcode, fin, payload, mask) of one message cut at the payload offsets ``splits``
    (sorted, 0 <= s <= len(payload); repeated or extreme offsets give empty fragments)."""
    bounds = [0] + list(splits) + [len(payload)]
    frames = []
    for i in range(len(bounds) - 1):
        part = payload[bounds[i]:bounds[i + 1]]
        mask = None if masks is None else masks[i]
        frames.append((opcode if i == 0 else OP_CONT, i == len(bounds) - 2, part, mask))
    return frames


class Frame:
    __slots__ = ('fin', 'rsv', 'opcode', 'masked', 'key', 'payload', 'ext', 'start', 'end')

    def __init__(self, fin, rsv, opcode, masked, key, payload, ext, start, end):
        self.fin, self.rsv, self.opcode, self.masked, self.key = fin, rsv, opcode, masked, key
        self.payload, self.ext, self.start, self.end = payload, ext, start, end

    def __repr__(self):
        return 'Frame(fin=%d op=%x masked=%d len=%d @%d-%d)' % (self.fin, self.opcode, self.masked, len(self.payload),
                                                               self.start, self.end)


class FrameDecoder:
    """Incremental frame parser: ``feed(data)`` returns the frames completed by ``data``."""

    def __init__(self):
        self.buf = bytearray()
        self.consumed = 0   # stream offset of buf[0]

    def feed(self, data):
        self.buf += data
        frames = []
        while True:
            f = self._one()
            if f is None:
                return frames
            frames.append(f)

    def _one(self):
        buf = self.buf
        have = len(buf)
        if have < 2:
            return None
        b0, b1 = buf[0], buf[1]
        n = b1 & 0x7F
        pos = 2
        ext = 0
        if n == 126:
            ext = 2
            if have < 4:
                return None
            (n,) = struct.unpack_from('!H', buf, 2)
            pos = 4
        elif n == 127:
            ext = 8
            if have < 10:
                return None
            (n,) = struct.unpack_from('!Q', buf, 2)
            pos = 10
        masked = bool(b1 & 0x80)
        key = None
        if masked:
            if have < pos + 4:
                return None
            key = bytes(buf[pos:pos + 4])
            pos += 4
        if have < pos + n:
            return None
        payload = bytes(buf[pos:pos + n])
        if masked:
            payload = xor_mask(payload, key)
        total = pos + n
        f = Frame(bool(b0 & 0x80), (b0 >> 4) & 0x7, b0 & 0x0F, masked, key, payload, ext, self.consumed, self.consumed + total)
        del buf[:total]
        self.consumed += total
        return f

    @property
    def pending(self):
        """Bytes of an incomplete trailing frame."""
        return len(self.buf)


class PeerView:
    """What a conforming peer observes.  ``expect_masked``: True when the frames come from a client
    (a server MUST fail the connection on an unmasked frame), False when they come from a server
    (a client MUST fail the connection on a masked frame), None to accept both."""

    def __init__(self, expect_masked=None):
        self.expect_masked = expect_masked
        self.events = []      # ('message', 'text'|'binary', payload(str|bytes)) | ('ping', b) | ('pong', b) | ('close', b)
        self.errors = []
        self.wrong_masking = []   # (opcode, stream offset) of frames a peer in this role must reject for their MASK bit
        self._type = None
        self._parts = []
        self.closed = False
        self.data_after_close = 0

    def frame(self, f):
        if f.rsv:
            self.errors.append('reserved bits set in frame at %d' % f.start)
        if self.expect_masked is not None and f.masked != self.expect_masked:
            self.wrong_masking.append((f.opcode, f.start))
            self.errors.append('frame at %d (opcode %x) is %s' % (f.start, f.opcode, 'masked' if f.masked else 'unmasked'))
        n = len(f.payload)
        if n > 125 and f.ext == 0 or f.ext == 2 and n > 0xFFFF:
            self.errors.append('impossible length form at %d' % f.start)
        op = f.opcode
        if op in CONTROL_OPCODES:
            if not f.fin:
                self.errors.append('fragmented control frame at %d' % f.start)
            if n > 125:
                self.errors.append('control frame longer than 125 at %d' % f.start)
            if op == OP_PING:
                self.events.append(('ping', f.payload))
            elif op == OP_PONG:
                self.events.append(('pong', f.payload))
            else:
                if n == 1:
                    self.errors.append('close frame with 1-byte body at %d' % f.start)
                self.events.append(('close', f.payload))
                self.closed = True
            return
        if op not in DATA_OPCODES:
            self.errors.append('unknown opcode %x at %d' % (op, f.start))
            return
        if self.closed:
            self.data_after_close += 1
        if op == OP_CONT:
            if self._type is None:
                self.errors.append('continuation without a started message at %d' % f.start)
                return
        else:
            if self._type is not None:
                self.errors.append('new data frame inside a fragmented message at %d' % f.start)
                self._parts = []
            self._type = op
        self._parts.append(f.payload)
        if f.fin:
            whole = b''.join(self._parts)
            kind = 'text' if self._type == OP_TEXT else 'binary'
            self._type, self._parts = None, []
            if kind == 'text':
                try:
                    whole = whole.decode('utf-8')
                except UnicodeDecodeError as e:
                    self.errors.append('invalid UTF-8 in text message ending at %d: %s' % (f.end, e))
                    whole = whole.decode('utf-8', 'replace')
            self.events.append(('message', kind, whole))

    def messages(self):
        return [(e[1], e[2]) for e in self.events if e[0] == 'message']

    def of(self, what):
        return [e[1] for e in self.events if e[0] == what]


def observe(stream, expect_masked=None):
    """Decode a complete byte stream as a conforming peer: (PeerView, frames, undecoded tail length)."""
    dec = FrameDecoder()
    frames = dec.feed(stream)
    view = PeerView(expect_masked)
    for f in frames:
        view.frame(f)
    return view, frames, dec.pending


def selfcheck():
    """The examples of RFC 6455 section 5.7, both directions, plus segmentation insensitivity."""
    H = bytes.fromhex
    vectors = [
        (H('810548656c6c6f'), [('message', 'text', 'Hello')]),
        (H('818537fa213d7f9f4d5158'), [('message', 'text', 'Hello')]),
        (H('010348656c') + H('80026c6f'), [('message', 'text', 'Hello')]),
        (H('890548656c6c6f'), [('ping', b'Hello')]),
        (H('8a8537fa213d7f9f4d5158'), [('pong', b'Hello')]),
        (H('827e0100') + bytes(range(256)), [('message', 'binary', bytes(range(256)))]),
        (H('827f0000000000010000') + bytes(65536), [('message', 'binary', bytes(65536))]),
    ]
    for raw, events in vectors:
        view, frames, tail = observe(raw)
        assert view.events == events and not view.errors and tail == 0, (raw[:16], view.events[:1], view.errors)
        if len(raw) < 400:
            for cut in range(1, len(raw)):
                dec, view = FrameDecoder(), PeerView()
                for part in (raw[:cut], raw[cut:]):
                    for f in dec.feed(part):
                        view.frame(f)
                assert view.events == events and dec.pending == 0, (raw, cut)
    assert encode_frame(OP_TEXT, b'Hello') == H('810548656c6c6f')
    assert encode_frame(OP_TEXT, b'Hello', mask=H('37fa213d')) == H('818537fa213d7f9f4d5158')
    assert encode_frame(OP_TEXT, b'Hel', fin=False) + encode_frame(OP_CONT, b'lo') == H('010348656c80026c6f')
    assert encode_frame(OP_PING, b'Hello') == H('890548656c6c6f')
    assert encode_frame(OP_PONG, b'Hello', mask=H('37fa213d')) == H('8a8537fa213d7f9f4d5158')
    assert encode_frame(OP_BIN, bytes(256))[:4] == H('827e0100')
    assert encode_frame(OP_BIN, bytes(65536))[:10] == H('827f0000000000010000')
    assert encode_frame(OP_BIN, bytes(65535))[:4] == H('827effff') and encode_frame(OP_BIN, bytes(125))[:2] == H('827d')
    assert encode_frame(OP_BIN, bytes(126))[:4] == H('827e007e')
    fr = fragment_message(OP_TEXT, b'Hello', [3])
    assert fr == [(OP_TEXT, False, b'Hel', None), (OP_CONT, True, b'lo', None)]
    # a conforming peer rejects wrong masking for the role and fragmented control frames
    assert observe(H('810548656c6c6f'), expect_masked=True)[0].errors
    assert observe(H('818537fa213d7f9f4d5158'), expect_masked=False)[0].errors
    assert observe(H('0900'))[0].errors
    return len(vectors)


if __name__ == '__main__':
    print('ref_ws selfcheck ok:', selfcheck(), 'vectors')

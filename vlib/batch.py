"""Worker-side accumulation of what a batch of cases observed.

A check module's ``run_batch(spec)`` creates one :class:`Batch`, feeds it cases and returns
``batch.result()``.  Nothing here decides a verdict; the parent (vlib.runner) does.
"""
import hashlib
import json
import time
import traceback
from collections import Counter


def jsonable(o, depth=0):
    """Best-effort conversion of a case/observation into JSON (for samples and replays)."""
    if depth > 12:
        return repr(o)
    if isinstance(o, (str, int, float, bool)) or o is None:
        return o
    if isinstance(o, bytes):
        return {'__bytes__': o.decode('latin-1')}
    if isinstance(o, (list, tuple)):
        return [jsonable(x, depth + 1) for x in o]
    if isinstance(o, (set, frozenset)):
        return sorted((jsonable(x, depth + 1) for x in o), key=repr)
    if isinstance(o, dict):
        return {str(k): jsonable(v, depth + 1) for k, v in o.items()}
    return repr(o)


def unjson(o):
    """Inverse of :func:`jsonable` for the ``__bytes__`` wrapper."""
    if isinstance(o, dict):
        if set(o) == {'__bytes__'}:
            return o['__bytes__'].encode('latin-1')
        return {k: unjson(v) for k, v in o.items()}
    if isinstance(o, list):
        return [unjson(x) for x in o]
    return o


def short_hash(obj):
    s = json.dumps(jsonable(obj), sort_keys=True, default=repr)
    return hashlib.sha1(s.encode()).hexdigest()[:12]


class BudgetExceeded(BaseException):
    """The case used far more CPU time than any terminating case can: bounded progress failed."""


class cpu_budget:
    """Context manager: raise BudgetExceeded in the main thread after ``seconds`` of *process CPU
    time* (ITIMER_VIRTUAL), which - unlike a wall-clock watchdog - does not depend on machine load.
    Budgets are chosen >= 1000x the cost of an ordinary case, so exceeding one means the code under
    test loops without end (a definite failure of bounded progress), not slowness."""

    exceeded = 0     # budgets exceeded in this process so far

    def __init__(self, seconds):
        # once bounded progress has failed in this worker the verdict is a violation anyway: the following cases get a short leash, so
        # that a tree on which every case loops is reported within the worker's wall-clock limit instead of running into it
        self.seconds = seconds if not cpu_budget.exceeded else min(seconds, 2 if cpu_budget.exceeded < 3 else 0.3)

    def __enter__(self):
        import signal

        def fire(signum, frame):
            cpu_budget.exceeded += 1
            raise BudgetExceeded('more than %ss CPU in one case' % self.seconds)
        self._old = signal.signal(signal.SIGVTALRM, fire)
        # repeating: the code under test may swallow the first exception (handlers run under `except BaseException`)
        signal.setitimer(signal.ITIMER_VIRTUAL, self.seconds, 0.05)
        return self

    def __exit__(self, *exc):
        import signal
        signal.setitimer(signal.ITIMER_VIRTUAL, 0)
        signal.signal(signal.SIGVTALRM, self._old)
        return False


class Batch:
    def __init__(self, prop, max_samples=3, max_failures=25):
        self.prop = prop
        self.evaluations = 0
        self.hashes = set()
        self.counters = Counter()
        self.obligations = Counter()
        self.failures = []
        self.failure_keys = Counter()
        self.samples = []
        self.inconclusive = []
        self.max_samples = max_samples
        self.max_failures = max_failures
        self.t0 = time.time()
        self.extra = {}

    # -- coverage ---------------------------------------------------------------------------
    def case(self, case, nontrivial=True, distinct_key=None, sample=None):
        """Count one executed case; ``distinct_key`` is what makes it distinct (default: the case)."""
        self.evaluations += 1
        if nontrivial:
            self.hashes.add(short_hash(case if distinct_key is None else distinct_key))
        if len(self.samples) < self.max_samples and (nontrivial or not self.samples):
            self.samples.append(jsonable(case if sample is None else sample))

    def reached(self, name, n=1):
        self.counters[name] += n

    def ok(self, clause, n=1):
        """``n`` obligations of ``clause`` were evaluated and satisfied."""
        self.obligations[clause] += n

    # -- failures ---------------------------------------------------------------------------
    def fail(self, case, clause, detail, known=(), dedup=None):
        """An obligation failed on ``case``.

        ``known`` is a sequence of ``(key, twin)`` candidates: ``key`` names a mechanism of
        known_findings.json, ``twin`` is a callable running the case with *only that trigger
        neutralised* and returning True iff the twin satisfies every obligation.  The failure is
        attributed to the first key whose twin passes (DESIGN.md 3.3); otherwise it is unattributed.
        """
        self.obligations[clause] += 1
        attributed = None
        twin_log = []
        for key, twin in known:
            try:
                passed = bool(twin())
            except Exception:  # a crashing twin attributes nothing
                passed = False
                twin_log.append((key, traceback.format_exc(limit=3)))
            else:
                twin_log.append((key, passed))
            if passed:
                attributed = key
                break
        fkey = attributed or ('UNATTRIBUTED:' + clause + ':' + str(dedup if dedup is not None else ''))
        self.failure_keys[fkey] += 1
        if self.failure_keys[fkey] <= 2 and len(self.failures) < self.max_failures:
            self.failures.append({
                'clause': clause,
                'known': attributed,
                'detail': jsonable(detail),
                'case': jsonable(case),
                'twins': jsonable(twin_log),
            })
        return attributed

    def inconclusive_because(self, reason):
        if len(self.inconclusive) < 20:
            self.inconclusive.append(str(reason))

    def result(self):
        return {
            'evaluations': self.evaluations,
            'hashes': sorted(self.hashes),
            'counters': dict(self.counters),
            'obligations': dict(self.obligations),
            'failures': self.failures,
            'failure_keys': dict(self.failure_keys),
            'samples': self.samples,
            'inconclusive': self.inconclusive,
            'wall_s': time.time() - self.t0,
            'extra': jsonable(self.extra),
        }

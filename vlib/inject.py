"""Event-injection harness for protocol components (DESIGN.md 2.6).

Protocol components consume ``read``/``connect``/``disconnect`` events and emit ``write``/``close``
events on their channel.  The harness owns the root of a small component tree, injects events one
at a time, settles the tree in between and records what the component under test emitted, per
socket and in order.  No kernel sockets carry data: ``FakeSock`` is an unconnected
``socket.socket`` subclass used as identity (so ``isinstance(x, socket)`` code takes its real path).
"""
import socket

from circuits import BaseComponent, handler
from circuits.net.events import close, connect, disconnect, read, write  # noqa: F401


class FakeSock(socket.socket):
    """An unconnected socket object that only serves as the connection's identity."""

    def __init__(self, peer=('127.0.0.1', 40000)):
        super().__init__(socket.AF_INET, socket.SOCK_STREAM)
        self._vpeer = peer

    def getpeername(self):
        return self._vpeer

    def getsockname(self):
        return ('127.0.0.1', 8000)


class Wire(BaseComponent):
    """Root of the tree under test.  Records write/close events seen on ``channel``; stands in for
    the socket server (attributes host/port/secure as web.HTTP expects them of its server)."""

    host = '127.0.0.1'
    port = 8000
    secure = False
    display_banner = False

    def __init__(self, channel='web'):
        super().__init__(channel=channel)
        self.out = []          # ('write', sock, bytes) | ('close', sock)   in emission order
        self.exceptions = []   # exception events seen (type, value, handler, fevent)
        self.tick_errors = []

    @handler('write', priority=100)
    def _v_on_write(self, *args):
        # server style: write(sock, data); client style: write(data)
        if len(args) == 2:
            self.out.append(('write', args[0], args[1]))
        else:
            self.out.append(('write', None, args[0]))

    @handler('close', priority=100)
    def _v_on_close(self, *args):
        self.out.append(('close', args[0] if args else None))

    @handler('exception', channel='*', priority=100)
    def _v_on_exception(self, etype, evalue, tb, handler=None, fevent=None):
        self.exceptions.append((etype, evalue, tb, handler, fevent))

    # -- driving ------------------------------------------------------------------------------
    def settle(self, max_ticks=100):
        """Flush until the queue is empty and no generator task is pending."""
        for n in range(max_ticks):
            if not len(self) and not self._tasks:
                return n
            self.tick()
        raise RuntimeError('tree does not settle (queue=%d tasks=%d)' % (len(self), len(self._tasks)))

    def inject(self, event, *channels):
        self.fire(event, *(channels or (self.channel,)))
        return self.settle()

    def feed(self, sock, chunks):
        for c in chunks:
            self.inject(read(sock, c))

    def written(self, sock=None):
        return b''.join(x[2] for x in self.out if x[0] == 'write' and (sock is None or x[1] is sock))

    def closes(self, sock=None):
        return sum(1 for x in self.out if x[0] == 'close' and (sock is None or x[1] is sock))

    def take(self):
        out, self.out = self.out, []
        return out


def cuts_to_chunks(data, cuts):
    """Split ``data`` at the sorted offsets ``cuts`` (0 < c < len(data))."""
    out, prev = [], 0
    for c in cuts:
        out.append(data[prev:c])
        prev = c
    out.append(data[prev:])
    return [c for c in out if c != b''] or [b'']

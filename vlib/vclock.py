"""Virtual clock (DESIGN.md 2.3): doubles for ``time.time`` and ``threading.Event`` installed on the
*stdlib modules* before ``circuits`` is imported, so ``from time import time`` and
``from threading import Event`` inside the repository bind the doubles.

While the clock is inactive the doubles behave exactly like the originals.  While it is active,
``Event.wait(t)`` on an unset flag *in the loop thread* does not block: it logs ``(now, t)``, advances
the virtual time by ``t`` (or reports an unbounded wait to the harness) and returns.
"""
import threading
import time as _time

_real_time = _time.time
_RealEvent = threading.Event


class Clock:
    def __init__(self):
        self.active = False
        self.now = 1_000_000.0
        self.loop_thread = None
        self.waits = []            # (now, duration | None)
        self.on_unbounded = None   # harness callback for wait(None) / wait(>= 10000)
        self.on_wait = None        # harness callback(now, duration) before the time advances
        self.event_instances = 0
        self.time_calls = 0
        self.read_cost = 0.0       # virtual seconds that pass with every reading of the clock (0: time only passes in waits)

    def reset(self, now=1_000_000.0):
        self.active = True
        self.now = now
        self.loop_thread = threading.current_thread()
        self.waits = []
        self.on_unbounded = None
        self.on_wait = None
        self.read_cost = 0.0


CLOCK = Clock()


def vtime():
    if CLOCK.active:
        CLOCK.time_calls += 1
        now = CLOCK.now
        if CLOCK.read_cost and threading.current_thread() is CLOCK.loop_thread:
            CLOCK.now = now + CLOCK.read_cost     # a running clock: two consecutive readings differ
        return now
    return _real_time()


class VEvent(_RealEvent):
    def __init__(self):
        super().__init__()
        CLOCK.event_instances += 1

    def wait(self, timeout=None):
        c = CLOCK
        if c.active and threading.current_thread() is c.loop_thread and not self.is_set():
            if timeout is None or timeout >= 10000:
                c.waits.append((c.now, None))
                if c.on_unbounded is not None:
                    c.on_unbounded()
                return self.is_set()
            if c.on_wait is not None:
                c.on_wait(c.now, timeout)
            c.waits.append((c.now, timeout))
            if timeout > 0:
                c.now += timeout
            return False
        return super().wait(timeout)


def install():
    """Must run before ``import circuits``."""
    import sys
    assert not any(m == 'circuits' or m.startswith('circuits.') for m in sys.modules), 'circuits imported before the doubles'
    _time.time = vtime
    threading.Event = VEvent
    return CLOCK

"""Independent RFC 2617 (and RFC 7617) credential builder - the oracle side of C20.

Shares no code with circuits.web._httpauth: only hashlib and base64 are used.  It *builds* the
Authorization header a conforming user agent would send for (user, password, realm, method, uri,
nonce, ...) and can deliberately build non-conforming ones (fields dropped, duplicated, tampered,
unquoted ...) from a declarative recipe, so that the oracle knows from the recipe - not from the
code under test - whether the header carries credentials that verify.

``selfcheck()`` runs the worked examples of RFC 2617 section 3.5 / RFC 7616-style vectors and of
RFC 7617 and cross-checks the builder against the digest implementation of the standard library's
``urllib.request.AbstractDigestAuthHandler`` before the reference is trusted.
"""
import base64
import hashlib


def _md5hex(data):
    if isinstance(data, str):
        data = data.encode('utf-8')
    return hashlib.md5(data).hexdigest()


def _sha1hex(data):
    if isinstance(data, str):
        data = data.encode('utf-8')
    return hashlib.sha1(data).hexdigest()


# ---------------------------------------------------------------------------------------------
# Basic (RFC 7617)
# ---------------------------------------------------------------------------------------------
def basic_token(user, password, charset='utf-8'):
    return base64.b64encode(('%s:%s' % (user, password)).encode(charset)).decode('ascii')


def basic_header(user, password, scheme='Basic', charset='utf-8'):
    return '%s %s' % (scheme, basic_token(user, password, charset))


# ---------------------------------------------------------------------------------------------
# Digest (RFC 2617 3.2.2)
# ---------------------------------------------------------------------------------------------
def digest_response(user, realm, password, method, uri, nonce, qop=None, nc=None, cnonce=None,
                    algorithm=None, entity_body=b''):
    """request-digest of RFC 2617 3.2.2.1-3.2.2.3.  ``qop`` None = RFC 2069 compatibility form.
    ``algorithm`` None or 'MD5' or 'MD5-sess' (anything else is hashed like MD5: the header then
    merely *claims* another algorithm, which a server that does not support it must not accept
    on the strength of this value)."""
    H = _md5hex
    a1 = '%s:%s:%s' % (user, realm, password)
    if algorithm == 'MD5-sess':
        a1 = '%s:%s:%s' % (H(a1), nonce, cnonce)
    if qop == 'auth-int':
        a2 = '%s:%s:%s' % (method, uri, H(entity_body))
    else:
        a2 = '%s:%s' % (method, uri)
    if qop is None:
        data = '%s:%s' % (nonce, H(a2))
    else:
        data = '%s:%s:%s:%s:%s' % (nonce, nc, cnonce, qop, H(a2))
    return H('%s:%s' % (H(a1), data))


# which directives RFC 2617 writes as quoted-string and which as token
QUOTED = ('username', 'realm', 'nonce', 'uri', 'response', 'cnonce', 'opaque')
REQUIRED = ('username', 'realm', 'nonce', 'uri', 'response')
ORDER = ('username', 'realm', 'nonce', 'uri', 'algorithm', 'response', 'opaque', 'qop', 'nc', 'cnonce')


def digest_fields(user, realm, password, method, uri, nonce, qop=None, nc='00000001', cnonce='0a4f113b',
                  algorithm=None, opaque=None):
    """The directive map of a conforming digest-response."""
    f = {'username': user, 'realm': realm, 'nonce': nonce, 'uri': uri}
    if algorithm is not None:
        f['algorithm'] = algorithm
    if qop is not None:
        f['qop'] = qop
        f['nc'] = nc
        f['cnonce'] = cnonce
    if opaque is not None:
        f['opaque'] = opaque
    f['response'] = digest_response(user, realm, password, method, uri, nonce, qop=qop, nc=nc, cnonce=cnonce,
                                    algorithm=algorithm)
    return f


def render_digest(fields, scheme='Digest', order=None, quote_all=False, sep=', ', extra=()):
    """Serialise a directive map.  ``fields`` may be a dict or a list of (k, v) pairs (the latter
    allows duplicates); ``extra`` are appended verbatim as (k, v) pairs (quoted)."""
    if isinstance(fields, dict):
        keys = [k for k in (order or ORDER) if k in fields] + [k for k in fields if k not in (order or ORDER)]
        pairs = [(k, fields[k]) for k in keys]
    else:
        pairs = list(fields)
    pairs += list(extra)
    out = []
    for k, v in pairs:
        if quote_all or k in QUOTED or k not in ORDER:
            out.append('%s="%s"' % (k, v))
        else:
            out.append('%s=%s' % (k, v))
    return scheme + ' ' + sep.join(out)


def digest_header(user, realm, password, method, uri, nonce, **kw):
    render_kw = {k: kw.pop(k) for k in ('scheme', 'order', 'quote_all', 'sep', 'extra') if k in kw}
    return render_digest(digest_fields(user, realm, password, method, uri, nonce, **kw), **render_kw)


# ---------------------------------------------------------------------------------------------
# trusting the reference
# ---------------------------------------------------------------------------------------------
def selfcheck():
    """Returns a list of problems (empty = the reference agrees with the RFC examples and with
    urllib's independent implementation)."""
    problems = []
    # RFC 2617 section 3.5
    r = digest_response('Mufasa', 'testrealm@host.com', 'Circle Of Life', 'GET', '/dir/index.html',
                        'dcd98b7102dd2f0e8b11d0f600bfb0c093', qop='auth', nc='00000001', cnonce='0a4f113b')
    if r != '6629fae49393a05397450978507c4ef1':
        problems.append('RFC 2617 3.5 example: %s' % r)
    # RFC 2069 section 2.4 (erratum 749 value)
    r = digest_response('Mufasa', 'testrealm@host.com', 'CircleOfLife', 'GET', '/dir/index.html',
                        'dcd98b7102dd2f0e8b11d0f600bfb0c093')
    if r != '1949323746fe6a43ef61f9606e7febea':
        problems.append('RFC 2069 example: %s' % r)
    # RFC 7617 section 2
    if basic_header('Aladdin', 'open sesame') != 'Basic QWxhZGRpbjpvcGVuIHNlc2FtZQ==':
        problems.append('RFC 7617 example: %s' % basic_header('Aladdin', 'open sesame'))
    # urllib's implementation (MD5, qop=auth and no qop)
    try:
        import urllib.request as ur

        for qop in ('auth', None):
            for (user, pw, realm, method, uri) in (('al ice', 'p:w,d', 'My Realm', 'POST', '/a/b?c=1,2'),
                                                   ('bob', 'None', 'R', 'GET', '/')):
                mgr = ur.HTTPPasswordMgrWithDefaultRealm()
                mgr.add_password(None, 'http://h/', user, pw)
                h = ur.AbstractDigestAuthHandler(mgr)
                chal = {'realm': realm, 'nonce': 'abc123', 'algorithm': 'MD5'}
                if qop:
                    chal['qop'] = qop
                got = h.get_authorization(ur.Request('http://h' + uri, method=method), chal)
                kv = {}
                for part in ur.parse_http_list(got):
                    k, v = part.split('=', 1)
                    kv[k.strip()] = v.strip('"')
                mine = digest_response(user, realm, pw, method, uri, 'abc123', qop=qop, nc=kv.get('nc'), cnonce=kv.get('cnonce'))
                if mine != kv['response']:
                    problems.append('urllib cross-check failed for qop=%r user=%r' % (qop, user))
    except Exception as e:  # urllib internals moved: the RFC vectors above still stand
        problems.append('urllib cross-check could not run: %r' % (e,))
    return problems

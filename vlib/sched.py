"""Controlled cooperative scheduler for real Python threads (DESIGN.md 2.2).

Exactly one managed thread holds the baton.  Yield points are sys.monitoring LINE events of code
under ``circuits/core/`` plus the blocking primitives, which are doubles:

* ``RLock``  - ownership kept here; a non-owner becomes *blocked* until release;
* ``Event``  - ``wait`` on an unset flag blocks the thread (remembering the timeout), ``set`` enables it;
* ``select.select`` / ``poll.poll`` / ``epoll.poll`` - the real syscall with timeout 0; nothing ready
  => the thread is *poll-blocked* and re-polled whenever the scheduler looks for a runnable thread.

The doubles are bound by the repository at import time (``from threading import RLock, Event``); the
stdlib modules are restored right after, so nothing else in the process sees them.  Outside a
schedule (scheduler inactive, or calling thread unmanaged) every double behaves like the original.
"""
import _thread
import select as _select
import sys
import threading

_RealRLock = threading.RLock
_RealEvent = threading.Event
_real_select = _select.select
_real_poll = _select.poll
_real_epoll = _select.epoll
INF = 10 ** 9


class Aborted(BaseException):
    pass


class T:
    def __init__(self, name, fn):
        self.name = name
        self.fn = fn
        self.sem = _thread.allocate_lock()
        self.sem.acquire()
        self.state = 'ready'      # ready | blocked | done
        self.block = None         # ('lock', obj) | ('event', obj, timeout) | ('poll', fn, timeout) | ('cond', fn)
        self.points = 0
        self.last_switch_points = 0
        self.ident = None
        self.timed_out = False
        self.error = None
        self.thread = None


class Sched:
    def __init__(self):
        self.active = False
        self.by_ident = {}
        self.threads = {}
        self.order = []
        self.current = None
        self.plan = []
        self.plan_i = 0
        self.plan_left = 0
        self.switches = []        # (from, to, where) at context switches: the interleaving signature
        self.trace = []           # ring of the last points (thread, file:line)
        self.violation = None
        self.deadlock = None
        self.main_sem = _thread.allocate_lock()
        self.main_sem.acquire()
        self.on_block = None      # callback(sched, T) evaluated when a thread blocks (lost wake-up predicate)
        self.loop_name = 'L'
        self.record_points = None  # name -> list of (file, line, funcname) for baseline recording
        self.random = None        # random.Random for PCT-style schedules
        self.switch_prob = 0.0
        self.n_points = 0
        self.fair_quantum = 20000
        self._evaluating = 0   # > 0 while the scheduler itself evaluates a waiting condition
        self.virtual_timeouts = 0
        self.double_instances = {'rlock': 0, 'event': 0}

    # -- set-up -----------------------------------------------------------------------------------

    def spawn(self, name, fn):
        t = T(name, fn)
        self.threads[name] = t
        self.order.append(name)

        def wrapper():
            t.ident = _thread.get_ident()
            self.by_ident[t.ident] = t
            t.sem.acquire()               # wait for the baton
            try:
                if not self.aborted():
                    fn()
            except Aborted:
                pass
            except BaseException as e:    # noqa
                t.error = repr(e)
            self._finish(t)
        t.thread = threading.Thread(target=wrapper, name='verif-' + name, daemon=True)
        t.thread.start()
        return t

    def aborted(self):
        return self.violation is not None or self.deadlock is not None

    def run(self, first, plan=(), timeout=60):
        """Give the baton to ``first`` and wait until every managed thread is done or the run aborted."""
        # wait until every thread registered its ident
        import time
        for _ in range(2000):
            if all(t.ident is not None for t in self.threads.values()):
                break
            time.sleep(0.0005)
        self.plan = list(plan)
        self.plan_i = 0
        self.plan_left = self.plan[0][1] if self.plan else 0
        self.active = True
        self.current = self.threads[first]
        self.current.sem.release()
        ok = self.main_sem.acquire(timeout=timeout)
        self.active = False
        return ok

    # -- baton ------------------------------------------------------------------------------------
    def _me(self):
        return self.by_ident.get(_thread.get_ident())

    def managed(self):
        return self.active and _thread.get_ident() in self.by_ident

    def _runnable(self, t):
        if t.state == 'ready':
            return True
        if t.state == 'blocked':
            b = t.block
            if b[0] in ('cond', 'poll'):
                # the condition is the harness' own code, but it may call into monitored code (len(manager), ...): no yield points in
                # there - a switch in the middle of the scheduler's own decision would hand the baton on from stale information
                self._evaluating += 1
                try:
                    return bool(b[1]())
                finally:
                    self._evaluating -= 1
        return False

    def _pick(self, exclude=None):
        # plan directive first
        while self.plan_i < len(self.plan):
            name, _ = self.plan[self.plan_i]
            t = self.threads.get(name)
            if t is not None and t is not exclude and self._runnable(t):
                return t
            # directive names a thread that cannot run now (finished, blocked, or the one giving up the baton): skip it
            self.plan_i += 1
            self.plan_left = self.plan[self.plan_i][1] if self.plan_i < len(self.plan) else 0
        for name in self.order:
            t = self.threads[name]
            if t is not exclude and self._runnable(t):
                return t
        return None

    def _handoff(self, me, nxt, where):
        self.switches.append((me.name if me else None, nxt.name, where, me.points if me else 0))
        if nxt.state == 'blocked':
            nxt.state = 'ready'
            nxt.block = None
        nxt.last_switch_points = nxt.points
        self.current = nxt
        nxt.sem.release()

    def _park(self, me):
        me.sem.acquire()
        if self.aborted():
            raise Aborted()

    def _no_runnable(self, me):
        """Nobody can run.  Release a thread waiting with a finite timeout (virtual passage of time), else deadlock."""
        cands = [t for t in self.threads.values() if t.state == 'blocked' and t.block[0] in ('event', 'poll') and t.block[2] is not None]
        if cands:
            t = min(cands, key=lambda x: x.block[2])
            if self.on_block is not None:
                self.on_block(self, t)   # a wait that needs its timeout to expire: let the harness judge it first
            t.timed_out = True
            self.virtual_timeouts += 1
            return t
        return None

    def _switch_away(self, me, where):
        """``me`` cannot continue (blocked or done): find somebody else or end the run.
        Returns 'handed' (the baton went to another thread: the caller must park without looking at shared state
        again - the other thread is already running), 'continue' (me may go on) or 'ended'."""
        nxt = self._pick(exclude=me)
        if nxt is None and me.state == 'blocked' and self._runnable(me):
            nxt = me   # what it waits for became true meanwhile
        if nxt is None:
            nxt = self._no_runnable(me)
        if nxt is me:
            me.state = 'ready'
            me.block = None
            return 'continue'
        if nxt is None:
            if all(t.state == 'done' for t in self.threads.values()):
                self.main_sem.release()
                return 'ended'
            self.deadlock = {'blocked': {t.name: _describe(t) for t in self.threads.values() if t.state != 'done'}, 'where': where}
            self._abort_all()
            return 'ended'
        self._handoff(me, nxt, where)
        return 'handed'

    def _abort_all(self):
        self.active = False
        for t in self.threads.values():
            if t.state != 'done' and t is not self._me():
                try:
                    t.sem.release()
                except RuntimeError:
                    pass
        self.main_sem.release()

    def violate(self, kind, detail):
        if self.violation is None:
            self.violation = dict(detail, kind=kind, trace_tail=self.trace[-60:], switches=self.switches[-12:])
        self._abort_all()
        raise Aborted()

    def _finish(self, t):
        t.state = 'done'
        if self.aborted():
            return
        self._switch_away(t, 'finish:' + t.name)

    def block(self, reason, where):
        me = self._me()
        if reason[0] == 'cond':
            self._evaluating += 1
            try:
                if reason[1]():
                    return False
            finally:
                self._evaluating -= 1
        me.state = 'blocked'
        me.block = reason
        me.timed_out = False
        if self.on_block is not None:
            self.on_block(self, me)
        how = self._switch_away(me, where)
        if how == 'handed':
            self._park(me)
        elif how == 'ended':
            raise Aborted()
        timed_out = me.timed_out
        me.timed_out = False
        return timed_out

    # -- yield points ------------------------------------------------------------------------------
    def point(self, me, filename, line, funcname):
        if self._evaluating:
            return
        me.points += 1
        self.n_points += 1
        if len(self.trace) > 400:
            del self.trace[:200]
        self.trace.append((me.name, filename.rsplit('/', 1)[-1], line))
        if self.record_points is not None and me.name in self.record_points:
            self.record_points[me.name].append((filename.rsplit('/', 1)[-1], line, funcname))
        if self.plan_i < len(self.plan):
            name, _ = self.plan[self.plan_i]
            if name == me.name:
                self.plan_left -= 1
                if self.plan_left <= 0:
                    self.plan_i += 1
                    self.plan_left = self.plan[self.plan_i][1] if self.plan_i < len(self.plan) else 0
                    nxt = self._pick(exclude=me)
                    if nxt is not None:
                        self._handoff(me, nxt, '%s:%d' % (filename.rsplit('/', 1)[-1], line))
                        self._park(me)
                return
        elif me.points - me.last_switch_points > self.fair_quantum:
            # fairness: a thread that spins without ever blocking must not starve the others for ever
            me.last_switch_points = me.points
            others = [t for t in self.threads.values() if t is not me and self._runnable(t)]
            if others:
                self._handoff(me, others[0], 'fairness')
                self._park(me)
        elif self.random is not None and self.random.random() < self.switch_prob:
            others = [t for t in self.threads.values() if t is not me and self._runnable(t)]
            if others:
                nxt = self.random.choice(others)
                self._handoff(me, nxt, '%s:%d' % (filename.rsplit('/', 1)[-1], line))
                self._park(me)


SCHED = Sched()


def new_sched():
    """A fresh scheduler per schedule: threads left over from an aborted schedule keep their own (aborted) object."""
    global SCHED
    old = SCHED
    SCHED = Sched()
    SCHED.double_instances = old.double_instances
    return SCHED


def _describe(t):
    if t.state != 'blocked':
        return t.state
    b = t.block
    if b[0] == 'event':
        return 'event-wait(timeout=%r)' % (b[2],)
    if b[0] == 'poll':
        return 'poll(timeout=%r)' % (b[2],)
    return b[0]


# -- doubles ------------------------------------------------------------------------------------------
class VRLock:
    def __init__(self):
        self._real = _RealRLock()
        self._owner = None
        self._count = 0
        SCHED.double_instances['rlock'] += 1

    def acquire(self, blocking=True, timeout=-1):
        s = SCHED
        if not s.managed():
            return self._real.acquire(blocking, timeout)
        me = _thread.get_ident()
        while self._owner is not None and self._owner != me:
            if not blocking:
                return False
            s.block(('lock', self), 'lock')
        self._owner = me
        self._count += 1
        return True

    def release(self):
        s = SCHED
        if not s.managed() or self._owner is None:
            return self._real.release()
        if self._owner != _thread.get_ident():
            raise RuntimeError('cannot release un-acquired lock')
        self._count -= 1
        if self._count == 0:
            self._owner = None
            for t in s.threads.values():
                if t.state == 'blocked' and t.block[0] == 'lock' and t.block[1] is self:
                    t.state = 'ready'
                    t.block = None

    __enter__ = acquire

    def __exit__(self, *a):
        self.release()


class VEvent(_RealEvent):
    def __init__(self):
        super().__init__()
        self._vflag = False
        SCHED.double_instances['event'] += 1

    def is_set(self):
        return self._vflag or super().is_set()

    def set(self):
        s = SCHED
        if not s.managed():
            self._vflag = True
            return super().set()
        self._vflag = True
        for t in s.threads.values():
            if t.state == 'blocked' and t.block[0] == 'event' and t.block[1] is self:
                t.state = 'ready'
                t.block = None

    def clear(self):
        self._vflag = False
        if not SCHED.managed():
            super().clear()

    def wait(self, timeout=None):
        s = SCHED
        if not s.managed():
            return super().wait(timeout)
        if self._vflag:
            return True
        if timeout is not None and timeout <= 0:
            return False
        s.block(('event', self, None if (timeout is None or timeout >= 10000) else timeout), 'event.wait')
        return self._vflag


def _poll_block(ready_fn, timeout, where):
    """Common part of the select/poll/epoll doubles: ``ready_fn()`` runs the real call with timeout 0."""
    s = SCHED
    res = ready_fn()
    if _nonempty(res) or (timeout is not None and timeout <= 0):
        return res
    s.block(('poll', lambda: _nonempty(ready_fn()), timeout), where)
    return ready_fn()


def _nonempty(res):
    if isinstance(res, tuple):
        return any(res)
    return bool(res)


def vselect(r, w, x, timeout=None):
    if not SCHED.managed():
        return _real_select(r, w, x) if timeout is None else _real_select(r, w, x, timeout)
    return _poll_block(lambda: _real_select(r, w, x, 0), timeout, 'select')


class VPoll:
    def __init__(self):
        self._p = _real_poll()

    def register(self, *a):
        return self._p.register(*a)

    def modify(self, *a):
        return self._p.modify(*a)

    def unregister(self, *a):
        return self._p.unregister(*a)

    def poll(self, timeout=None):
        if not SCHED.managed():
            return self._p.poll() if timeout is None else self._p.poll(timeout)
        t = None if (timeout is None or timeout < 0) else timeout / 1000.0
        return _poll_block(lambda: self._p.poll(0), t, 'poll')


class VEPoll:
    def __init__(self, *a, **k):
        self._p = _real_epoll(*a, **k)

    def __getattr__(self, name):
        return getattr(self._p, name)

    def poll(self, timeout=-1, maxevents=-1):
        if not SCHED.managed():
            return self._p.poll(timeout, maxevents)
        t = None if (timeout is None or timeout < 0) else timeout
        return _poll_block(lambda: self._p.poll(0, maxevents), t, 'epoll')


# -- installation ---------------------------------------------------------------------------------------
_TOOL = 3
_installed = {'mon': False}


def install_and_import():
    """Install the doubles, import the repository's core modules (which bind them), restore the stdlib."""
    assert not any(m == 'circuits' or m.startswith('circuits.') for m in sys.modules), 'circuits imported before the doubles'
    threading.RLock = VRLock
    threading.Event = VEvent
    try:
        import circuits  # noqa: F401
        import circuits.core.helpers  # noqa: F401
        import circuits.core.manager  # noqa: F401
        import circuits.core.pollers  # noqa: F401
        import circuits.core.timers  # noqa: F401
    finally:
        threading.RLock = _RealRLock
        threading.Event = _RealEvent
    _select.select = vselect
    _select.poll = VPoll
    _select.epoll = VEPoll
    return SCHED


def start_monitoring(core_dir):
    mon = sys.monitoring
    if _installed['mon']:
        return
    mon.use_tool_id(_TOOL, 'verif-sched')

    def on_line(code, line):
        fn = code.co_filename
        if not fn.startswith(core_dir):
            return mon.DISABLE
        s = SCHED
        if not s.active:
            return None
        me = s.by_ident.get(_thread.get_ident())
        if me is None or s.current is not me:
            return None
        s.point(me, fn, line, code.co_name)
        return None
    mon.register_callback(_TOOL, mon.events.LINE, on_line)
    mon.set_events(_TOOL, mon.events.LINE)
    _installed['mon'] = True

"""Independent decoders of HTTP/1.x *responses* used as oracles by checks/c15.py (DESIGN.md 2.7).

Two decoders that share no code with the repository and none with each other:

* :func:`parse_response` - a strict RFC 7230 tokenizer written for this purpose: status line and
  header grammar, message-body length rules of section 3.3.3 (HEAD/1xx/204/304 have no body,
  Transfer-Encoding chunked, Content-Length, else read-until-close), strict chunked decoding.
  Anything a lenient client would paper over (bare LF, obs-fold, CL+TE, differing duplicate
  Content-Length, missing chunk CRLF, missing last-chunk, truncated body) is a :class:`ParseError`.
* :func:`httpclient_decode` - ``http.client.HTTPResponse`` over a byte buffer (the stdlib client,
  the "independent HTTP client" the property names).

Both report what is left in the buffer after the message: a self-delimiting message leaves nothing.
``selfcheck_vectors()`` exercises the strict parser against the stdlib client on hand-made vectors
before it is trusted (used by the corpus batch of C15).
"""
import http.client
import io

_TCHAR = frozenset(b"!#$%&'*+-.^_`|~0123456789ABCDEFGHIJKLMNOPQRSTUVWXYZabcdefghijklmnopqrstuvwxyz")
_DIGITS = frozenset(b'0123456789')
_HEX = frozenset(b'0123456789abcdefABCDEF')
NO_BODY_STATUS = (204, 304)


class ParseError(Exception):
    """The bytes are not one complete, strictly well-formed HTTP/1.x response."""


def no_body(method, status):
    return method == 'HEAD' or 100 <= status < 200 or status in NO_BODY_STATUS


def _line(data, pos, what):
    end = data.find(b'\r\n', pos)
    if end < 0:
        raise ParseError('incomplete %s (no CRLF)' % what)
    line = data[pos:end]
    if b'\r' in line or b'\n' in line:
        raise ParseError('bare CR or LF inside %s' % what)
    return line, end + 2


def parse_head(data):
    """Status line + header block.  Returns (version, status, reason, headers, offset_after_blank_line)."""
    line, pos = _line(data, 0, 'status line')
    # HTTP-version SP status-code SP reason-phrase
    if len(line) < 13 or line[:5] != b'HTTP/' or line[5] not in _DIGITS or line[6:7] != b'.' or line[7] not in _DIGITS:
        raise ParseError('bad HTTP-version in status line %r' % line[:40])
    if line[8:9] != b' ' or line[12:13] != b' ':
        raise ParseError('status line is not "HTTP-version SP 3DIGIT SP reason": %r' % line[:40])
    code = line[9:12]
    if any(c not in _DIGITS for c in code):
        raise ParseError('status code is not 3DIGIT: %r' % line[:40])
    reason = line[13:]
    if any((c < 0x20 and c != 0x09) or c == 0x7f for c in reason):
        raise ParseError('control character in reason phrase')
    version = (line[5] - 48, line[7] - 48)
    headers = []
    while True:
        line, pos = _line(data, pos, 'header block')
        if line == b'':
            break
        if line[0] in (0x20, 0x09):
            raise ParseError('obs-fold / leading whitespace in header line %r' % line[:40])
        colon = line.find(b':')
        if colon <= 0:
            raise ParseError('header line without field-name ":" %r' % line[:40])
        name = line[:colon]
        if any(c not in _TCHAR for c in name):
            raise ParseError('field-name is not a token: %r' % name[:40])
        value = line[colon + 1:].strip(b' \t')
        if any((c < 0x20 and c != 0x09) or c == 0x7f for c in value):
            raise ParseError('control character in field-value of %r' % name)
        headers.append((name.decode('latin-1'), value.decode('latin-1')))
    return version, int(code), reason.decode('latin-1'), headers, pos


def header_values(headers, name):
    name = name.lower()
    return [v for k, v in headers if k.lower() == name]


def _tokens(values):
    out = []
    for v in values:
        out.extend(t.strip().lower() for t in v.split(',') if t.strip())
    return out


def _chunked(data, pos):
    body, sizes = [], []
    while True:
        line, pos = _line(data, pos, 'chunk-size line')
        size_part = line.split(b';', 1)[0].rstrip(b' \t')
        if not size_part or any(c not in _HEX for c in size_part):
            raise ParseError('chunk-size is not 1*HEXDIG: %r' % line[:40])
        size = int(size_part, 16)
        sizes.append(size)
        if size == 0:
            break
        if len(data) - pos < size + 2:
            raise ParseError('truncated chunk (%d of %d data bytes + CRLF present)' % (len(data) - pos, size))
        body.append(data[pos:pos + size])
        pos += size
        if data[pos:pos + 2] != b'\r\n':
            raise ParseError('chunk data not followed by CRLF')
        pos += 2
    trailers = []
    while True:
        line, pos = _line(data, pos, 'chunked trailer / final CRLF')
        if line == b'':
            break
        colon = line.find(b':')
        if colon <= 0 or any(c not in _TCHAR for c in line[:colon]):
            raise ParseError('bad trailer line %r' % line[:40])
        trailers.append((line[:colon].decode('latin-1'), line[colon + 1:].strip(b' \t').decode('latin-1')))
    return b''.join(body), sizes, trailers, pos


def connection_announces_close(version, headers):
    """Persistence as the header block states it (RFC 7230 6.3): HTTP/1.1 closes iff ``Connection:
    close``; HTTP/1.0 closes unless ``Connection: keep-alive``."""
    conn = _tokens(header_values(headers, 'Connection'))
    if version >= (1, 1):
        return 'close' in conn
    return 'keep-alive' not in conn


def head_announces_close(data, method='GET'):
    """Close announcement derived from the header block alone (used when the body does not decode):
    the Connection rule, or a body-bearing response with neither Content-Length nor chunked coding."""
    version, status, _reason, headers, _pos = parse_head(data)
    if connection_announces_close(version, headers):
        return True
    if no_body(method, status):
        return False
    te = _tokens(header_values(headers, 'Transfer-Encoding'))
    return not (header_values(headers, 'Content-Length') or (te and te[-1] == 'chunked'))


def parse_response(data, method='GET'):
    """Strictly decode ONE response from the start of ``data`` (the bytes a connection carried after
    a request with ``method``).  Returns a dict: version, status, reason, headers [(name, value)],
    framing in {'none', 'chunked', 'length', 'close'}, body, consumed, leftover, chunk_sizes,
    announces_close.  ``framing == 'close'`` means the body is everything up to the end of ``data``
    (legal only if the connection really ends there - the caller checks that)."""
    version, status, reason, headers, pos = parse_head(data)
    if version[0] != 1:
        raise ParseError('not an HTTP/1.x response: %r' % (version,))
    te = header_values(headers, 'Transfer-Encoding')
    cl = header_values(headers, 'Content-Length')
    for v in cl:
        if not v or any(c not in '0123456789' for c in v):
            raise ParseError('Content-Length is not 1*DIGIT: %r' % v)
    if len({int(v) for v in cl}) > 1:
        raise ParseError('differing Content-Length values %r' % cl)
    if te and cl:
        raise ParseError('both Transfer-Encoding and Content-Length present')
    sizes = []
    if no_body(method, status):
        framing, body, end = 'none', b'', pos
    elif te:
        codings = _tokens(te)
        if codings and codings[-1] == 'chunked':
            if codings.count('chunked') != 1:
                raise ParseError('chunked applied more than once')
            framing = 'chunked'
            body, sizes, _trailers, end = _chunked(data, pos)
        else:
            framing, body, end = 'close', data[pos:], len(data)
    elif cl:
        n = int(cl[0])
        if len(data) - pos < n:
            raise ParseError('truncated body: Content-Length %d, %d bytes present' % (n, len(data) - pos))
        framing, body, end = 'length', data[pos:pos + n], pos + n
    else:
        framing, body, end = 'close', data[pos:], len(data)
    announces = connection_announces_close(version, headers) or framing == 'close'
    return {
        'version': version, 'status': status, 'reason': reason, 'headers': headers, 'framing': framing,
        'body': body, 'consumed': end, 'leftover': data[end:], 'chunk_sizes': sizes, 'announces_close': announces,
        'head_len': pos,
    }


# -- the stdlib client over a byte buffer ------------------------------------------------------------
class _Buf(io.BytesIO):
    def close(self):  # http.client closes the file when the message is complete; keep it inspectable
        pass


class _Sock:
    def __init__(self, data):
        self.buf = _Buf(data)

    def makefile(self, *a, **k):
        return self.buf


def httpclient_decode(data, method='GET'):
    """Decode one response with http.client.HTTPResponse.  Returns a dict like parse_response
    (version, status, reason, headers, body, leftover, announces_close, chunked, length) or raises
    whatever the stdlib client raises (http.client.HTTPException, ValueError, ...)."""
    s = _Sock(data)
    r = http.client.HTTPResponse(s, method=method)
    r.begin()
    declared = r.length
    chunked = bool(r.chunked)
    will_close = bool(r.will_close)
    body = r.read()
    pos = s.buf.tell()
    return {
        'version': (r.version // 10, r.version % 10), 'status': r.status, 'reason': r.reason,
        'headers': [(k, v) for k, v in r.msg.items()], 'body': body, 'leftover': data[pos:],
        'announces_close': will_close, 'chunked': chunked, 'length': declared,
    }


# -- trusting the strict parser: hand-made vectors, both decoders must agree -------------------------
def selfcheck_vectors():
    """[(name, method, bytes, complete?[, stdlib complete?])]: ``complete`` is True iff the bytes are exactly one complete,
    well-formed response; False iff a correct decoder must refuse them or report leftover bytes."""
    H = b'HTTP/1.1 200 OK\r\n'
    return [
        ('cl', 'GET', H + b'Content-Length: 3\r\n\r\nabc', True),
        ('cl0', 'GET', H + b'Content-Length: 0\r\n\r\n', True),
        ('cl-short', 'GET', H + b'Content-Length: 5\r\n\r\nabc', False),
        ('cl-long', 'GET', H + b'Content-Length: 2\r\n\r\nabc', False),
        ('chunked', 'GET', H + b'Transfer-Encoding: chunked\r\n\r\n3\r\nabc\r\n10\r\n0123456789abcdef\r\n0\r\n\r\n', True),
        ('chunked-empty', 'GET', H + b'Transfer-Encoding: chunked\r\n\r\n0\r\n\r\n', True),
        ('chunked-noterm', 'GET', H + b'Transfer-Encoding: chunked\r\n\r\n3\r\nabc\r\n', False),
        ('chunked-nothing', 'GET', H + b'Transfer-Encoding: chunked\r\n\r\n', False),
        ('chunked-early-term', 'GET', H + b'Transfer-Encoding: chunked\r\n\r\n0\r\n\r\n1\r\na\r\n0\r\n\r\n', False),
        ('chunked-decimal-size', 'GET', H + b'Transfer-Encoding: chunked\r\n\r\n12\r\nabcdefghijkl\r\n0\r\n\r\n', False),
        ('close-delimited', 'GET', b'HTTP/1.0 200 OK\r\nX: y\r\n\r\nabc', True),
        ('head', 'HEAD', H + b'Content-Length: 3\r\n\r\n', True),
        ('head-with-body', 'HEAD', H + b'Content-Length: 3\r\n\r\nabc', False),
        ('204', 'GET', b'HTTP/1.1 204 No Content\r\nX: y\r\n\r\n', True),
        ('204-with-body', 'GET', b'HTTP/1.1 204 No Content\r\nContent-Length: 1\r\n\r\nx', False),
        ('304-with-cl', 'GET', b'HTTP/1.1 304 Not Modified\r\nContent-Length: 10\r\n\r\n', True),
        ('101', 'GET', b'HTTP/1.1 101 Switching Protocols\r\nUpgrade: x\r\n\r\n', True),
        ('two-responses', 'GET', H + b'Content-Length: 1\r\n\r\na' + H + b'Content-Length: 1\r\n\r\nb', False),
        # the stdlib client is lenient here (EOF ends the header block); the strict parser must refuse
        ('no-blank-line', 'GET', H + b'Content-Length: 0\r\n', False, True),
        ('bare-lf', 'GET', b'HTTP/1.1 200 OK\nContent-Length: 0\n\n', False, True),
    ]


def selfcheck():
    """Run the vectors through both decoders.  Returns a list of disagreements (empty = trusted)."""
    bad = []
    for name, method, data, complete, *rest in selfcheck_vectors():
        std_complete = rest[0] if rest else complete
        try:
            p = parse_response(data, method)
            strict_ok = p['leftover'] == b''
        except ParseError:
            strict_ok = False
        try:
            h = httpclient_decode(data, method)
            std_ok = h['leftover'] == b''
        except Exception:
            std_ok = False
        if strict_ok != complete or std_ok != std_complete:
            bad.append((name, 'expected complete=%s strict=%s http.client=%s' % (complete, strict_ok, std_ok)))
        elif complete and (p['status'], p['body']) != (h['status'], h['body']):
            bad.append((name, 'decoders disagree on status/body'))
    return bad

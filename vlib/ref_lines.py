"""Reference oracles for C18 (written from the property statement and RFC 1459/2812, not from the
code under test).

* :func:`ref_split` - the lines contained in a byte stream: a line ends with LF; one CR directly
  before that LF belongs to the terminator (CRLF); everything after the last LF is the
  unterminated tail.  A CR that is not directly followed by LF is ordinary line content.
* :func:`ref_parse_irc` - RFC 2812 2.3.1 message grammar on one line *without* its terminator:
  ``[":" prefix SPACE] command *(SPACE middle) [SPACE ":" trailing]`` where SPACE is 0x20 only.
  It is used as a diagnostic (which side of a failed round trip is at fault), the obligation
  itself is stated on the real ``parsemsg``.
"""


def ref_split(stream):
    """-> (complete lines, unterminated tail) of the whole byte stream."""
    lines = []
    cur = bytearray()
    for i in range(len(stream)):
        c = stream[i:i + 1]
        if c == b'\n':
            if cur.endswith(b'\r'):
                del cur[-1]
            lines.append(bytes(cur))
            cur = bytearray()
        else:
            cur += c
    return lines, bytes(cur)


def ref_parse_irc(line):
    """``line``: str without CRLF -> (prefix | None, command | None, [args])."""
    prefix = None
    rest = line
    if rest.startswith(':'):
        head, _, rest = rest[1:].partition(' ')
        prefix = head
    args = []
    while rest:
        if rest.startswith(':'):
            args.append(rest[1:])
            rest = ''
            break
        word, sep, rest = rest.partition(' ')
        if word:
            args.append(word)
        elif not sep:
            break
    if not args:
        return prefix, None, []
    # a ':' in front of the very first word is not a trailing marker (it is the command position),
    # but such commands are outside what the check generates for the round-trip clause
    return prefix, args[0], args[1:]


def join_prefix_tuple(t):
    """Inverse of the (nick, user, host) presentation of a prefix; None when there was none."""
    nick, user, host = t
    if user is None and host is None:
        return nick
    return '%s!%s@%s' % (nick or '', user or '', host or '')


def has_line_break(b):
    return b'\r' in b or b'\n' in b

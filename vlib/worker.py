"""Worker process: run one batch of one check module and print its result as one JSON line.

Invoked by vlib.runner as ``python -B vlib/worker.py <check module>`` with the batch spec on
stdin.  A watchdog (faulthandler) dumps all stacks and kills the worker when it overruns; the
parent reports that as *inconclusive*, never as a violation.
"""
import faulthandler
import importlib
import json
import os
import sys
import traceback

MARK = '@@VERIF-RESULT@@'


def main():
    modname = sys.argv[1]
    here = os.path.dirname(os.path.dirname(os.path.abspath(__file__)))
    repo = os.environ.get('VERIF_REPO', '/repo')
    # the repository first (current working tree), then the framework
    sys.path[:0] = [repo, here]
    spec = json.loads(sys.stdin.read())
    watchdog = float(spec.get('_watchdog', 600))
    faulthandler.enable()
    faulthandler.dump_traceback_later(watchdog, exit=True)
    out = sys.stdout
    # anything the repository prints must not corrupt the result line
    sys.stdout = sys.stderr
    try:
        mod = importlib.import_module('checks.' + modname)
        if '_replay' in spec:
            res = mod.run_replay(spec['_replay'])
        else:
            res = mod.run_batch(spec)
    except BaseException:
        res = {'worker_error': traceback.format_exc()}
    faulthandler.cancel_dump_traceback_later()
    out.write('\n' + MARK + json.dumps(res) + '\n')
    out.flush()
    # daemon threads / stuck sockets must not keep the worker alive
    sys.stderr.flush()
    os._exit(0)


if __name__ == '__main__':
    main()

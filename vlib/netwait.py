"""Loopback resources are finite: thousands of short connections of earlier cases (and of other checks run just before) sit in TIME_WAIT
and can exhaust the ports that bind(('127.0.0.1', 0)) chooses from.  That is a property of the machine, not of the code under test:
wait for some to expire instead of reporting anything."""
import errno
import time


def retry_addr_in_use(make, attempts=10, pause=2.0):
    """Call ``make()``; on EADDRINUSE / EADDRNOTAVAIL wait and try again.  The last error propagates."""
    for i in range(attempts):
        try:
            return make()
        except OSError as e:
            if e.errno not in (errno.EADDRINUSE, errno.EADDRNOTAVAIL) or i == attempts - 1:
                raise
            time.sleep(pause)

"""Strict reference HTTP/1.x tokenizer (DESIGN.md 2.7) - an ORACLE, sharing no code with the repository.

Written from RFC 7230 (message syntax) and RFC 7231 (status codes without a body):

* ``parse_response(buf, pos, method)``   one response starting at ``pos`` -> (Response, end position)
* ``parse_responses(buf, methods, closed)`` a whole connection's output as a sequence of responses
* ``parse_request(buf, pos)``            one request (used to derive what a well-formed request *says*)
* ``classify_request(buf)``              'complete' | 'incomplete' | 'malformed'
* ``stdlib_response(buf, method)``       the same bytes through ``http.client.HTTPResponse`` over a byte buffer
* ``crosscheck(buf, method)``            both parsers on one buffer; list of disagreements
* ``selftest()``                         exercises the tokenizer against ``http.client`` on a fixed table

Errors: ``Incomplete`` (a prefix of something that may still become valid) and ``Malformed`` (no continuation
can make it valid).  The response side is *strict* (what a server may send), the request side accepts the
obsolete line folding the property's grammar contains.
"""
import http.client
import io
import re

TOKEN = re.compile(rb"^[!#$%&'*+\-.^_`|~0-9A-Za-z]+$")
VERSION = re.compile(rb'^HTTP/(\d)\.(\d)$')
STATUS_LINE = re.compile(rb'^HTTP/(\d)\.(\d) (\d{3}) ([\t \x21-\x7e\x80-\xff]*)$')
FIELD_VALUE = re.compile(rb'^[\t \x21-\x7e\x80-\xff]*$')
HEXSIZE = re.compile(rb'^[0-9A-Fa-f]+$')
CHUNK_EXT = re.compile(rb'^(?:[ \t]*;[ \t]*[!#$%&\'*+\-.^_`|~0-9A-Za-z]+(?:[ \t]*=[ \t]*(?:[!#$%&\'*+\-.^_`|~0-9A-Za-z]+|"(?:[^"\\]|\\.)*"))?)*[ \t]*$')
REQUEST_TARGET = re.compile(rb'^[\x21-\x7e]+$')
MAX_LINE = 65536


class Incomplete(Exception):
    """The buffer ends before the message does."""


class Malformed(Exception):
    """The bytes cannot be (the beginning of) a valid message."""


class Message:
    def __init__(self):
        self.version = None
        self.headers = []       # [(name bytes as sent, value bytes with OWS stripped / folds replaced by SP)]
        self.body = b''
        self.framing = None     # 'none' | 'length' | 'chunked' | 'close'
        self.trailers = []
        self.chunk_sizes = []
        self.chunk_marks = []   # per chunk: (size line start, data start, data end, position after the data's CRLF)
        self.zero_line = None   # (start, end) of the last-chunk size line, end = position after its CRLF
        self.start = 0
        self.end = 0
        self.head_end = 0

    def get_all(self, name):
        name = name.lower()
        return [v for k, v in self.headers if k.lower() == name]

    def get(self, name, default=None):
        vs = self.get_all(name)
        return vs[0] if vs else default

    def header_map(self):
        """lower-case name -> list of values (latin-1 str), whitespace runs collapsed."""
        out = {}
        for k, v in self.headers:
            out.setdefault(k.decode('latin-1').lower(), []).append(' '.join(v.decode('latin-1').split()))
        return out


class Response(Message):
    status = None
    reason = b''

    def announces_close(self):
        toks = [t.strip().lower() for v in self.get_all(b'Connection') for t in v.split(b',')]
        if b'close' in toks:
            return True
        if self.version == (1, 0):
            return b'keep-alive' not in toks
        return False

    def summary(self):
        return {'version': list(self.version), 'status': self.status, 'reason': self.reason.decode('latin-1'),
                'headers': sorted((k.decode('latin-1').lower(), v.decode('latin-1')) for k, v in self.headers),
                'body': self.body, 'framing': self.framing}


class Request(Message):
    method = None
    target = None

    @property
    def path(self):
        return self.target.split(b'?', 1)[0]

    @property
    def query(self):
        return self.target.split(b'?', 1)[1] if b'?' in self.target else b''


def _line(buf, pos):
    """(line without CRLF, position after CRLF); a bare LF or a CR not followed by LF inside the line is malformed."""
    idx = buf.find(b'\r\n', pos)
    if idx < 0:
        tail = buf[pos:]
        # a lone CR may still be completed by LF only if it is the very last byte
        if b'\n' in tail or b'\r' in tail[:-1]:
            raise Malformed('bare CR or LF in line %r' % tail[:60])
        if len(tail) > MAX_LINE:
            raise Malformed('line too long')
        raise Incomplete('line not terminated')
    line = buf[pos:idx]
    if b'\n' in line or b'\r' in line:
        raise Malformed('bare CR or LF in line %r' % line[:60])
    return line, idx + 2


def _headers(buf, pos, allow_fold):
    """header block up to and including the empty line -> (list, position after it)"""
    out = []
    while True:
        line, pos = _line(buf, pos)
        if line == b'':
            return out, pos
        if line[:1] in (b' ', b'\t'):
            if not allow_fold or not out:
                raise Malformed('line folding / leading whitespace in header block: %r' % line[:60])
            k, v = out[-1]
            out[-1] = (k, (v + b' ' + line.strip(b' \t')).strip(b' \t'))
            continue
        if b':' not in line:
            raise Malformed('header line without colon: %r' % line[:60])
        name, value = line.split(b':', 1)
        if not TOKEN.match(name):
            raise Malformed('invalid field name %r' % name[:60])
        if not FIELD_VALUE.match(value):
            raise Malformed('invalid octet in field value of %r' % name[:60])
        out.append((name, value.strip(b' \t')))


def _content_length(msg):
    cls = msg.get_all(b'Content-Length')
    if not cls:
        return None
    vals = set()
    for v in cls:
        for part in v.split(b','):
            part = part.strip()
            if not re.match(rb'^\d+$', part):
                raise Malformed('invalid Content-Length %r' % v)
            vals.add(int(part))
    if len(vals) != 1:
        raise Malformed('conflicting Content-Length values %r' % cls)
    return vals.pop()


def _is_chunked(msg):
    tes = [t.strip().lower() for v in msg.get_all(b'Transfer-Encoding') for t in v.split(b',') if t.strip()]
    if not tes:
        return False
    if tes[-1] != b'chunked' or tes.count(b'chunked') != 1:
        raise Malformed('Transfer-Encoding whose final coding is not a single chunked: %r' % tes)
    return True


def _chunked(buf, pos, msg):
    body = []
    while True:
        line_start = pos
        line, pos = _line(buf, pos)
        size, _, ext = line.partition(b';')
        if not HEXSIZE.match(size):
            raise Malformed('invalid chunk size %r' % line[:40])
        if ext and not CHUNK_EXT.match(b';' + ext):
            raise Malformed('invalid chunk extension %r' % line[:60])
        n = int(size, 16)
        msg.chunk_sizes.append(n)
        if n == 0:
            msg.zero_line = (line_start, pos)
            break
        if len(buf) < pos + n:
            raise Incomplete('chunk data')
        body.append(buf[pos:pos + n])
        msg.chunk_marks.append((line_start, pos, pos + n, pos + n + 2))
        pos += n
        if len(buf) < pos + 2:
            if buf[pos:] not in (b'', b'\r'):
                raise Malformed('chunk data not followed by CRLF')
            raise Incomplete('chunk terminator')
        if buf[pos:pos + 2] != b'\r\n':
            raise Malformed('chunk data not followed by CRLF')
        pos += 2
    msg.trailers, pos = _headers(buf, pos, allow_fold=False)
    msg.body = b''.join(body)
    return pos


def parse_response(buf, pos=0, method='GET', closed=False):
    """One response starting at ``pos``.  ``closed``: the connection was closed after ``buf`` (needed to
    delimit a read-until-close body).  Returns (Response, end)."""
    r = Response()
    r.start = pos
    line, p = _line(buf, pos)
    m = STATUS_LINE.match(line)
    if not m:
        raise Malformed('invalid status line %r' % line[:80])
    r.version = (int(m.group(1)), int(m.group(2)))
    if r.version[0] != 1:
        raise Malformed('not an HTTP/1.x response: %r' % line[:20])
    r.status = int(m.group(3))
    r.reason = m.group(4)
    if r.status < 100 or r.status > 599:
        raise Malformed('status code out of range: %d' % r.status)
    r.headers, p = _headers(buf, p, allow_fold=False)
    r.head_end = p
    chunked = _is_chunked(r)
    clen = _content_length(r)
    if chunked and clen is not None:
        raise Malformed('both Transfer-Encoding and Content-Length sent')
    if chunked and r.version == (1, 0):
        raise Malformed('chunked coding in an HTTP/1.0 response')
    if method == 'HEAD' or r.status < 200 or r.status in (204, 304):
        if chunked and (r.status < 200 or r.status == 204):
            raise Malformed('Transfer-Encoding in a %d response' % r.status)
        r.framing = 'none'
        r.end = p
        return r, p
    if chunked:
        r.framing = 'chunked'
        p = _chunked(buf, p, r)
    elif clen is not None:
        r.framing = 'length'
        if len(buf) < p + clen:
            raise Incomplete('body: %d of %d bytes' % (len(buf) - p, clen))
        r.body = buf[p:p + clen]
        p += clen
    else:
        r.framing = 'close'
        if not closed:
            raise Incomplete('close-delimited body on a connection that was not closed')
        r.body = buf[p:]
        p = len(buf)
    r.end = p
    return r, p


def parse_responses(buf, methods=(), closed=False):
    """The whole output of one connection: (list of complete responses, error or None).
    ``error`` is ('incomplete'|'malformed', message, offset) describing what follows the last complete response."""
    out = []
    pos = 0
    i = 0
    while pos < len(buf):
        method = methods[i] if i < len(methods) else 'GET'
        try:
            r, pos = parse_response(buf, pos, method, closed)
        except Incomplete as e:
            return out, ('incomplete', str(e), pos)
        except Malformed as e:
            return out, ('malformed', str(e), pos)
        out.append(r)
        i += 1
    return out, None


def parse_request(buf, pos=0):
    """One request starting at ``pos`` -> (Request, end).  Accepts obsolete line folding (RFC 7230 3.2.4 lets a
    server accept it) but nothing else outside the grammar."""
    r = Request()
    r.start = pos
    line, p = _line(buf, pos)
    parts = line.split(b' ')
    if len(parts) != 3:
        raise Malformed('request line is not "method SP target SP version": %r' % line[:80])
    method, target, version = parts
    if not TOKEN.match(method):
        raise Malformed('invalid method %r' % method[:40])
    if not REQUEST_TARGET.match(target):
        raise Malformed('invalid request target %r' % target[:80])
    if b'#' in target:
        raise Malformed('fragment in request target')
    m = VERSION.match(version)
    if not m:
        raise Malformed('invalid HTTP version %r' % version[:20])
    r.method, r.target, r.version = method, target, (int(m.group(1)), int(m.group(2)))
    r.headers, p = _headers(buf, p, allow_fold=True)
    r.head_end = p
    chunked = _is_chunked(r)
    clen = _content_length(r)
    if chunked and clen is not None:
        raise Malformed('both Transfer-Encoding and Content-Length')
    if r.version >= (1, 1) and r.version[0] == 1:
        hosts = r.get_all(b'Host')
        if len(hosts) != 1:
            raise Malformed('HTTP/1.1 request with %d Host fields' % len(hosts))
    if chunked:
        r.framing = 'chunked'
        p = _chunked(buf, p, r)
    elif clen is not None:
        r.framing = 'length'
        if len(buf) < p + clen:
            raise Incomplete('body: %d of %d bytes' % (len(buf) - p, clen))
        r.body = buf[p:p + clen]
        p += clen
    else:
        r.framing = 'none'
    r.end = p
    return r, p


def classify_request(buf):
    """('complete', Request, end) | ('incomplete', reason) | ('malformed', reason)"""
    try:
        r, end = parse_request(buf, 0)
    except Incomplete as e:
        return ('incomplete', str(e))
    except Malformed as e:
        return ('malformed', str(e))
    return ('complete', r, end)


# -- the standard library's opinion ------------------------------------------------------------
class _KeepOpen(io.BytesIO):
    def close(self):  # http.client closes the file when the body ends; the read position is still wanted
        pass


class _BufSock:
    def __init__(self, data):
        self.fp = _KeepOpen(data)

    def makefile(self, mode='rb', *a, **kw):
        return self.fp


def stdlib_response(buf, method='GET'):
    """``buf`` through http.client.HTTPResponse -> dict(status, reason, version, headers, body, consumed).
    ``buf`` must be the complete input (http.client reads a close-delimited body to the end of it).
    Raises http.client.HTTPException / ValueError on what the standard library refuses."""
    sock = _BufSock(buf)
    resp = http.client.HTTPResponse(sock, method=method)
    resp.begin()
    body = resp.read()
    return {'status': resp.status, 'reason': resp.reason, 'version': resp.version,
            'headers': sorted((k.lower(), v) for k, v in resp.msg.items()), 'body': body,
            'consumed': sock.fp.tell(), 'chunked': bool(resp.chunked), 'will_close': resp.will_close}


def crosscheck(buf, method='GET', closed=False):
    """Both parsers on one response at the start of ``buf``; returns a list of disagreements (empty = agree).
    A response the reference accepts must be accepted by http.client with the same status, headers and body."""
    ref, end = parse_response(buf, 0, method, closed)
    try:
        std = stdlib_response(buf[:end], method)
    except Exception as e:  # noqa: BLE001
        return ['http.client refuses what the reference accepts: %r' % (e,)]
    diffs = []
    if std['status'] != ref.status:
        diffs.append('status %r != %r' % (std['status'], ref.status))
    if std['version'] != ref.version[0] * 10 + ref.version[1]:
        diffs.append('version %r != %r' % (std['version'], ref.version))
    if std['reason'] != ref.reason.decode('latin-1').strip():
        diffs.append('reason %r != %r' % (std['reason'], ref.reason))
    rh = sorted((k.decode('latin-1').lower(), v.decode('latin-1')) for k, v in ref.headers)
    if std['headers'] != rh:
        diffs.append('headers %r != %r' % (std['headers'], rh))
    if std['body'] != ref.body:
        diffs.append('body %r != %r' % (std['body'][:80], ref.body[:80]))
    if ref.framing in ('length', 'none') and std['consumed'] != end:
        diffs.append('consumed %r != %r' % (std['consumed'], end))
    return diffs


SELFTEST_TABLE = [
    # (bytes, method, closed, expected: ('ok', status, body, framing) | 'incomplete' | 'malformed')
    (b'HTTP/1.1 200 OK\r\nContent-Length: 5\r\n\r\nhello', 'GET', False, ('ok', 200, b'hello', 'length')),
    (b'HTTP/1.1 200 OK\r\nContent-Length: 0\r\n\r\n', 'GET', False, ('ok', 200, b'', 'length')),
    (b'HTTP/1.0 200 OK\r\nContent-Type: text/plain\r\n\r\nuntil close', 'GET', True, ('ok', 200, b'until close', 'close')),
    (b'HTTP/1.0 200 OK\r\nContent-Type: text/plain\r\n\r\nuntil close', 'GET', False, 'incomplete'),
    (b'HTTP/1.1 200 OK\r\nTransfer-Encoding: chunked\r\n\r\n5\r\nhello\r\n6;x=y\r\n world\r\n0\r\n\r\n', 'GET', False,
     ('ok', 200, b'hello world', 'chunked')),
    (b'HTTP/1.1 200 OK\r\nTransfer-Encoding: chunked\r\n\r\n5\r\nhello\r\n0\r\nX-T: 1\r\n\r\n', 'GET', False, ('ok', 200, b'hello', 'chunked')),
    (b'HTTP/1.1 204 No Content\r\nDate: x\r\n\r\n', 'GET', False, ('ok', 204, b'', 'none')),
    (b'HTTP/1.1 304 Not Modified\r\nContent-Length: 10\r\n\r\n', 'GET', False, ('ok', 304, b'', 'none')),
    (b'HTTP/1.1 200 OK\r\nContent-Length: 10\r\n\r\n', 'HEAD', False, ('ok', 200, b'', 'none')),
    (b'HTTP/1.1 400 Bad Request\r\nConnection: close\r\nContent-Length: 3\r\n\r\nbad', 'GET', False, ('ok', 400, b'bad', 'length')),
    (b'HTTP/1.1 200 OK\r\nContent-Length: 5\r\n\r\nhel', 'GET', False, 'incomplete'),
    (b'HTTP/1.1 200 OK\r\nContent-Length: 5\r\n', 'GET', False, 'incomplete'),
    (b'HTTP/1.1 200 OK\r', 'GET', False, 'incomplete'),
    (b'HTTP/1.1 200 OK\r\nTransfer-Encoding: chunked\r\n\r\n5\r\nhello\r\n0\r\n', 'GET', False, 'incomplete'),
    (b'HTTP/1.1 200 OK\r\nTransfer-Encoding: chunked\r\n\r\n5\r\nhelloXX0\r\n\r\n', 'GET', False, 'malformed'),
    (b'HTTP/1.1 200 OK\r\nTransfer-Encoding: chunked\r\n\r\nzz\r\nhello\r\n0\r\n\r\n', 'GET', False, 'malformed'),
    (b'HTTP/1.1 200 OK\r\nContent-Length: 5\r\nContent-Length: 6\r\n\r\nhello!', 'GET', False, 'malformed'),
    (b'HTTP/1.1 200 OK\r\nContent-Length: -5\r\n\r\n', 'GET', False, 'malformed'),
    (b'HTTP/1.1 200 OK\r\nContent-Length: 5\r\nTransfer-Encoding: chunked\r\n\r\n0\r\n\r\n', 'GET', False, 'malformed'),
    (b'HTTP/1.1 200\r\nContent-Length: 0\r\n\r\n', 'GET', False, 'malformed'),
    (b'HTTP/1.1 2000 OK\r\nContent-Length: 0\r\n\r\n', 'GET', False, 'malformed'),
    (b'HTTP/2.0 200 OK\r\nContent-Length: 0\r\n\r\n', 'GET', False, 'malformed'),
    (b'HTTP/1.1 200 OK\nContent-Length: 0\n\n', 'GET', False, 'malformed'),
    (b'HTTP/1.1 200 OK\r\nBad Header: x\r\n\r\n', 'GET', False, 'malformed'),
    (b'HTTP/1.1 200 OK\r\nNoColon\r\n\r\n', 'GET', False, 'malformed'),
    (b'HTTP/1.1 200 OK\r\nX: a\r\n b\r\nContent-Length: 0\r\n\r\n', 'GET', False, 'malformed'),
    (b'HTTP/1.1 200 OK\r\nX: a\x00b\r\nContent-Length: 0\r\n\r\n', 'GET', False, 'malformed'),
    (b'garbage\r\n\r\n', 'GET', False, 'malformed'),
    (b'', 'GET', False, 'incomplete'),
]


def selftest():
    """Run the fixed table; returns (number of checks, list of problems).  'ok' rows are also given to
    http.client, which must recover the same status, headers and body."""
    problems = []
    n = 0
    for buf, method, closed, exp in SELFTEST_TABLE:
        n += 1
        try:
            r, end = parse_response(buf, 0, method, closed)
            got = ('ok', r.status, r.body, r.framing)
        except Incomplete:
            got = 'incomplete'
        except Malformed:
            got = 'malformed'
        if got != exp:
            problems.append('reference parser: %r gave %r, expected %r' % (buf[:60], got, exp))
            continue
        if got[0] == 'ok':
            n += 1
            d = crosscheck(buf, method, closed)
            if d:
                problems.append('http.client disagrees on %r: %s' % (buf[:60], d))
            # every proper prefix must be incomplete (never ok, never malformed) except for close-delimited bodies
            if r.framing != 'close':
                for cut in range(len(buf)):
                    try:
                        parse_response(buf[:cut], 0, method, closed)
                        problems.append('prefix %d of %r parsed as complete' % (cut, buf[:40]))
                    except Incomplete:
                        pass
                    except Malformed as e:
                        problems.append('prefix %d of %r called malformed: %s' % (cut, buf[:40], e))
                    n += 1
    # request side
    req = b'POST /a/b?x=1&y=2 HTTP/1.1\r\nHost: h\r\nX-Fold: a\r\n\tb\r\nTransfer-Encoding: chunked\r\n\r\n3;e=1\r\nabc\r\n0\r\nT: 1\r\n\r\n'
    kind = classify_request(req)
    n += 1
    if kind[0] != 'complete' or kind[1].body != b'abc' or kind[1].path != b'/a/b' or kind[1].query != b'x=1&y=2' \
            or kind[1].get(b'x-fold') != b'a b' or kind[2] != len(req):
        problems.append('request side: %r' % (kind,))
    for cut in range(len(req)):
        n += 1
        if classify_request(req[:cut])[0] != 'incomplete':
            problems.append('request prefix %d classified %r' % (cut, classify_request(req[:cut])))
    for bad in (b'GET / HTTP/1.1\r\n\r\n', b'GET  / HTTP/1.1\r\nHost: h\r\n\r\n', b'GET / HTTP/1.1\r\nHost: h\r\nContent-Length: x\r\n\r\n',
                b'GET / HTTP/1.1\r\nHost: h\r\nContent-Length: -1\r\n\r\n', b'GET / HTTP/x.1\r\nHost: h\r\n\r\n', b'G\x00T / HTTP/1.1\r\nHost: h\r\n\r\n',
                b'POST / HTTP/1.1\r\nHost: h\r\nTransfer-Encoding: chunked\r\n\r\nxyz\r\n', b'GET /#f HTTP/1.1\r\nHost: h\r\n\r\n'):
        n += 1
        if classify_request(bad)[0] != 'malformed':
            problems.append('request %r classified %r' % (bad, classify_request(bad)))
    return n, problems


if __name__ == '__main__':
    print(selftest())

"""Generated handler programs and their ghost log (DESIGN.md 2.1), shared by C02, C04-C06, C08.

A *program* is a JSON-able description of event handlers whose bodies are small action lists.  The
World builds real components from it (``type()``), runs them on the real dispatcher and writes every
harness-visible step into one append-only ghost log.  Values are unique per production, so a result
identifies the production it came from.

Handler spec: {'hid': int, 'name': str, 'prio': number, 'gen': bool, 'body': [action, ...]}
Actions (plain and generator handlers):
  ['fire', evspec]            fire a new event (ghost parent = the event being handled)
  ['stop']                    event.stop()
  ['flush']                   self.flush()   (nested flush)
  ['raise'] / ['raise','base'] raise Boom(Exception) / BoomBase(BaseException)
  ['ret', tag]                return a unique non-None value (ends the body)
  ['retfire', evspec]         return self.fire(event): the Value of a nested event (ends the body)
  ['refire_same', prio|None]  self.fire(<the event being handled>) again, optionally with a priority
  ['firechild', suffix]       self.fire(event.child(suffix)): an event named <name>_<suffix> derived from the one being handled
  ['retnone']                 return None
  ['retlit', v] / ['yieldlit', v]  return / yield the literal v (falsy but non-None values: 0, False, '', 0.0)
  ['stopmgr', code]           self.stop(code)          (C08)
  ['stopchild', code]         stop(code) of a registered (hence not running) child component   (C08)
  ['sysexit', code]           raise SystemExit(code)   (C08)
  ['kbint']                   raise KeyboardInterrupt  (C08)
  ['cancel', k]               cancel the k-th event this invocation fired (before it is dispatched)
  ['retgen', n]               (plain handlers) return a generator object that yields None n times: the function itself has run to its end
generator handlers only:
  ['yield', tag|None]         yield a unique value / None
  ['call', evspec, opts]      r = yield self.call(event, **opts)           logs what was received
  ['wait', evspec, opts]      self.fire(event); r = yield self.wait(event, **opts)
  ['waitname', evspec, opts]  self.fire(event); r = yield self.wait(event.name, **opts)
  ['sleep', t]                yield sleep(t)
  ['yieldsteps']              as many bare yields as the event's evspec 'steps' says
evspec: {'name': str, 'prio': number (default 0), 'flags': {'success','failure','complete','notify': bool},
         'cancel': bool (cancel right after firing), 'success_channels'/'complete_channels': [...],
         'channels': [...] (fire to these channels; handlers may carry 'channel'),
         'mk': None | 'attr' | 'renamed' (how the object gets its name: Event.create(name) / a class of another name with a name attribute /
               renamed after construction; the program may give a default for all its events as prog['mk']),
         'share': key (call/wait/waitname only: the first executor fires the event, later ones - while it has not been dispatched - only wait
                  for that same instance)}
"""


class Boom(Exception):
    def __init__(self, tag):
        super().__init__(tag)
        self.tag = tag


class BoomBase(BaseException):
    """An application exception that does not derive from Exception (like GeneratorExit or asyncio.CancelledError)."""

    def __init__(self, tag):
        super().__init__(tag)
        self.tag = tag


class World:
    def __init__(self, prog, root=None, extra_components=()):
        from circuits import BaseComponent, handler
        from circuits.core.events import Event
        from circuits.core.manager import TimeoutError as CTimeoutError, sleep
        self.Event, self.handler, self.sleep, self.CTimeoutError = Event, handler, sleep, CTimeoutError
        self.prog = prog
        self.log = []
        self.events = {}      # uid -> info
        self._named = {}      # event name -> class with a ``name`` attribute (evspec / program option mk='attr')
        self.shared = {}      # share key -> (event object, uid): events several handlers wait for (evspec 'share')
        self.objs = {}        # uid -> event object
        self.nuid = 0
        self.flush_depth = 0
        self.fire_depth = 0
        self.cur = []         # stack of (uid, hid) of running handler steps
        self.tick_no = 0
        self._ctx = any(hd.get('sig') for hd in prog['handlers'])   # some handler does not take the event: events carry their ghost identity
        world = self

        ns = {}
        for hd in prog['handlers']:
            f = self._mk(hd)
            ns['h%d' % hd['hid']] = handler(hd['name'], priority=hd.get('prio', 0), channel=hd.get('channel'))(f)
        self.App = type('App', (BaseComponent,), ns)

        unprobed = set(prog.get('unprobed') or ())
        if unprobed:
            # program option 'unprobed': events of these names have NO handler at all in the tree - not even the harness's catch-all probe,
            # which is replaced by one that listens by name to everything else the program can fire and to every feedback event
            names = {hd['name'] for hd in prog['handlers']} | set(prog.get('probe_names') or ()) | {'canary'}

            def walk(x):
                if isinstance(x, dict):
                    if isinstance(x.get('name'), str):
                        names.add(x['name'])
                elif isinstance(x, (list, tuple)):
                    for y in x:
                        walk(y)
            walk([hd['body'] for hd in prog['handlers']])
            fb = {n + '_' + k for n in names for k in ('success', 'failure', 'complete', 'done')}
            listen = sorted((names - unprobed) | fb | {'exception', 'started', 'stopped', 'registered', 'unregistered', 'prepare_unregister', 'signal'})

            class Probe(BaseComponent):
                @handler(*listen, priority=1000, channel='*')
                def _probe(self, event, *args, **kwargs):
                    world._probe(event, args, kwargs)
        else:
            class Probe(BaseComponent):
                @handler(priority=1000, channel='*')
                def _probe(self, event, *args, **kwargs):
                    world._probe(event, args, kwargs)

        self.app = (root or self.App)() if root is None else root
        if root is not None:
            self.App().register(self.app)
        self.probe = Probe().register(self.app)
        for c in extra_components:
            c.register(self.app)
        # feedback events are fired by the root on itself (self.fire in _eventDone): an instance-level wrapper
        # shows the moment they are *fired*; if the code stops using self.fire only the dispatch time remains
        orig_fire = self.app.fire

        def fire_probe(event, *channels, **kwargs):
            par = getattr(event, 'parent', None)
            puid = getattr(par, '_vuid', None)
            if puid is not None and getattr(event, '_vuid', None) is None:
                world.L('FBF', event.name[len(par.name) + 1:], puid)
            return orig_fire(event, *channels, **kwargs)
        self.app.fire = fire_probe
        # flush the 'registered' events of the set-up
        while len(self.app):
            self.app.flush()

    # -- log ---------------------------------------------------------------------------------------
    def L(self, *entry):
        self.log.append(entry)
        return len(self.log) - 1

    def _probe(self, event, args, kwargs):
        nx = getattr(event, '_vnext', None)
        if getattr(event, '_vuid', None) is not None:
            # the same event OBJECT was fired again by one of its own handlers.  A '*' handler is invoked once per channel of a dispatch:
            # after as many probe calls as the firing had channels, the next call belongs to the dispatch of the later firing
            cur = getattr(event, '_vuid', None)
            n = max(1, len(self.events[cur]['spec'].get('channels', ()))) if cur in self.events else 1
            seen = event.__dict__.get('_vseen', 0)
            if seen >= n and nx:
                event._vuid = nx.pop(0)
                seen = 0
            event.__dict__['_vseen'] = seen + 1
        uid = getattr(event, '_vuid', None)
        if uid is not None and not self.events[uid].get('system'):
            if self.log and self.log[-1] == ('D', uid):
                return  # an event fired to several channels reaches a '*' handler once per channel: same dispatch
            self.events[uid]['dispatched'] += 1
            self.L('D', uid)
            return
        name = event.name
        par = getattr(event, 'parent', None)
        puid = getattr(par, '_vuid', None)
        if puid is not None:
            kind = name[len(par.name) + 1:]
            if kind == 'done':
                return  # internal
            extra = None
            if kind == 'failure' and len(args) > 1 and isinstance(args[1], tuple):
                extra = getattr(args[1][1], 'tag', repr(args[1][1]))
            self.L('FB', kind, puid, extra)
            return
        if name == 'exception':
            fe = kwargs.get('fevent')
            fuid = getattr(fe, '_vuid', None)
            val = args[1] if len(args) > 1 else None
            self.L('EXC', fuid, getattr(val, 'tag', repr(val)), getattr(kwargs.get('handler'), '__name__', None))
            return
        if name in ('started', 'stopped', 'signal'):
            self.L('SYS', name)

    # -- events ----------------------------------------------------------------------------------------
    def mk_event(self, spec, parent=None, by=None):
        # how the event object comes by its name: a class of that name (Event.create), a class of ANOTHER name with a ``name`` attribute,
        # or an instance renamed after construction (what circuits.web.errors.httperror does)
        mk = spec.get('mk', self.prog.get('mk'))
        if mk == 'attr':
            cls = self._named.get(spec['name'])
            if cls is None:
                cls = self._named[spec['name']] = type('Ev%s' % ''.join(ch for ch in spec['name'].title() if ch.isalnum()), (self.Event,), {'name': spec['name']})
            e = cls()
        elif mk == 'renamed':
            e = self.Event.create('orig_' + spec['name'])
            e.name = spec['name']
        else:
            e = self.Event.create(spec['name'])
        self.nuid += 1
        uid = self.nuid
        e._vuid = uid
        if self._ctx:
            e.kwargs['vctx'] = uid
        for k, v in (spec.get('flags') or {}).items():
            if v:
                setattr(e, k, v)
        if spec.get('success_channels'):
            e.success_channels = tuple(spec['success_channels'])
        if spec.get('complete_channels'):
            e.complete_channels = tuple(spec['complete_channels'])
        self.events[uid] = {'name': spec['name'], 'prio': spec.get('prio', 0), 'parent': parent, 'by': by,
                            'flags': dict(spec.get('flags') or {}), 'dispatched': 0, 'cancelled': False,
                            'flush_depth_at_fire': self.flush_depth, 'spec': spec}
        self.objs[uid] = e
        return e, uid

    def fire(self, spec, parent=None, by=None, target=None):
        e, uid = self.mk_event(spec, parent, by)
        self.events[uid]['fired_at'] = self.L('F', uid, parent, by, spec.get('prio', 0))
        self.fire_depth += 1
        try:
            kw = {}
            if spec.get('prio', 0) != 0 or spec.get('explicit_prio'):
                kw['priority'] = spec.get('prio', 0)
            v = (target or self.app).fire(e, *spec.get('channels', ()), **kw)
        except BaseException as ex:
            self.L('APIERR', 'fire', repr(ex), parent, by)
            raise
        finally:
            self.fire_depth -= 1
        self.L('FR', uid)
        self.events[uid]['value'] = v
        if spec.get('cancel'):
            e.cancel()
            self.events[uid]['cancelled'] = True
            self.L('CANCEL', uid)
        return e, uid

    def refire(self, uid):
        """Fire the SAME event object once more (what Timer(persist=True) does on every expiry) under a fresh ghost identity.
        Only meaningful once the earlier firing has been fully handled; the Value of that firing is kept in final_value."""
        e = self.objs[uid]
        old = self.events[uid]
        if not hasattr(self, 'final_value'):
            self.final_value = {}
        self.final_value[uid] = e.value
        self.nuid += 1
        nu = self.nuid
        e._vuid = nu
        spec = old['spec']
        self.events[nu] = dict(old, dispatched=0, cancelled=False, parent=None, by=None, refire_of=uid, flush_depth_at_fire=self.flush_depth)
        self.objs[nu] = e
        self.events[nu]['fired_at'] = self.L('F', nu, None, None, spec.get('prio', 0))
        v = self.app.fire(e, *spec.get('channels', ()))
        self.L('FR', nu)
        self.events[nu]['value'] = v
        return e, nu

    # -- handler bodies --------------------------------------------------------------------------------
    def _mk(self, hd):
        world = self
        if hd.get('sig') in ('noevent', 'other_name'):
            # a handler whose signature does not ask for the event object (so the dispatcher does not hand it over): it reaches the event
            # another way - here through the ghost identity every event of such a program carries among its keyword arguments
            def body(comp, kwargs):
                event = world.objs.get(kwargs.get('vctx'))
                if event is None:
                    return None
                return world._run_gen(hd, event, comp) if hd.get('gen') else world._run_plain(hd, event, comp)
            if hd['sig'] == 'noevent':
                def h(self, *args, **kwargs):
                    return body(self, kwargs)
            else:
                def h(self, evt=None, *args, **kwargs):
                    return body(self, kwargs)
        elif hd.get('gen'):
            def h(self, event, *args, **kwargs):
                return world._run_gen(hd, event, self)
        else:
            def h(self, event, *args, **kwargs):
                return world._run_plain(hd, event, self)
        h.__name__ = 'h%d' % hd['hid']
        return h

    def _common(self, act, hd, event, comp, uid, fired):
        """Actions shared by plain and generator handlers.  Returns ('ret', value) to end the body."""
        k = act[0]
        hid = hd['hid']
        if k == 'fire':
            if self.nuid >= self.prog.get('max_events', 600):
                return None  # bounded programs
            e, cu = self.fire(act[1], parent=uid, by=hid, target=comp)
            fired.append(cu)
        elif k == 'stop':
            event.stop()
            self.L('STOP', uid, hid)
        elif k == 'flush':
            if self.flush_depth >= self.prog.get('max_flush_depth', 3):
                return None  # bounded nesting: the interpreter stack is finite
            self.L('FLC', self.flush_depth)
            self.flush_depth += 1
            try:
                comp.flush()
            except BaseException as e:  # the dispatcher machinery itself raised (handler errors never escape flush)
                self.L('APIERR', 'flush', repr(e), uid, hid)
                raise
            finally:
                self.flush_depth -= 1
            self.L('FLR', self.flush_depth)
        elif k == 'raise':
            tag = 'x%d.%d.%d' % (uid, hid, len(self.log))
            self.L('PX', uid, hid, tag)
            if len(act) > 1 and act[1] == 'base':
                raise BoomBase(tag)
            raise Boom(tag)
        elif k == 'raise_first_level':
            # (handlers of `exception` events) fail when told about the failure of an ordinary event, not when told about the failure of
            # another error handler - so that the chain of error events ends
            fe = event.kwargs.get('fevent') if hasattr(event, 'kwargs') else None
            if getattr(fe, 'name', None) != 'exception':
                tag = 'x%d.%d.%d' % (uid, hid, len(self.log))
                self.L('PX', uid, hid, tag)
                raise Boom(tag)
        elif k == 'ret':
            tag = 'v%d.%d.%s' % (uid, hid, act[1])
            self.L('P', uid, hid, tag)
            return ('ret', tag)
        elif k == 'retgen':
            # an ordinary function that delegates the rest of its work to a coroutine helper: ``...; return self._steps()``
            self.L('RG', uid, hid, act[1])
            return ('ret', self._tail_steps(uid, hid, act[1]))
        elif k == 'refire_same':
            # hand the event being handled on: fire the SAME object again (a forwarding pattern).  Its later dispatch gets a ghost identity
            # of its own, taken up by the probe when that dispatch begins; handlers of the current dispatch keep logging under the old one
            if self.nuid >= self.prog.get('max_events', 600):
                return None
            self.nuid += 1
            nu = self.nuid
            old = self.events[uid]
            prio = act[1] if len(act) > 1 and act[1] is not None else 0
            self.events[nu] = dict(old, prio=prio, parent=uid, by=hid, dispatched=0, cancelled=False, refire_of=uid, flush_depth_at_fire=self.flush_depth)
            self.objs[nu] = event
            event.__dict__.setdefault('_vnext', []).append(nu)
            self.events[nu]['fired_at'] = self.L('F', nu, uid, hid, prio)
            kw = {'priority': prio} if prio != 0 else {}
            comp.fire(event, *old['spec'].get('channels', ()), **kw)
            self.L('FR', nu)
            fired.append(nu)
        elif k == 'firechild':
            # self.fire(event.child('<suffix>')): an event derived from the one being handled (as circuits.web does with its request events)
            if self.nuid >= self.prog.get('max_events', 600):
                return None
            e = event.child(act[1])
            self.nuid += 1
            cu = self.nuid
            e._vuid = cu
            self.events[cu] = {'name': e.name, 'prio': 0, 'parent': uid, 'by': hid, 'flags': {}, 'dispatched': 0, 'cancelled': False,
                               'flush_depth_at_fire': self.flush_depth, 'spec': {'name': e.name}, 'derived': True}
            self.objs[cu] = e
            self.events[cu]['fired_at'] = self.L('F', cu, uid, hid, 0)
            comp.fire(e)
            self.L('FR', cu)
            fired.append(cu)
        elif k == 'retfire':
            # the nested-value idiom: return the Value of an event fired by this handler (tests/core/test_value.py)
            if self.nuid >= self.prog.get('max_events', 600):
                return ('ret', None)
            e, cu = self.fire(act[1], parent=uid, by=hid, target=comp)
            fired.append(cu)
            self.L('PV', uid, hid, cu)
            return ('retlit', e.value)
        elif k == 'retnone':
            return ('ret', None)
        elif k == 'retlit':
            # a literal, possibly falsy (0, False, '', 0.0) but non-None result
            self.L('P', uid, hid, act[1])
            return ('retlit', act[1])
        elif k == 'stopmgr':
            self.L('STOPCALL', uid, hid, act[1])
            comp.stop(act[1]) if act[1] is not None else comp.stop()
        elif k == 'stopchild':
            # stop() of a registered component: that manager is not running (only the root of a run() is), whatever its root does
            child = self.probe
            before = (bool(self.app.running), len(self.app), bool(child.running))
            raised = None
            try:
                child.stop(act[1]) if act[1] is not None else child.stop()
            except BaseException as e:  # noqa: BLE001
                raised = repr(e)
            self.L('CHILDSTOP', uid, hid, act[1], list(before), [bool(self.app.running), len(self.app), bool(child.running)], raised)
        elif k == 'sysexit':
            self.L('SYSEXIT', uid, hid, act[1])
            raise SystemExit(act[1])
        elif k == 'kbint':
            self.L('KBINT', uid, hid)
            raise KeyboardInterrupt()
        elif k == 'cancel':
            if act[1] < len(fired):
                cu = fired[act[1]]
                if not self.events[cu]['dispatched']:
                    self.objs[cu].cancel()
                    self.events[cu]['cancelled'] = True
                    self.L('CANCEL', cu)
        else:
            return ('unknown', None)
        return None

    def _sys_uid(self, event):
        """started/stopped events handled by program handlers get a ghost uid on first sight."""
        parent = None
        if event.name == 'exception' and getattr(event, 'parent', None) is None:
            pass      # an `exception` event the program declares handlers for: an event like any other (its handlers may fail, too)
        elif event.name not in ('started', 'stopped'):
            # feedback events (<name>_failure, <name>_success, ...) that the program declares handlers for: children of the event they
            # are about - what their handlers fire belongs to that event's consequences
            par = getattr(event, 'parent', None)
            puid = getattr(par, '_vuid', None)
            if puid is None or not event.name.startswith(par.name + '_'):
                return None
            # <name>_failure is fired while the failing handler's event is being handled (its handlers' events are consequences of that
            # event: circuits.web answers errors that way); <name>_success / _complete / _done are notifications ABOUT a finished event
            parent = puid if event.name == par.name + '_failure' else None
        self.nuid += 1
        event._vuid = self.nuid
        self.events[self.nuid] = {'name': event.name, 'prio': 0, 'parent': parent, 'by': None, 'flags': {}, 'dispatched': 1,
                                  'cancelled': False, 'flush_depth_at_fire': 0, 'spec': {'name': event.name}, 'system': True}
        self.objs[self.nuid] = event
        return self.nuid

    def _run_plain(self, hd, event, comp):
        uid = getattr(event, '_vuid', None)
        if uid is None:
            uid = self._sys_uid(event)
        if uid is None:
            return None
        hid = hd['hid']
        self.L('HS', uid, hid, hd.get('prio', 0), self.fire_depth, self.flush_depth)
        self.cur.append((uid, hid))
        fired = []
        try:
            for act in hd['body']:
                r = self._common(act, hd, event, comp, uid, fired)
                if r is not None:
                    if r[0] == 'unknown':
                        raise ValueError('action %r not valid in a plain handler' % (act,))
                    self.L('HE', uid, hid, 'ret')
                    return r[1]
            self.L('HE', uid, hid, 'ret')
            return None
        except BaseException:
            self.L('HE', uid, hid, 'raise')
            raise
        finally:
            self.cur.pop()

    def _tail_steps(self, uid, hid, n):
        for i in range(n):
            self.L('TS', uid, hid, i)
            yield None

    def _run_gen(self, hd, event, comp):
        uid = getattr(event, '_vuid', None)
        if uid is None:
            uid = self._sys_uid(event)
        if uid is None:
            return
        hid = hd['hid']
        self.L('HS', uid, hid, hd.get('prio', 0), self.fire_depth, self.flush_depth)
        step = 0
        fired = []
        try:
            for act in hd['body']:
                k = act[0]
                if k == 'yield':
                    tag = None
                    if act[1] is not None:
                        tag = 'y%d.%d.%s.%d' % (uid, hid, act[1], step)
                        self.L('P', uid, hid, tag)
                    self.L('GY', uid, hid, step)
                    yield tag
                    step += 1
                    self.L('GR', uid, hid, step)
                elif k == 'yieldlit':
                    self.L('P', uid, hid, act[1])
                    self.L('GY', uid, hid, step)
                    yield act[1]
                    step += 1
                    self.L('GR', uid, hid, step)
                elif k in ('call', 'wait', 'waitname'):
                    opts = dict(act[2]) if len(act) > 2 and act[2] else {}
                    share = act[1].get('share')
                    held = self.shared.get(share) if share is not None else None
                    if held is not None and self.events[held[1]]['dispatched'] == 0 and not self.events[held[1]]['cancelled']:
                        # somebody else already fired this very event and it has not been dispatched yet: wait for the same instance
                        e, cu = held
                        k = 'wait' if k == 'call' else k
                        g = comp.wait(e if k == 'wait' else e.name, **opts)
                        self.events[cu]['waiters'] = self.events[cu].get('waiters', 1) + 1
                    elif k == 'call':
                        e, cu = self.mk_event(act[1], parent=uid, by=hid)
                        self.events[cu]['fired_at'] = self.L('F', cu, uid, hid, act[1].get('prio', 0))
                        self.events[cu]['via'] = 'call'
                        g = comp.call(e, *act[1].get('channels', ()), **opts)
                        self.events[cu]['value'] = e.value
                        self.L('FR', cu)
                    else:
                        e, cu = self.fire(act[1], parent=uid, by=hid, target=comp)
                        self.events[cu]['via'] = k
                        g = comp.wait(e if k == 'wait' else e.name, **opts)
                    if held is None or held[1] != cu:
                        fired.append(cu)
                        if share is not None:
                            self.shared[share] = (e, cu)
                    self.L('SUSP', uid, hid, step, cu, k, opts.get('timeout'), self.tick_no)
                    try:
                        r = yield g
                    except self.CTimeoutError:
                        step += 1
                        self.L('RX', uid, hid, step, cu, 'TIMEOUT', None, None, self.tick_no)
                        continue
                    step += 1
                    val = getattr(r, 'value', r)
                    self.L('RX', uid, hid, step, cu, 'VALUE', _norm(val), getattr(r, 'errors', None), self.tick_no)
                elif k == 'sleep':
                    self.L('GY', uid, hid, step)
                    yield self.sleep(act[1])
                    step += 1
                    self.L('GR', uid, hid, step)
                elif k == 'yieldsteps':
                    # as many bare yields as the EVENT asks for (evspec 'steps'): events of one name that keep their handler busy for
                    # different lengths of time
                    for _ in range(int(self.events[uid]['spec'].get('steps', 0))):
                        self.L('GY', uid, hid, step)
                        yield None
                        step += 1
                        self.L('GR', uid, hid, step)
                else:
                    r = self._common(act, hd, event, comp, uid, fired)
                    if r is not None:
                        if r[0] == 'unknown':
                            raise ValueError('unknown action %r' % (act,))
                        if r[1] is not None or r[0] == 'retlit':
                            # a generator's non-None result is its last yield
                            self.L('GY', uid, hid, step)
                            yield r[1]
                            step += 1
                        self.L('HE', uid, hid, 'ret')
                        return
            self.L('HE', uid, hid, 'ret')
        except GeneratorExit:
            self.L('HE', uid, hid, 'closed')
            raise
        except BaseException:
            self.L('HE', uid, hid, 'raise')
            raise

    # -- driving ---------------------------------------------------------------------------------------
    def flush(self):
        self.L('FLC', self.flush_depth)
        self.flush_depth += 1
        try:
            self.app.flush()
        finally:
            self.flush_depth -= 1
        self.L('FLR', self.flush_depth)

    def tick(self, budget=None):
        self.tick_no += 1
        self.L('TICK', self.tick_no)
        if budget is None:
            self.app.tick()
        else:
            self.app.tick(budget)

    def run(self, max_iters=3000, on_iter=None, drain=True):
        """Execute the program under the real ``run()`` in the checking thread.  A harness component
        keeps the idle handler from blocking (reduce_time_left(0)), counts loop iterations, and
        calls stop() once the system has been quiescent (no queued events, no tasks) for two
        consecutive iterations.  Returns True if it ended quiescent, False if max_iters were used."""
        from circuits import BaseComponent, handler
        world = self
        st = {'idle': 0, 'iters': 0, 'settled': False, 'forced': False}

        class Stopper(BaseComponent):
            @handler('generate_events', priority=-50)
            def _on_ge(self, event):
                event.reduce_time_left(0)
                st['iters'] += 1
                world.tick_no += 1
                world.L('TICK', world.tick_no)
                if on_iter is not None:
                    on_iter(world, st['iters'])
                if world.stop_requested:
                    return
                if world.quiescent():
                    st['idle'] += 1
                    if st['idle'] >= 2:
                        st['settled'] = True
                        world.stop_requested = True
                        world.app.stop()
                else:
                    st['idle'] = 0
                    if st['iters'] >= max_iters:
                        st['forced'] = True
                        world.stop_requested = True
                        world.app.stop()

        self.stop_requested = False
        stopper = Stopper().register(self.app)
        self.L('RUN')
        try:
            self.run_result = self.app.run()
            self.run_raised = None
        except BaseException as e:  # SystemExit with a code, or a loop crash
            self.run_raised = e
        self.L('RUNRET')
        stopper.unregister()
        while drain and len(self.app):      # (drain=False: whatever run() left in the queue stays there for the caller to look at)
            self.app.flush()
        return st['settled'] and not st['forced']

    def quiescent(self):
        return len(self.app) == 0 and not self.app._tasks

    def settle(self, max_ticks=300, budget=None):
        """tick until quiescent.  Returns True when quiescent, False if max_ticks were used up."""
        for _ in range(max_ticks):
            if self.quiescent():
                return True
            self.tick(budget)
        return self.quiescent()


def _norm(v):
    """JSON-able form of a handler result (error triples -> the Boom tag)."""
    if isinstance(v, tuple) and len(v) == 3 and isinstance(v[1], BaseException):
        return ['ERR', getattr(v[1], 'tag', repr(v[1]))]
    if isinstance(v, list):
        return [_norm(x) for x in v]
    if hasattr(v, 'value') and hasattr(v, 'errors') and hasattr(v, 'result'):
        return ['VALUE', _norm(v.value)]
    if isinstance(v, (str, int, float, bool)) or v is None:
        return v
    return repr(v)


norm = _norm

"""Independent references for C16 (DESIGN.md 2.7): an RFC 7233 byte-range evaluator, a
multipart/byteranges splitter and a request-path normaliser.

Nothing here imports circuits or urllib.parse; the functions are oracles the observable behaviour
of circuits.web (Static / serve_file / get_ranges / HTTP guard) is compared with.

RFC 7233 (2.1, 3.1, 4.4) as transcribed:

    byte-ranges-specifier = "bytes" "=" byte-range-set
    byte-range-set        = 1#( byte-range-spec / suffix-byte-range-spec )      ; #rule: OWS around
                                                                                ; commas, empty
                                                                                ; elements ignored
    byte-range-spec       = first-byte-pos "-" [ last-byte-pos ]                ; 1*DIGIT each
    suffix-byte-range-spec = "-" suffix-length                                  ; 1*DIGIT

  * a byte-range-spec whose last-byte-pos is present and less than first-byte-pos is invalid; a
    header that is not a valid byte-ranges-specifier is ignored (full representation, 200) - 4.4
    also lets the server answer 416 when it rejects a set "due to invalid ranges";
  * last-byte-pos >= length (or absent) means "up to the last byte"; a suffix longer than the
    representation means the entire representation;
  * the set is satisfiable iff some first-byte-pos < length or some suffix-length is non-zero (and
    there is at least one byte to send); an unsatisfiable set is answered 416 with
    ``Content-Range: bytes */length``;
  * a satisfiable single range is answered 206 with ``Content-Range: bytes first-last/length`` and
    exactly those bytes; several ranges with multipart/byteranges, one part per range, each with its
    own Content-Range (a server MAY coalesce overlapping ranges, and MAY reject or ignore sets of
    many/overlapping ranges).
"""
import re

_POS = re.compile(r'^[0-9]+$')
_OWS = ' \t'


def parse_spec(text):
    """One list element -> ('range', first, last|None) | ('suffix', n) | None (syntactically invalid)."""
    if '-' not in text:
        return None
    first, _, last = text.partition('-')
    if first == '':
        if _POS.match(last):
            return ('suffix', int(last))
        return None
    if not _POS.match(first):
        return None
    if last == '':
        return ('range', int(first), None)
    if not _POS.match(last):
        return None
    if int(last) < int(first):
        return None
    return ('range', int(first), int(last))


def _is_reversed(text):
    m = re.match(r'^([0-9]+)-([0-9]+)$', text)
    return bool(m) and int(m.group(2)) < int(m.group(1))


def evaluate(header, size):
    """What RFC 7233 prescribes for ``Range: <header>`` against a representation of ``size`` bytes.

    Returns a dict with
      kind    'none'   no header                                   -> 200, full representation
              'ignore' not a valid byte-ranges-specifier           -> 200 full (416 tolerated)
              'unsat'  valid, no byte can be sent                  -> 416
              'ranges' valid and satisfiable                       -> 206
      ranges  for 'ranges': inclusive (first, last) pairs, clamped to the representation, in request
              order, unsatisfiable members dropped, duplicates kept
      nspecs  number of non-empty list elements
      lenient True when the header is only valid thanks to the #rule's tolerance for empty list
              elements (a recipient may equally well treat it as invalid)
    """
    if header is None:
        return {'kind': 'none', 'ranges': [], 'nspecs': 0, 'lenient': False}
    unit, eq, rest = header.partition('=')
    if not eq or unit.strip(_OWS).lower() != 'bytes':
        return {'kind': 'ignore', 'ranges': [], 'nspecs': 0, 'lenient': False}
    elements = [e.strip(_OWS) for e in rest.split(',')]
    specs = [e for e in elements if e != '']
    lenient = len(specs) != len(elements)
    if not specs:
        return {'kind': 'ignore', 'ranges': [], 'nspecs': 0, 'lenient': False}
    parsed = [parse_spec(s) for s in specs]
    if any(p is None for p in parsed):
        res = {'kind': 'ignore', 'ranges': [], 'nspecs': len(specs), 'lenient': False}
        rest_specs = [s for s, p in zip(specs, parsed) if p is not None or not _is_reversed(s)]
        if len(rest_specs) != len(specs) and all(parse_spec(s) is not None for s in rest_specs):
            # invalid only because of reversed specs (numeric, last < first): a recipient that merely drops
            # them as selecting nothing is tolerated as an alternative reading
            res['alt'] = evaluate('bytes=' + ','.join(rest_specs), size) if rest_specs else \
                {'kind': 'unsat', 'ranges': [], 'nspecs': 0, 'lenient': False}
            res['alt']['nspecs'] = len(specs)
        return res
    out = []
    for p in parsed:
        if p[0] == 'suffix':
            n = p[1]
            if n == 0 or size == 0:
                continue
            out.append((max(size - n, 0), size - 1))
        else:
            first, last = p[1], p[2]
            if first >= size:
                continue
            out.append((first, size - 1 if last is None or last >= size else last))
    if not out:
        return {'kind': 'unsat', 'ranges': [], 'nspecs': len(specs), 'lenient': lenient}
    return {'kind': 'ranges', 'ranges': out, 'nspecs': len(specs), 'lenient': lenient}


def covered(ranges):
    """Set of byte offsets selected by inclusive (first, last) pairs."""
    s = set()
    for a, b in ranges:
        s.update(range(a, b + 1))
    return s


_CR = re.compile(r'^bytes ([0-9]+)-([0-9]+)/([0-9]+)$')
_CR_UNSAT = re.compile(r'^bytes \*/([0-9]+)$')


def parse_content_range(value):
    """'bytes a-b/len' -> (a, b, len); 'bytes */len' -> ('*', len); anything else -> None."""
    if value is None:
        return None
    m = _CR.match(value.strip())
    if m:
        return (int(m.group(1)), int(m.group(2)), int(m.group(3)))
    m = _CR_UNSAT.match(value.strip())
    if m:
        return ('*', int(m.group(1)))
    return None


def split_multipart(body, boundary):
    """Split a multipart/byteranges body -> list of (headers dict lower-case, payload bytes), or None
    when the framing is broken (no closing delimiter, part without header block)."""
    delim = b'--' + boundary
    # the first delimiter may or may not be preceded by CRLF (preamble is empty or CRLF)
    chunks = (b'\r\n' + body if body.startswith(delim) else body).split(b'\r\n' + delim)
    if len(chunks) < 2:
        return None
    parts = []
    closed = False
    for c in chunks[1:]:
        if c.startswith(b'--'):
            closed = True
            break
        if not c.startswith(b'\r\n'):
            return None
        head, sep, payload = c[2:].partition(b'\r\n\r\n')
        if not sep:
            return None
        headers = {}
        for line in head.split(b'\r\n'):
            k, _, v = line.partition(b':')
            headers[k.strip().lower().decode('latin-1')] = v.strip().decode('latin-1')
        parts.append((headers, payload))
    if not closed:
        return None
    return parts


def judge_range_response(header, content, status, headers, body, http11=True):
    """Compare one response with what RFC 7233 prescribes.  ``headers``: lower-case name -> value.
    Returns a list of problem strings (empty = as prescribed)."""
    size = len(content)
    ev = evaluate(header, size)
    readings = [ev]
    if ev.get('alt') is not None:
        readings.append(ev['alt'])
    if ev['lenient']:
        readings.append({'kind': 'ignore', 'ranges': [], 'nspecs': ev['nspecs'], 'lenient': False})
    first = None
    for r in readings:
        probs = _judge_reading(r, header, content, status, headers, body, http11)
        if not probs:
            return []
        if first is None:
            first = probs
    return first


def _judge_reading(ev, header, content, status, headers, body, http11):
    size = len(content)
    probs = []

    def full_ok():
        return status == 200 and body == content

    def unsat_ok():
        if status != 416:
            return False
        cr = headers.get('content-range')
        if cr is not None and parse_content_range(cr) != ('*', size):
            probs.append('416 with Content-Range %r, expected "bytes */%d"' % (cr, size))
        return True

    def single_ok(expected_sets):
        """206 non-multipart whose Content-Range and body select one of ``expected_sets``."""
        cr = parse_content_range(headers.get('content-range'))
        if cr is None or cr[0] == '*':
            probs.append('206 with Content-Range %r' % (headers.get('content-range'),))
            return False
        a, b, ln = cr
        if ln != size or not (0 <= a <= b < size):
            probs.append('206 Content-Range %r does not lie inside a %d-byte file' % (headers.get('content-range'), size))
            return False
        if body != content[a:b + 1]:
            probs.append('206 body (%d bytes) is not bytes %d-%d of the file' % (len(body), a, b))
            return False
        if (a, b) not in expected_sets:
            probs.append('206 returns bytes %d-%d, requested %r' % (a, b, sorted(expected_sets)))
            return False
        return True

    def multi_ok(expected):
        ct = headers.get('content-type', '')
        m = re.search(r'boundary="?([^";]+)"?', ct)
        if not m:
            probs.append('multipart 206 without boundary: %r' % ct)
            return False
        parts = split_multipart(body, m.group(1).encode('latin-1'))
        if not parts:
            probs.append('multipart/byteranges body cannot be split')
            return False
        got = []
        for ph, payload in parts:
            cr = parse_content_range(ph.get('content-range'))
            if cr is None or cr[0] == '*':
                probs.append('part with Content-Range %r' % (ph.get('content-range'),))
                return False
            a, b, ln = cr
            if ln != size or not (0 <= a <= b < size):
                probs.append('part Content-Range %r does not lie inside a %d-byte file' % (ph.get('content-range'), size))
                return False
            if payload != content[a:b + 1]:
                probs.append('part payload (%d bytes) is not bytes %d-%d of the file' % (len(payload), a, b))
                return False
            got.append((a, b))
        if covered(got) != covered(expected):
            probs.append('parts %r do not select the requested bytes %r' % (got, expected))
            return False
        return True

    if ev['kind'] == 'none' or not http11:
        if not full_ok() and not (not http11 and ev['kind'] != 'none' and status in (206, 416)):
            probs.append('expected 200 with the full file, got %s with %d bytes' % (status, len(body)))
        return probs

    if size == 0:
        # nothing can be selected from an empty representation: 200 (empty) or 416
        if not (full_ok() or unsat_ok()):
            probs.append('empty file: expected 200 (empty) or 416, got %s with %d bytes' % (status, len(body)))
        return probs

    if ev['kind'] == 'ignore':
        if not (full_ok() or unsat_ok()):
            probs.append('malformed Range %r: expected 200 with the full file (or 416), got %s with %d bytes' % (header, status, len(body)))
        return probs
    if ev['kind'] == 'unsat':
        if not unsat_ok():
            probs.append('unsatisfiable Range %r: expected 416, got %s with %d bytes' % (header, status, len(body)))
        return probs

    # valid and satisfiable
    expected = ev['ranges']
    distinct = sorted(set(expected))
    if ev['nspecs'] == 1:
        if status != 206:
            probs.append('satisfiable Range %r: expected 206, got %s' % (header, status))
            return probs
        single_ok({expected[0]})
        return probs
    # several specs: 206 (multipart, or single when they denote one contiguous range), or the server
    # rejects (416) / ignores (200 full) the set, which 3.1 and 4.4 leave to its policy
    if full_ok() or unsat_ok():
        return probs
    if status != 206:
        probs.append('multi-range %r: expected 206 / 416 / 200-full, got %s with %d bytes' % (header, status, len(body)))
        return probs
    if headers.get('content-type', '').lower().startswith('multipart/byteranges'):
        multi_ok(expected)
        return probs
    cov = covered(expected)
    singles = set(distinct) if len(distinct) == 1 else set()
    if cov == set(range(min(cov), max(cov) + 1)):
        singles.add((min(cov), max(cov)))
    single_ok(singles)
    return probs


# ---------------------------------------------------------------------------------------------
# request paths
# ---------------------------------------------------------------------------------------------
_HEX = '0123456789abcdefABCDEF'


def pct_decode_once(s):
    """Percent-decode exactly once (RFC 3986 2.1); malformed escapes are left as they are."""
    out = bytearray()
    raw = s.encode('utf-8', 'surrogateescape')
    i = 0
    while i < len(raw):
        c = raw[i]
        if c == 0x25 and len(raw) - i >= 3 and chr(raw[i + 1]) in _HEX and chr(raw[i + 2]) in _HEX:
            out.append(int(raw[i + 1:i + 3].decode('ascii'), 16))
            i += 3
        else:
            out.append(c)
            i += 1
    return out.decode('utf-8', 'replace')


def under_mount(path, mount):
    """The part of ``path`` below the mount point (segment boundary respected), or None."""
    if mount is None:
        return path
    m = mount.rstrip('/')
    if path == m or path == mount:
        return ''
    if path.startswith(m + '/'):
        return path[len(m):]
    return None


def _resolve_clamped(decoded):
    stack = []
    for seg in decoded.split('/'):
        if seg in ('', '.'):
            continue
        if seg == '..':
            if stack:
                stack.pop()
            continue
        stack.append(seg)
    return tuple(stack)


def _resolve_fs(decoded, root_parts):
    """Lexical file-system resolution of root/<decoded>; relative tuple when it ends inside root."""
    stack = list(root_parts)
    for seg in decoded.split('/'):
        if seg in ('', '.'):
            continue
        if seg == '..':
            if stack:
                stack.pop()
            continue
        stack.append(seg)
    if len(stack) >= len(root_parts) and tuple(stack[:len(root_parts)]) == tuple(root_parts):
        return tuple(stack[len(root_parts):])
    return None


def denotations(raw_path, mount, root_abs, network_path=False):
    """Every file-system object INSIDE the root that ``raw_path`` may legitimately denote, as tuples
    of segments relative to the root.

    ``network_path``: the front end parses request-targets, so "//authority/path" may lose its authority.
    The path is percent-decoded exactly once; '.' and empty segments vanish; '..' removes the
    preceding segment.  Two readings of '..' at the top are accepted as legitimate (both stay inside
    the root): RFC 3986 5.2.4 (it is dropped) and the file-system one (the path climbs out of the
    root and counts only if it climbs back in through the root's own name).  A path that is not
    below the mount point, or that ends outside the root, denotes nothing.
    """
    root_parts = tuple(p for p in root_abs.split('/') if p)
    out = set()
    variants = []
    raws = [raw_path]
    if network_path and raw_path.startswith('//'):
        # a request-target "//x/y" may also be read as a network-path reference (RFC 3986 4.2): authority
        # "x", path "/y" - still a path below the same root
        raws.append('/' + raw_path[2:].partition('/')[2])
    for raw in raws:
        rest = under_mount(raw, mount)
        if rest is not None:
            variants.append(pct_decode_once(rest))
        rest2 = under_mount(pct_decode_once(raw), mount)
        if rest2 is not None:
            variants.append(rest2)
    for decoded in variants:
        if '\x00' in decoded:
            continue
        out.add(_resolve_clamped(decoded))
        t = _resolve_fs(decoded, root_parts)
        if t is not None:
            out.add(t)
    return out


def escapes_root(raw_path, mount, root_abs):
    """True when the once-decoded path, resolved like a file system would, ends outside the root."""
    root_parts = tuple(p for p in root_abs.split('/') if p)
    rest = under_mount(raw_path, mount)
    if rest is None:
        rest = raw_path[len(mount):] if mount and raw_path.startswith(mount) else raw_path
    return _resolve_fs(pct_decode_once(rest), root_parts) is None


def resolved_location(raw_path, mount, root_abs):
    """Absolute path the once-decoded request path resolves to when joined to the root like a file system
    would do it (lexically; the mount prefix is cut as a plain string when no segment boundary follows it)."""
    rest = under_mount(raw_path, mount)
    if rest is None:
        rest = raw_path[len(mount):] if mount and raw_path.startswith(mount) else raw_path
    stack = [p for p in root_abs.split('/') if p]
    for seg in pct_decode_once(rest).split('/'):
        if seg in ('', '.'):
            continue
        if seg == '..':
            if stack:
                stack.pop()
            continue
        stack.append(seg)
    return '/' + '/'.join(stack)


def climbs_out(raw_path, mount, root_abs):
    """True when the once-decoded path, resolved segment by segment below the root, is outside the root at
    some point (whether or not it comes back in)."""
    rest = under_mount(raw_path, mount)
    if rest is None:
        rest = raw_path[len(mount):] if mount and raw_path.startswith(mount) else raw_path
    root = [p for p in root_abs.split('/') if p]
    stack = list(root)
    for seg in pct_decode_once(rest).split('/'):
        if seg in ('', '.'):
            continue
        if seg == '..':
            if stack:
                stack.pop()
        else:
            stack.append(seg)
        if stack[:len(root)] != root:
            return True
    return False


def selfcheck():
    """The examples of RFC 7233 2.1 / 4.1 and a few percent-decoding facts; raises on disagreement."""
    n = 10000
    table = [
        ('bytes=0-499', [(0, 499)]), ('bytes=500-999', [(500, 999)]), ('bytes=-500', [(9500, 9999)]),
        ('bytes=9500-', [(9500, 9999)]), ('bytes=0-0,-1', [(0, 0), (9999, 9999)]),
        ('bytes=500-600,601-999', [(500, 600), (601, 999)]), ('bytes=500-700,601-999', [(500, 700), (601, 999)]),
        ('bytes=9990-20000', [(9990, 9999)]), ('bytes=-20000', [(0, 9999)]), ('bytes=0-1, ,4-5', [(0, 1), (4, 5)]),
    ]
    for h, exp in table:
        ev = evaluate(h, n)
        assert ev['kind'] == 'ranges' and ev['ranges'] == exp, (h, ev)
    for h in ('bytes=10000-', 'bytes=-0', 'bytes=10000-10005,20000-'):
        assert evaluate(h, n)['kind'] == 'unsat', h
    for h in ('bytes=5-2', 'bytes=x-y', 'bytes', 'bytes 0-5', 'bytes=', 'bytes=-', 'bytes=1-2-3', 'bytes=--5', 'items=0-5', 'bytes=0-1,x'):
        assert evaluate(h, n)['kind'] == 'ignore', h
    assert pct_decode_once('%2e%2e/%252e%41%zz%4') == '../%2eA%zz%4'
    assert pct_decode_once('a%20b') == 'a b'
    root = '/t/parent/www'
    assert denotations('/sub/../f.txt', None, root) == {('f.txt',)}
    assert denotations('/../secret', None, root) == {('secret',)}          # RFC 3986 reading only: inside the root
    assert denotations('/../www/f.txt', None, root) == {('www', 'f.txt'), ('f.txt',)}
    assert denotations('/static../x', '/static', root) == set()
    assert denotations('/static/%2e%2e/x', '/static', root) == {('x',)}
    assert denotations('/p%2541.txt', None, root) == {('p%41.txt',)}
    assert denotations('//..%5c/a%20b.txt', None, root, network_path=True) == {('..\\', 'a b.txt'), ('a b.txt',)}
    assert escapes_root('/../x', None, root) and escapes_root('/..%2fx', None, root) and not escapes_root('/%252e%252e/x', None, root)
    assert resolved_location('/static../%2e%2e/x', '/static', root) == '/t/x' and resolved_location('/a/./b', None, root) == root + '/a/b'
    assert climbs_out('/../www/f', None, root) and not escapes_root('/../www/f', None, root) and not climbs_out('/a/../f', None, root)
    parts = split_multipart(b'\r\n--B\r\nContent-type: t\r\nContent-range: bytes 0-1/4\r\n\r\nab\r\n--B--\r\n', b'B')
    assert parts == [({'content-type': 't', 'content-range': 'bytes 0-1/4'}, b'ab')], parts
    return len(table) + 30

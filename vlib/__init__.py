"""Shared engines of the runtime-monitoring framework (see DESIGN.md section 2)."""
import os

VERIF_DIR = os.path.dirname(os.path.dirname(os.path.abspath(__file__)))
REPO_DIR = os.environ.get('VERIF_REPO', '/repo')
PYTHON = os.environ.get('VERIF_PYTHON', '/venv/bin/python')

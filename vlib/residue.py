"""Residue scanner (DESIGN.md 2.8): "no trace of object X remains in the component tree".

Two independent deciders, both generic (attribute names are *reported*, never assumed):

(i)  :func:`scan` walks the component tree from a root and, for every instance attribute of every
     component (and of plain helper objects hanging off it, one level), reports where ``obj`` occurs:
     as the attribute itself, or as key / value / element of a dict, list, tuple, set, frozenset,
     deque, defaultdict - two container levels deep.
(ii) :func:`holders` is used after the caller dropped its own references and ``gc.collect()`` ran:
     if ``weakref.ref(obj)()`` is still alive, ``gc.get_referrers`` is walked upwards until an
     instance that owns the chain is found, and the chain is named.

Membership is decided by identity (``is``), never by ``==``.
"""
import gc
import types
from collections import deque

CONTAINERS = (dict, list, tuple, set, frozenset, deque)


def walk_components(root):
    """root and every component registered below it (via the public ``components`` attribute)."""
    seen = set()
    stack = [root]
    while stack:
        c = stack.pop()
        if id(c) in seen:
            continue
        seen.add(id(c))
        yield c
        for ch in list(getattr(c, 'components', ())):
            stack.append(ch)


def _occurrences(container, obj, depth, path, out, seen):
    if id(container) in seen:
        return
    seen.add(id(container))
    if isinstance(container, dict):
        for k, v in list(container.items()):
            if k is obj:
                out.append((path, 'key'))
            if v is obj:
                out.append((path, 'value'))
            if depth > 1:
                if isinstance(k, CONTAINERS):
                    _occurrences(k, obj, depth - 1, path + '{key}', out, seen)
                if isinstance(v, CONTAINERS):
                    _occurrences(v, obj, depth - 1, path + '[...]', out, seen)
    else:
        for x in list(container):
            if x is obj:
                out.append((path, 'element'))
            if depth > 1 and isinstance(x, CONTAINERS):
                _occurrences(x, obj, depth - 1, path + '[...]', out, seen)


def scan(root, obj, depth=2, skip_attrs=('components',)):
    """-> sorted list of (component class name, attribute path, role) where ``obj`` occurs.

    ``skip_attrs`` only lists attributes that are *structure of the tree itself* (the set of child
    components, which is walked instead of scanned)."""
    found = []
    for comp in walk_components(root):
        try:
            attrs = list(vars(comp).items())
        except TypeError:
            continue
        cname = type(comp).__name__
        for name, val in attrs:
            if name in skip_attrs:
                continue
            if val is obj:
                found.append((cname, name, 'attribute'))
            elif isinstance(val, CONTAINERS):
                out = []
                _occurrences(val, obj, depth, name, out, set())
                found.extend((cname, p, role) for p, role in out)
    return sorted(set(found))


def count_entries(root, depth=1):
    """Total number of entries of all container attributes in the tree (a cheap growth witness)."""
    n = 0
    for comp in walk_components(root):
        for name, val in list(vars(comp).items()):
            if name != 'components' and isinstance(val, CONTAINERS):
                n += len(val)
    return n


# -- (ii) who keeps it alive ---------------------------------------------------------------------
def _describe_owner(container, ignore_ids, depth=0):
    """Name the object(s) that own ``container`` (a dict/list/...): 'Class.attr' when it is the value
    of an instance attribute, 'Class.__dict__' when it is an instance dict."""
    names = []
    if depth > 3:
        return names
    for r in gc.get_referrers(container):
        if id(r) in ignore_ids or isinstance(r, types.FrameType):
            continue
        if isinstance(r, dict):
            # an instance __dict__ holding the container under some attribute name?
            attr = [k for k, v in r.items() if v is container and isinstance(k, str)]
            owners = [o for o in gc.get_referrers(r) if getattr(o, '__dict__', None) is r and not isinstance(o, types.ModuleType)]
            if owners and attr:
                names.extend('%s.%s' % (type(o).__name__, a) for o in owners for a in attr)
            elif owners:
                names.extend('%s.__dict__' % type(o).__name__ for o in owners)
            else:
                sub = _describe_owner(r, ignore_ids | {id(container)}, depth + 1)
                names.extend('%s -> dict' % s for s in sub)
        elif isinstance(r, CONTAINERS):
            sub = _describe_owner(r, ignore_ids | {id(container)}, depth + 1)
            names.extend('%s -> %s' % (s, type(r).__name__) for s in sub)
        elif hasattr(r, '__dict__') or hasattr(type(r), '__slots__'):
            names.append(type(r).__name__)
    return names


def holders(obj, ignore=()):
    """Names of what still references ``obj`` (call after gc.collect()).  ``ignore``: objects of the
    caller (lists, dicts) whose references do not count."""
    ignore_ids = {id(x) for x in ignore}
    ignore_ids.add(id(locals()))
    out = []
    for r in gc.get_referrers(obj):
        if id(r) in ignore_ids or isinstance(r, (types.FrameType, types.CellType)):
            continue
        if isinstance(r, dict):
            attr = [k for k, v in r.items() if v is obj and isinstance(k, str)]
            owners = [o for o in gc.get_referrers(r) if getattr(o, '__dict__', None) is r and not isinstance(o, types.ModuleType)]
            if owners:
                out.extend('%s.%s (attribute)' % (type(o).__name__, a) for o in owners for a in (attr or ['?']))
                continue
            role = 'key' if any(k is obj for k in r) else 'value'
            out.extend('%s (dict %s)' % (s, role) for s in (_describe_owner(r, ignore_ids | {id(obj)}) or ['<unowned dict>']))
        elif isinstance(r, CONTAINERS):
            out.extend('%s (%s element)' % (s, type(r).__name__) for s in (_describe_owner(r, ignore_ids | {id(obj)}) or ['<unowned %s>' % type(r).__name__]))
        else:
            out.append('%s object' % type(r).__name__)
    return sorted(set(out))


def fd_census():
    """Open descriptors of this process: {fd: readlink target}."""
    import os
    d = os.open('/proc/self/fd', os.O_RDONLY)
    try:
        out = {}
        for name in os.listdir(d):
            fd = int(name)
            if fd == d:
                continue
            try:
                out[fd] = os.readlink('/proc/self/fd/%d' % fd)
            except OSError:
                # listed but gone: the descriptor listdir() itself used for the listing (its number depends on which numbers are free)
                continue
        return out
    finally:
        os.close(d)

"""Parent side: plan batches, run them in worker subprocesses, aggregate, decide, write evidence.

Verdicts (DESIGN.md section 0): exit 0 held / exit 1 violation / exit 2 inconclusive.
"""
import argparse
import importlib
import json
import os
import subprocess
import sys
import time
from collections import Counter
from concurrent.futures import ThreadPoolExecutor

from . import PYTHON, REPO_DIR, VERIF_DIR
from .worker import MARK

KNOWN_FILE = os.path.join(VERIF_DIR, 'known_findings.json')


def load_known(prop):
    """open entries of known_findings.json (plus not yet merged fragments in known_findings.d/)."""
    import glob
    entries = []
    for path in [KNOWN_FILE] + sorted(glob.glob(os.path.join(VERIF_DIR, 'known_findings.d', '*.json'))):
        try:
            with open(path) as f:
                entries.extend(json.load(f).get('findings', []))
        except FileNotFoundError:
            pass
    return {e['key']: e for e in entries if e.get('property') == prop and e.get('status') == 'open'}


def worker_env():
    env = dict(os.environ)
    env['PYTHONPATH'] = REPO_DIR + os.pathsep + VERIF_DIR
    env['PYTHONDONTWRITEBYTECODE'] = '1'
    env.setdefault('PYTHONHASHSEED', '0')
    env['VERIF_REPO'] = REPO_DIR
    # the guard of MANIFEST.hooks: reserved, no line of the repository reads it (DESIGN.md 1)
    env['CIRCUITS_VERIF'] = '1'
    return env


def run_worker(modname, spec, timeout):
    spec = dict(spec)
    spec['_watchdog'] = timeout
    t0 = time.time()
    try:
        p = subprocess.run(
            [PYTHON, '-B', os.path.join(VERIF_DIR, 'vlib', 'worker.py'), modname],
            input=json.dumps(spec), capture_output=True, text=True, timeout=timeout + 30,
            env=worker_env(), cwd=VERIF_DIR,
        )
    except subprocess.TimeoutExpired as e:
        return {'worker_error': 'timeout after %ss' % (timeout + 30), 'stderr': str(e.stderr)[-3000:] if e.stderr else ''}
    for line in reversed(p.stdout.splitlines()):
        if line.startswith(MARK):
            res = json.loads(line[len(MARK):])
            res['_wall'] = time.time() - t0
            if 'worker_error' in res:
                res['stderr'] = p.stderr[-3000:]
            return res
    return {'worker_error': 'no result (exit %s)' % p.returncode, 'stderr': p.stderr[-4000:]}


def main(argv=None):
    ap = argparse.ArgumentParser()
    ap.add_argument('check')
    ap.add_argument('--tier', default=os.environ.get('VERIF_TIER', 'quick'), choices=['quick', 'thorough'])
    ap.add_argument('--replay')
    ap.add_argument('--jobs', type=int, default=int(os.environ.get('VERIF_JOBS', '16')))
    ap.add_argument('--no-evidence', action='store_true')
    ap.add_argument('-v', '--verbose', action='store_true')
    args = ap.parse_args(argv)

    seed = int(os.environ.get('VERIF_SEED', '0') or 0)
    modname = args.check.lower()
    sys.path[:0] = [VERIF_DIR]
    mod = importlib.import_module('checks.' + modname)
    prop = mod.PROPERTY
    t0 = time.time()

    if args.replay:
        with open(args.replay) as f:
            rep = json.load(f)
        specs = [{'_replay': rep['case']}]
    else:
        specs = mod.plan(args.tier, seed)
    timeout = getattr(mod, 'WORKER_TIMEOUT', {}).get(args.tier, 900)

    with ThreadPoolExecutor(max_workers=args.jobs) as ex:
        results = list(ex.map(lambda s: run_worker(modname, s, timeout), specs))
    # A batch that gave no verdict (worker died / timed out, or cases ended inconclusive: kernel timers, loopback ports, a loaded machine)
    # and reported no failure is run once more, alone, in a fresh worker.  A batch that reported a failure is never run again.
    retried = 0
    for i, (spec, res) in enumerate(zip(specs, results)):
        if args.replay:
            break
        no_verdict = 'worker_error' in res or (res.get('inconclusive') and not res.get('failures'))
        if no_verdict:
            second = run_worker(modname, spec, timeout)
            retried += 1
            if 'worker_error' not in second and not (second.get('inconclusive') and not second.get('failures')):
                results[i] = second

    known = load_known(prop)
    evaluations = 0
    hashes = set()
    counters = Counter()
    obligations = Counter()
    failures = []
    failure_keys = Counter()
    samples = []
    inconclusive = []
    extra = {}
    if retried:
        extra['batches_run_a_second_time_after_giving_no_verdict'] = retried
    for spec, res in zip(specs, results):
        if 'worker_error' in res:
            inconclusive.append('worker failed on batch %s: %s | %s' % (
                json.dumps({k: v for k, v in spec.items() if k != '_replay'})[:200], res['worker_error'][-1500:], res.get('stderr', '')[-1500:]))
            continue
        evaluations += res['evaluations']
        hashes.update(res['hashes'])
        counters.update(res['counters'])
        obligations.update(res['obligations'])
        failure_keys.update(res['failure_keys'])
        for f in res['failures']:
            f['batch'] = {k: v for k, v in spec.items() if not k.startswith('_')}
            failures.append(f)
        for s in res['samples']:
            if len(samples) < 6:
                samples.append(s)
        inconclusive.extend(res['inconclusive'])
        for k, v in (res.get('extra') or {}).items():
            if isinstance(v, (int, float)) and not isinstance(v, bool):
                extra[k] = extra.get(k, 0) + v
            else:
                extra.setdefault(k, v)

    # -- verdict ------------------------------------------------------------------------------
    known_seen = Counter()
    violations = []
    for f in failures:
        if f['known'] and f['known'] in known:
            known_seen[f['known']] += 0  # counted from failure_keys below
        else:
            violations.append(f)
    for key, n in failure_keys.items():
        if key in known:
            known_seen[key] += n
    n_viol = sum(n for key, n in failure_keys.items() if key not in known)

    if not args.replay:
        for name in getattr(mod, 'REQUIRED', []):
            if counters.get(name, 0) == 0:
                inconclusive.append('monitor never reached: %s' % name)
        for name in getattr(mod, 'REQUIRED_OBLIGATIONS', []):
            if obligations.get(name, 0) == 0:
                inconclusive.append('clause never evaluated: %s' % name)
        if evaluations == 0:
            inconclusive.append('no case was executed')

    if args.verbose:
        for f in failures:
            print('FAILURE', f['clause'], 'known=%s' % f['known'], json.dumps(f['detail'])[:1200])
            print('   case:', json.dumps(f['case'])[:int(os.environ.get('VERIF_VERBOSE_CASE', '600'))])
    wall = time.time() - t0
    status = 'violated' if violations or n_viol else ('inconclusive' if inconclusive else 'held')
    if not args.replay and not args.no_evidence:
        write_evidence(mod, prop, args.tier, seed, evaluations, hashes, counters, obligations, samples,
                       known_seen, n_viol, inconclusive, wall, status, extra, len(specs))

    for key in sorted(known_seen):
        print('KNOWN-FINDING: property=%s %s: %s (seen %d times)' % (prop, key, known[key].get('what', ''), known_seen[key]))

    if violations or n_viol:
        os.makedirs(os.path.join(VERIF_DIR, 'replays'), exist_ok=True)
        seen = set()
        for f in violations:
            k = (f['clause'], f.get('known'))
            if k in seen:
                continue
            seen.add(k)
            name = '%s-%s-%d.json' % (prop, ''.join(c if c.isalnum() else '_' for c in f['clause'])[:40], len(seen))
            path = os.path.join(VERIF_DIR, 'replays', name)
            with open(path, 'w') as fh:
                json.dump({'property': prop, 'tier': args.tier, 'seed': seed, 'clause': f['clause'],
                           'case': f['case'], 'observed': f['detail'], 'batch': f.get('batch'), 'twins': f.get('twins')}, fh, indent=1)
            print('VIOLATION property=%s replay=%s' % (prop, path))
            print('  clause=%s detail=%s' % (f['clause'], json.dumps(f['detail'])[:600]))
        if not violations:
            print('VIOLATION property=%s replay=%s' % (prop, os.path.join(VERIF_DIR, 'evidence', prop + '.json')))
        print('  unattributed failure classes: %s' % {k: n for k, n in failure_keys.items() if k not in known})
        return 1
    if inconclusive:
        for r in inconclusive[:10]:
            print('INCONCLUSIVE property=%s reason=%s' % (prop, r.replace('\n', ' | ')[:1500]))
        return 2
    print('HELD property=%s tier=%s seed=%d evaluations=%d distinct_nontrivial=%d obligations=%d wall=%.1fs' % (
        prop, args.tier, seed, evaluations, len(hashes), sum(obligations.values()), wall))
    return 0


def write_evidence(mod, prop, tier, seed, evaluations, hashes, counters, obligations, samples,
                   known_seen, n_viol, inconclusive, wall, status, extra, n_batches):
    ev = {
        'property_id': prop,
        'tier': tier,
        'seed': seed,
        'level': mod.LEVEL,
        'coverage': {
            'evaluations': evaluations,
            'distinct_nontrivial': len(hashes),
            'rule': mod.RULE,
            'samples': samples,
            'obligations_evaluated': dict(sorted(obligations.items())),
            'monitor_reached': dict(sorted(counters.items())),
            'known_findings_seen': dict(sorted(known_seen.items())),
            'inconclusive': inconclusive[:10],
            'batches': n_batches,
            'status': status,
        },
        'assumptions': list(getattr(mod, 'ASSUMPTIONS', [])),
        'wall_s': round(wall, 2),
        'violations': n_viol,
    }
    if getattr(mod, 'EXHAUSTIVE', {}).get(tier):
        ev['coverage']['exhaustive'] = True
        ev['coverage']['exhaustive_scope'] = mod.EXHAUSTIVE[tier]
    ev['coverage'].update(extra)
    os.makedirs(os.path.join(VERIF_DIR, 'evidence'), exist_ok=True)
    path = os.path.join(VERIF_DIR, 'evidence', prop + '.json')
    tmp = path + '.tmp'
    with open(tmp, 'w') as f:
        json.dump(ev, f, indent=1, sort_keys=False)
        f.write('\n')
    os.replace(tmp, path)

"""Stepping driver for single-threaded checks (DESIGN.md 2.1).

Drives a Manager from the checking thread with fire()/flush()/tick(); no framework thread and no
wall clock.  ``import circuits`` happens in the caller (after any doubles were installed).
"""


class Unsettled(Exception):
    """settle() ran out of ticks while the system was still active: the case is inconclusive."""


def queue_len(m):
    return len(m)  # Manager.__len__ == queued events (public)


def tasks_of(m):
    return m._tasks  # internal name: set of suspended generator handlers of a root


def mark_running(m, running=True):
    """generate_events is only fired by a *running* manager; the driver marks the root running
    without starting a loop (the one internal name the driver writes)."""
    m._running = running


def step(m, budget=0):
    m.tick(budget)


def quiescent(m):
    return queue_len(m) == 0 and not tasks_of(m)


def settle(m, max_ticks=200, progress=None):
    """tick until the queue is empty, no tasks are pending and (if given) progress() stopped
    changing for two consecutive ticks.  Returns the number of ticks used."""
    last = progress() if progress else None
    stable = 0
    for n in range(max_ticks):
        if m.running:
            m.tick(0)
        else:
            m.tick()
        cur = progress() if progress else None
        if quiescent(m) and cur == last:
            stable += 1
            if stable >= 2 or not m.running:
                return n + 1
        else:
            stable = 0
        last = cur
    raise Unsettled('still active after %d ticks (queue=%d tasks=%d)' % (max_ticks, queue_len(m), len(tasks_of(m))))

"""Property-breaking mutations used to test the monitors (DESIGN.md 3.5, the X lists of section 4).
Each entry: (id, property, file relative to the repository, old text, new text)."""
M = 'circuits/core/manager.py'
C = 'circuits/core/components.py'

MUTANTS = [
    ('c01-addhandler-no-invalidate', 'C01', M, "            for name in method.names:\n                self._handlers.setdefault(name, set()).add(method)\n\n        self.root._cache_needs_refresh = True", "            for name in method.names:\n                self._handlers.setdefault(name, set()).add(method)\n"),
    ('c01-removehandler-no-invalidate', 'C01', M, "                    # Handler was never part of self\n                    pass\n\n        self.root._cache_needs_refresh = True", "                    # Handler was never part of self\n                    pass\n"),
    ('c01-registerchild-no-invalidate', 'C01', M, "        self.root._queue.drainFrom(component._queue)\n        self.root._cache_needs_refresh = True", "        self.root._queue.drainFrom(component._queue)"),
    ('c01-unregisterchild-no-invalidate', 'C01', M, "        self.components.remove(component)\n        self.root._cache_needs_refresh = True", "        self.components.remove(component)"),
    ('c01-detach-no-invalidate', 'C01', C, "        self._cache_needs_refresh = True\n        return self", "        return self"),
    ('c01-star-channel-test-removed', 'C01', M, "if channel == '*' or handler_channel in ('*', channel) or channel is self:", "if handler_channel in ('*', channel) or channel is self:"),
    ('c01-globals-not-merged', 'C01', M, "            handlers.update(self._globals)", "            pass"),
    ('c01-children-not-recursed', 'C01', M, "        for c in self.components.copy():\n            handlers.update(c.getHandlers(event, channel, **kwargs))", "        for c in self.components.copy():\n            handlers.update(c.getHandlers(event, channel, exclude_globals=True) if False else ())"),
    ('c01-cache-key-without-channels', 'C01', M, "event_handlers = self._cache[(event.name, channels)]", "channels_ = channels; channels = len(channels); event_handlers = self._cache[(event.name, channels)]"),
    ('c01-cache-key-without-channels2', 'C01', M, "            event_handlers = self._cache[(event.name, channels)]\n        except KeyError:", "            event_handlers = self._cache[event.name]\n        except KeyError:\n            self._cache[event.name] = None"),
    ('c01-instance-target-ignored', 'C01', M, "or channel is self:", "or False:"),
    ('c01-handler-channel-fallback-removed', 'C01', M, "                    'channel',\n                    None,\n                )", "                    'channel',\n                    None,\n                ) and '*'"),
]

#!/venv/bin/python
"""Self-test of the monitors (DESIGN.md 3.5): apply one property-breaking mutation to a scratch
copy of the repository's package (never /repo itself), run the property's check against the copy
and expect exit 1.  Usage: selftest/run.py [-t tier] [mutant-id-prefix ...]"""
import argparse
import os
import shutil
import subprocess
import sys
import tempfile
import time
from concurrent.futures import ThreadPoolExecutor

HERE = os.path.dirname(os.path.abspath(__file__))
sys.path.insert(0, HERE)
import glob  # noqa: E402
import importlib  # noqa: E402

MUTANTS = []
for _f in sorted(glob.glob(os.path.join(HERE, 'mutants*.py'))):
    MUTANTS.extend(importlib.import_module(os.path.basename(_f)[:-3]).MUTANTS)


def run_one(m, tier):
    mid, prop, path, old, new = m[:5]
    scratch = tempfile.mkdtemp(prefix='vselftest-', dir='/var/tmp')
    try:
        shutil.copytree('/repo/circuits', os.path.join(scratch, 'circuits'), ignore=shutil.ignore_patterns('__pycache__'))
        p = os.path.join(scratch, path)
        s = open(p).read()
        if s.count(old) < 1:
            return mid, prop, 'PATCH-DOES-NOT-APPLY', 0
        open(p, 'w').write(s.replace(old, new, 1))
        env = dict(os.environ, VERIF_REPO=scratch, VERIF_JOBS='4')
        t0 = time.time()
        r = subprocess.run([os.path.join(HERE, '..', 'check'), prop, '--tier', tier, '--no-evidence'], env=env,
                           capture_output=True, text=True)
        status = {0: 'MISSED', 1: 'caught', 2: 'inconclusive'}.get(r.returncode, 'exit%d' % r.returncode)
        first = next((l for l in r.stdout.splitlines() if l.strip().startswith(('clause=', 'INCONCLUSIVE'))), '')
        return mid, prop, status + ' ' + first.strip()[:150], time.time() - t0
    finally:
        shutil.rmtree(scratch, ignore_errors=True)


def main():
    ap = argparse.ArgumentParser()
    ap.add_argument('-t', '--tier', default='quick')
    ap.add_argument('ids', nargs='*')
    a = ap.parse_args()
    ms = [m for m in MUTANTS if not a.ids or any(m[0].startswith(i) or m[1] == i for i in a.ids)]
    with ThreadPoolExecutor(4) as ex:
        res = list(ex.map(lambda m: run_one(m, a.tier), ms))
    bad = 0
    for mid, prop, status, t in res:
        print('%-40s %s %s (%.0fs)' % (mid, prop, status, t))
        bad += not status.startswith('caught')
    print('%d/%d caught' % (len(res) - bad, len(res)))
    return 1 if bad else 0


if __name__ == '__main__':
    sys.exit(main())

"""Property-breaking mutations of circuits/protocols/websocket.py for C17 (DESIGN.md section 4, C17, X list + realistic others).
Each entry: (id, property, file relative to the repository, old text, new text); first occurrence is replaced."""
W = 'circuits/protocols/websocket.py'

MUTANTS = [
    # -- X list ---------------------------------------------------------------------------------------
    ('c17-unmask-index-not-mod4', 'C17', W, "msg[i] = c ^ masking_key[i % 4]", "msg[i] = c ^ masking_key[min(i, 3)]"),
    ('c17-mask-index-not-mod4-encoder', 'C17', W, "tail.append(c ^ masking_key[i % 4])", "tail.append(c ^ masking_key[i % 3])"),
    ('c17-length-byte-order-decoder', 'C17', W, "payload_length = payload_length * 256 + data[offset]",
     "payload_length = payload_length + (data[offset] << (8 * _))"),
    ('c17-length-byte-order-encoder', 'C17', W, "for i in range(lbytes - 1, -1, -1):", "for i in range(lbytes):"),
    ('c17-pending-payload-not-reset', 'C17', W, "                    self._pending_payload = bytearray()\n                    msgs.append(msg)",
     "                    msgs.append(msg)"),
    ('c17-fin-ignored', 'C17', W, "            if final:\n                if opcode < 8:", "            if True:\n                if opcode < 8:"),
    # -- reverts of repairs -----------------------------------------------------------------------------------
    ('c17-revert-ctor-data-decoded-at-registration', 'C17', W,
     "        self._initial_data = bytearray(data)\n",
     "        self._initial_data = bytearray()\n        for message in self._parse_messages(bytearray(data)):\n            self.fire(read(self._sock, message) if self._sock is not None else read(message))\n"),
    ('c17-ctor-data-dropped', 'C17', W, "        self._initial_data = bytearray(data)\n", "        self._initial_data = bytearray()\n"),
    # -- other realistic breaks ------------------------------------------------------------------------------
    ('c17-fragments-not-combined', 'C17', W, "            msg = self._pending_payload + msg\n", "            msg = msg\n"),
    ('c17-continued-text-not-decoded', 'C17', W, "if opcode == 1 or (opcode == 0 and self._pending_type == 1):", "if opcode == 1:"),
    ('c17-no-unmasking', 'C17', W, "            if masking:  # unmask", "            if False:  # unmask"),
    ('c17-64bit-length-read-as-32bit', 'C17', W, "payload_bytes = 2 if payload_length == 126 else 8", "payload_bytes = 2 if payload_length == 126 else 4"),
    ('c17-incomplete-frame-not-buffered', 'C17', W, "                self._buffer = data\n                break", "                break"),
    ('c17-text-decoded-as-latin1', 'C17', W, "msg = msg.decode('utf-8', 'replace')", "msg = msg.decode('latin-1')"),
    ('c17-close-received-not-checked', 'C17', W, "        if self._close_received:\n            return msgs", "        if False:\n            return msgs"),
    ('c17-parsing-continues-after-close-frame', 'C17', W, "                        self.fire(close())\n                    break", "                        self.fire(close())\n                    continue"),
    ('c17-write-after-close-sent', 'C17', W, "        if self._close_sent:\n            return\n", "        if False:\n            return\n"),
    ('c17-pong-opcode-is-ping', 'C17', W, "frame = bytearray(b'\\x8a')", "frame = bytearray(b'\\x89')"),
    ('c17-pong-without-payload', 'C17', W, "frame += self._encode_tail(msg, self._sock is None)\n                    self._write(frame)",
     "frame += self._encode_tail(bytearray(), self._sock is None)\n                    self._write(frame)"),
    ('c17-ping-not-answered', 'C17', W, "frame += self._encode_tail(msg, self._sock is None)\n                    self._write(frame)",
     "frame += self._encode_tail(msg, self._sock is None)"),
    ('c17-text-written-as-binary', 'C17', W, "            first += 1  # text", "            first += 2  # text"),
    ('c17-server-masks-its-frames', 'C17', W, "        frame += self._encode_tail(data, self._sock is None)\n        self._write(frame)",
     "        frame += self._encode_tail(data, True)\n        self._write(frame)"),
    ('c17-client-does-not-mask', 'C17', W, "        frame += self._encode_tail(data, self._sock is None)\n        self._write(frame)",
     "        frame += self._encode_tail(data, False)\n        self._write(frame)"),
    ('c17-7bit-threshold-126', 'C17', W, "        if data_length <= 125:", "        if data_length <= 126:"),
    ('c17-16bit-threshold-65536', 'C17', W, "        elif data_length <= 0xFFFF:", "        elif data_length <= 0x10000:"),
    ('c17-raw-read-socket-filter-removed', 'C17', W, "                    if args[0] != self._sock:\n                        return\n                    data = args[1]",
     "                    data = args[1]"),
    ('c17-write-socket-filter-removed', 'C17', W, "            if args[0] != self._sock:\n                return\n            data = args[1]", "            data = args[1]"),
    ('c17-masking-key-not-skipped', 'C17', W, "                masking_key = data[offset : offset + 4]\n                offset += 4", "                masking_key = data[offset : offset + 4]\n                offset += 3"),
    ('c17-frame-bytes-not-consumed', 'C17', W, "            offset += payload_length\n            data = data[offset:]", "            offset += payload_length\n            data = data[offset + 1:]"),
    # equivalent (not listed): removing `self._pending_type = None` - the first frame of every fragmented message has a non-zero
    # opcode and overwrites _pending_type before any continuation frame reads it, so no behaviour changes.
    # equivalent for the statement (not listed): `data_length <= 0xFFFF` -> `< 0xFFFF` only makes the 65535-byte frame use the
    # 64-bit form, which RFC 6455 forbids to senders but every decoder reads back exactly: the round trip still holds.
]

M = 'circuits/core/manager.py'
V = 'circuits/core/values.py'
MUTANTS = [
    ('c04-errors-flag-dropped', 'C04', M, "                value = err = _exc_info()\n                event.value.errors = True\n", "                value = err = _exc_info()\n"),
    # ('c04-success-despite-error': dropping `err is None` is equivalent now that value.errors is consulted)
    ('c04-success-after-failure-regression', 'C04', M, "        if err is None and event.success and not event.value.errors:", "        if err is None and event.success:"),
    ('c04-exception-fired-twice', 'C04', M, "                self.fire(exception(*err, handler=event_handler, fevent=event))\n", "                self.fire(exception(*err, handler=event_handler, fevent=event))\n                self.fire(exception(*err, handler=event_handler, fevent=event))\n"),
    ('c04-raise-aborts-handler-loop', 'C04', M, "                self.fire(exception(*err, handler=event_handler, fevent=event))\n", "                self.fire(exception(*err, handler=event_handler, fevent=event))\n                break\n"),
    ('c04-setvalue-overwrites', 'C04', V, "        if self.result and isinstance(self._value, list):\n            self._value.append(value)", "        if self.result and isinstance(self._value, list):\n            self._value = value"),
    ('c04-setvalue-no-list', 'C04', V, "        elif self.result:\n            self._value = [self._value]\n            self._value.append(value)", "        elif self.result:\n            self._value = value"),
    ('c04-failure-not-fired-in-task', 'C04', M, "            if event.failure:\n                self.fire(event.child('failure', event, err), *event.channels)\n\n            self.fire(exception(*err, handler=None, fevent=event))", "            self.fire(exception(*err, handler=None, fevent=event))"),
    ('c04-task-error-not-flagged', 'C04', M, "            event.value.value = err\n            event.value.errors = True\n", "            event.value.value = err\n"),
    ('c04-task-error-value-dropped', 'C04', M, "            event.value.value = err\n            event.value.errors = True\n", "            event.value.errors = True\n"),
    ('c04-success-before-generators-finish', 'C04', M, "    def _eventDone(self, event, err=None):\n        if event.waitingHandlers:\n            return\n", "    def _eventDone(self, event, err=None):\n        if event.waitingHandlers > 1:\n            return\n"),
    ('c04-yielded-none-recorded', 'C04', M, "            elif value is not None:\n                event.value.value = value\n        except StopIteration:", "            else:\n                event.value.value = value\n        except StopIteration:"),
    ('c04-success-twice', 'C04', M, "            self.fire(event.child('success', event, event.value.value), *channels)\n", "            self.fire(event.child('success', event, event.value.value), *channels)\n            if event.value.promise:\n                self.fire(event.child('success', event, event.value.value), *channels)\n"),
    ('c04-exception-event-only-first', 'C04', M, "                self.fire(exception(*err, handler=event_handler, fevent=event))\n", "                if not getattr(event, '_x', False):\n                    self.fire(exception(*err, handler=event_handler, fevent=event))\n                event._x = True\n"),
    # revert of repair 13e609e
    ('c04-revert-value-flags-sticky-errors', 'C04', V, "                o.errors = o.errors or v.errors\n", "                o.errors = v.errors\n"),
    ('c04-revert-value-flags-sticky-parent-errors', 'C04', V, "                o.parent.errors = o.parent.errors or o.errors\n", "                o.parent.errors = o.errors\n"),
    ('c04-sleeping-handler-not-counted-as-waiting', 'C04', M, '                # TODO: The subtask is considered a "waiting handler"\n                event.waitingHandlers += 1\n', '                # TODO: The subtask is considered a "waiting handler"\n'),
]

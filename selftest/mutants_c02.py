M = 'circuits/core/manager.py'
MUTANTS = [
    ('c02-no-priority-heap', 'C02', M, "                heappush(self._priority_queue, self._queue.popleft())", "                self._priority_queue.append(self._queue.popleft())"),
    ('c02-pop-without-heap', 'C02', M, "(event, channels) = heappop(self._priority_queue)[2]", "(event, channels) = self._priority_queue.pop(0)[2]"),
    ('c02-snapshot-reread', 'C02', M, "        while self._flush_batch > 0:\n            self._flush_batch -= 1  # Decrement first!", "        while self._flush_batch > 0:\n            while self._queue:\n                heappush(self._priority_queue, self._queue.popleft()); self._flush_batch += 1\n            self._flush_batch -= 1  # Decrement first!"),
    ('c02-handler-order-ascending', 'C02', M, "                key=attrgetter('priority'),\n                reverse=True,", "                key=attrgetter('priority'),\n                reverse=False,"),
    ('c02-stop-ignored', 'C02', M, "            if event.stopped:\n                break  # Stop further event processing", "            if event.stopped:\n                pass"),
    ('c02-no-counter-tiebreak', 'C02', M, "        self._counter += 1\n        self._queue.append((priority, self._counter, (event, channel)))", "        self._queue.append((priority, -id(event) % 7, (event, channel)))"),
    ('c02-lifo-ties', 'C02', M, "        self._counter += 1\n", "        self._counter -= 1\n"),
    ('c02-decrement-after', 'C02', M, "            self._flush_batch -= 1  # Decrement first!\n            (event, channels) = heappop(self._priority_queue)[2]\n            dispatcher(event, channels, self._flush_batch)", "            (event, channels) = heappop(self._priority_queue)[2]\n            dispatcher(event, channels, self._flush_batch - 1)\n            self._flush_batch -= 1"),
    ('c02-fire-dispatches-inline', 'C02', M, "            self._queue.append(event, channel, priority)\n\n        # the event comes from another thread", "            self._queue.append(event, channel, priority)\n            if priority < 0 and self._flushing_thread is not None:\n                self._queue._flush_batch, saved = 0, self._queue._flush_batch\n                self._flush()\n                self._queue._flush_batch = saved\n\n        # the event comes from another thread"),
    ('c02-negative-priority-abs', 'C02', M, "        self._queue.append((priority, self._counter, (event, channel)))", "        self._queue.append((abs(priority), self._counter, (event, channel)))"),
    ('c02-stop-breaks-before-equal', 'C02', M, "            if event.stopped:\n                break  # Stop further event processing", "            if event.stopped and event_handler.priority <= 0:\n                break  # Stop further event processing"),
]

"""Property-breaking mutations for C20 (DESIGN.md section 4 C20, list X, plus realistic extras).
Each entry: (id, property, file relative to the repository, old text, new text)."""
H = 'circuits/web/_httpauth.py'
T = 'circuits/web/tools.py'
S = 'circuits/web/sessions.py'
V = 'circuits/web/dispatchers/virtualhosts.py'
C = 'circuits/web/controllers.py'

MUTANTS = [
    # --- X list ---------------------------------------------------------------------------------
    ('c20-realm-comparison-dropped', 'C20', H, "    if auth_map['realm'] != kwargs.get('realm', None):\n        return False", "    if False:\n        return False"),
    ('c20-response-eq-becomes-in', 'C20', H, "    return response == auth_map['response']", "    return response in auth_map['response']"),
    ('c20-session-fingerprint-check-dropped', 'C20', S, "    if user != who(request):\n        return create_session(request)", "    if False:\n        return create_session(request)"),
    ('c20-gateway-test-inverted', 'C20', V, "request.remote.ip in self.trusted_gateways", "request.remote.ip not in self.trusted_gateways"),
    # --- extras ---------------------------------------------------------------------------------
    ('c20-response-in-reversed', 'C20', H, "    return response == auth_map['response']", "    return auth_map['response'] in response"),
    ('c20-realm-compared-with-itself', 'C20', T, "encrypt=encrypt, realm=realm):", "encrypt=encrypt, realm=ah.get('realm')):"),
    ('c20-method-not-passed', 'C20', T, "method=request.method, encrypt=encrypt", "method='GET', encrypt=encrypt"),
    ('c20-login-set-on-refusal', 'C20', T, "        request.login = False\n    return False", "        request.login = ah['username']\n    return False"),
    ('c20-a1-ignores-password', 'C20', H, "        return '%s:%s:%s' % (params['username'], params['realm'], password)", "        return '%s:%s:%s' % (params['username'], params['realm'], '')"),
    ('c20-basic-any-password-of-known-user', 'C20', H, "        return encrypt(auth_map['password']) == password", "        return encrypt(auth_map['password']) == password or password is not None"),
    ('c20-basic-password-prefix-match', 'C20', H, "        return encrypt(auth_map['password']) == password", "        return password is not None and password.startswith(encrypt(auth_map['password']))"),
    ('c20-session-who-ignores-agent', 'C20', S, "sha(f'{ip}{agent}'.encode(encoding))", "sha(f'{ip}'.encode(encoding))"),
    ('c20-session-who-ignores-ip', 'C20', S, "sha(f'{ip}{agent}'.encode(encoding))", "sha(f'{agent}'.encode(encoding))"),
    ('c20-session-id-not-unique', 'C20', S, "    return f'{uuid().hex}/{who(request)}'", "    return '0' * 32 + '/' + who(request)"),
    ('c20-session-cookie-not-verified', 'C20', S, "            sid = verify_session(request, sid)", "            pass"),
    ('c20-session-suffix-compared-loosely', 'C20', S, "    if user != who(request):", "    if len(user) != len(who(request)):"),
    ('c20-gateway-from-forwarded-for', 'C20', V, "request.remote.ip in self.trusted_gateways", "request.headers.get('X-Forwarded-For', request.remote.ip).split(',')[0] in self.trusted_gateways"),
    ('c20-gateway-check-removed', 'C20', V, "if self.trusted_gateways is None or request.remote.ip in self.trusted_gateways:", "if True:"),
    # Not listed (equivalent for this property): dropping entries from `required` in _parseDigestAuthorization
    # (a missing directive then raises KeyError = refused); removing the "'/' not in sid" test (IndexError, no data returned).
    # a handler that raises leaves its request's session bound to the controller (round 14): Controller (first wrapper of the file)
    ('c20-controller-keeps-session-after-raise', 'C20', C, "            finally:\n                if hasattr(self, 'request'):", "            except Exception:\n                raise\n            else:\n                if hasattr(self, 'request'):"),
    # ... and JSONController
    ('c20-jsoncontroller-keeps-session-after-raise', 'C20', C, "                return json.dumps(result)\n            finally:", "                return json.dumps(result)\n            except Exception:\n                raise\n            else:"),
]

M = 'circuits/core/manager.py'
H = 'circuits/core/helpers.py'
E = 'circuits/core/events.py'
P = 'circuits/core/pollers.py'
MUTANTS = [
    ('c03-foreign-branch-no-lock', 'C03', M, "            with self._lock:\n                # Modifications of attribute self._currently_handling", "            if True:\n                # Modifications of attribute self._currently_handling"),
    ('c03-queue-check-hoisted-out-of-lock', 'C03', M, "        if isinstance(event, generate_events):\n            with self._lock:\n                self._currently_handling = event\n                if remaining > 0 or len(self._queue) or not self._running:", "        if isinstance(event, generate_events):\n            qlen = len(self._queue)\n            with self._lock:\n                self._currently_handling = event\n                if remaining > 0 or qlen or not self._running:"),
    # c03-clear-after-time-left-check: equivalent - time_left is re-read after the clear(), a fire in between leaves it 0 and nothing waits
    ('c03-poller-resume-noop', 'C03', P, "    def resume(self):\n        if isinstance(self._ctrl_send, socket):", "    def resume(self):\n        return\n        if isinstance(self._ctrl_send, socket):"),
    ('c03-fallback-resume-noop', 'C03', H, "        self._continue.set()", "        pass"),
    ('c03-no-reduce-time-left-on-foreign-fire', 'C03', M, "                if isinstance(handling, generate_events):\n                    handling.reduce_time_left(0)", "                pass"),
    ('c03-currently-handling-set-after-lock', 'C03', M, "            with self._lock:\n                self._currently_handling = event\n                if remaining > 0 or len(self._queue) or not self._running:\n                    event.reduce_time_left(0)\n                elif self._tasks:\n                    event.reduce_time_left(TIMEOUT)", "            with self._lock:\n                if remaining > 0 or len(self._queue) or not self._running:\n                    event.reduce_time_left(0)\n                elif self._tasks:\n                    event.reduce_time_left(TIMEOUT)\n            self._currently_handling = event"),
    ('c03-resume-only-if-handler-set-early', 'C03', E, "                if self._time_left == 0 and self.handler is not None:", "                if self._time_left == 0 and self.handler is not None and False:"),
    ('c03-queue-len-ignored', 'C03', M, "                if remaining > 0 or len(self._queue) or not self._running:", "                if remaining > 0 or not self._running:"),
    ('c03-foreign-append-before-lock', 'C03', M, "                handling = self._currently_handling\n\n                self._queue.append(event, channel, priority)\n                if isinstance(handling, generate_events):", "                handling = self._currently_handling\n\n                if isinstance(handling, generate_events):"),
    # c03-select-ctrl-not-watched: Select with nothing to watch returns at once: the loop spins (CPU burn) but no wake-up is lost
    ('c03-heap-lifo-for-foreign', 'C03', M, "        self._counter += 1\n", "        self._counter -= 1\n"),
    ('c03-reduce-time-left-without-lock-and-late-handler', 'C03', E, "            if time_left >= 0 and (self._time_left < 0 or self._time_left > time_left):\n                self._time_left = time_left", "            if time_left >= 0 and (self._time_left < 0 or self._time_left > time_left):\n                self._time_left = time_left if time_left > 0 or self.handler is not None else self._time_left"),
]

"""Property-breaking mutations for C18 (DESIGN.md section 4, C18, list X, plus realistic others).
Each entry: (id, property, file relative to the repository, old text, new text)."""
L = 'circuits/protocols/line.py'
M = 'circuits/protocols/irc/message.py'
U = 'circuits/protocols/irc/utils.py'
P = 'circuits/protocols/irc/protocol.py'
C = 'circuits/protocols/irc/commands.py'

MUTANTS = [
    # -- X: buffer not kept ------------------------------------------------------------------------
    ('c18-client-buffer-not-kept', 'C18', L, "lines, self.buffer = self.splitter(data, self.buffer)", "lines, _ = self.splitter(data, self.buffer)"),
    ('c18-server-buffer-not-updated', 'C18', L, "            self.updateBuffer(sock, buffer)\n", "            pass\n"),
    ('c18-split-tail-dropped', 'C18', L, "return lines[:-1], lines[-1]", "return lines[:-1], b''"),
    ('c18-split-tail-emitted-early', 'C18', L, "return lines[:-1], lines[-1]", "return [x for x in lines if x], b''"),
    ('c18-split-buffer-appended-after-data', 'C18', L, "LINESEP.split(buffer + s)", "LINESEP.split(s + buffer)"),
    ('c18-split-buffer-ignored', 'C18', L, "LINESEP.split(buffer + s)", "LINESEP.split(s)"),
    # -- X: buffers shared between sockets ------------------------------------------------------------
    ('c18-server-shared-buffer', 'C18', L, "lines, buffer = self.splitter(data, self.getBuffer(sock))\n            self.updateBuffer(sock, buffer)",
     "lines, buffer = self.splitter(data, self.buffer)\n            self.buffer = buffer"),
    ('c18-server-falls-back-to-last-tail', 'C18', L, "lines, buffer = self.splitter(data, self.getBuffer(sock))\n            self.updateBuffer(sock, buffer)",
     "lines, buffer = self.splitter(data, self.getBuffer(sock) or self.buffer)\n            self.updateBuffer(sock, buffer)\n            self.buffer = buffer"),
    ('c18-server-line-without-sock-identity', 'C18', L, "[self.fire(line(sock, x)) for x in lines]", "[self.fire(line(None, x)) for x in lines]"),
    # -- X: \r?\n -> \n only, and other terminator rules -------------------------------------------------
    ('c18-lf-only-separator', 'C18', L, "re.compile(b'\\r?\\n')", "re.compile(b'\\n')"),
    ('c18-crlf-only-separator', 'C18', L, "re.compile(b'\\r?\\n')", "re.compile(b'\\r\\n')"),
    ('c18-bare-cr-also-terminates', 'C18', L, "re.compile(b'\\r?\\n')", "re.compile(b'\\r\\n|\\r|\\n')"),
    ('c18-all-crs-swallowed', 'C18', L, "re.compile(b'\\r?\\n')", "re.compile(b'\\r*\\n')"),
    ('c18-empty-lines-dropped', 'C18', L, "[self.fire(line(x)) for x in lines]", "[self.fire(line(x)) for x in lines if x]"),
    ('c18-lines-reversed', 'C18', L, "[self.fire(line(sock, x)) for x in lines]", "[self.fire(line(sock, x)) for x in reversed(lines)]"),
    # -- Message: one line ------------------------------------------------------------------------------
    ('c18-lf-check-removed', 'C18', M, "        if any('\\r' in arg or '\\n' in arg for arg in fields if isinstance(arg, str)):\n            raise Error('No newline allowed')\n", ""),
    ('c18-revert-cr-check', 'C18', M, "        if any('\\r' in arg or '\\n' in arg for arg in fields if isinstance(arg, str)):", "        if any('\\n' in arg for arg in self.args if isinstance(arg, str)):"),
    ('c18-lf-check-skips-last-arg', 'C18', M, "        fields = [*self.args, str(self.command)]", "        fields = [*self.args[:-1], str(self.command)]"),
    ('c18-str-does-not-recheck', 'C18', M, "    def __str__(self):\n        self._check_args()\n", "    def __str__(self):\n"),
    ('c18-lf-terminator-only', 'C18', M, "{prefix}{command} {args}\\r\\n", "{prefix}{command} {args}\\n"),
    ('c18-double-terminator', 'C18', M, "{prefix}{command} {args}\\r\\n", "{prefix}{command} {args}\\r\\n\\r\\n"),
    ('c18-request-writes-twice', 'C18', P, "        self.fire(write(bytes(message)))\n\n    def ping", "        self.fire(write(bytes(message)))\n        self.fire(write(b'\\r\\n'))\n\n    def ping"),
    # -- Message / parsemsg: round trip ------------------------------------------------------------------
    ('c18-space-check-removed', 'C18', M, "        if any(type(arg)(' ') in arg in arg for arg in self.args[:-1] if isinstance(arg, str)):\n            raise Error('Space can only appear in the very last arg')\n", ""),
    ('c18-trailing-never-marked', 'C18', M, "if args and ' ' in args[-1] and not args[-1].startswith(':'):", "if False:"),
    ('c18-prefix-without-colon', 'C18', M, "prefix=(f':{self.prefix} ' if", "prefix=(f'{self.prefix} ' if"),
    ('c18-args-joined-without-space', 'C18', M, "args=' '.join(args),", "args=''.join(args),"),
    ('c18-none-args-kept', 'C18', M, "for arg in args if arg is not None]", "for arg in args]"),
    ('c18-bytes-args-latin1', 'C18', M, "arg if isinstance(arg, str) else arg.decode(self.encoding)", "arg if isinstance(arg, str) else arg.decode('latin-1')"),
    ('c18-parse-trailing-split-at-last-marker', 'C18', U, "s, trailing = s.split(' :', 1)", "s, trailing = s.rsplit(' :', 1)"),
    ('c18-parse-trailing-resplit', 'C18', U, "        args.append(trailing)\n", "        args.extend(trailing.split())\n"),
    ('c18-parse-prefix-not-removed', 'C18', U, "prefix, s = s[1:].split(' ', 1)", "prefix, _ = s[1:].split(' ', 1)"),
    ('c18-parse-trailing-stripped', 'C18', U, "        args.append(trailing)\n", "        args.append(trailing.strip())\n"),
    ('c18-parse-prefix-user-host-swapped', 'C18', U, "        return m.groups()\n", "        return (m.group(1), m.group(3), m.group(2))\n"),
    ('c18-every-arg-with-colon-rejected', 'C18', M, "            raise Error('No newline allowed')\n", "            raise Error('No newline allowed')\n        if any(':' in arg for arg in self.args):\n            raise Error('no colon')\n"),
    # not listed: a constructor function passing its parameters in another order (PRIVMSG(message, receivers)) - the statement
    # speaks of the message's own fields, which still round-trip: equivalent for C18.
]

"""Property-breaking mutations for C12 (DESIGN.md section 4, C12, list X, plus realistic neighbours).
Each entry: (id, property, file relative to the repository, old text, new text) - exact first-occurrence replacement."""
S = 'circuits/net/sockets.py'
P = 'circuits/core/pollers.py'

MUTANTS = [
    # X1: the membership guard of Server._close is gone: a second _close (late close(sock), close event + EOF in one tick)
    # announces the disconnect again
    ('c12-server-close-guard-removed', 'C12', S,
     "        if sock != self._sock and sock not in self._clients:\n            return\n\n        self._poller.discard(sock)",
     "        self._poller.discard(sock)"),
    # X2: the socket is not discarded from the poller when the connection ends
    ('c12-server-discard-skipped', 'C12', S,
     "            return\n\n        self._poller.discard(sock)\n\n        if sock in self._buffers:",
     "            return\n\n        if sock in self._buffers:"),
    # X3: a _read event that is still queued when the connection ends is acted upon (error event after the disconnect)
    ('c12-read-after-disconnect', 'C12', S,
     "    def _read(self, sock):\n        if sock not in self._clients:\n            return\n\n        try:\n            data = sock.recv(self._bufsize)",
     "    def _read(self, sock):\n        try:\n            data = sock.recv(self._bufsize)"),
    # X4: the socket stays in Server._clients
    ('c12-clients-remove-skipped', 'C12', S,
     "        if sock in self._clients:\n            self._clients.remove(sock)\n        else:\n            self._sock = None",
     "        if sock in self._clients:\n            pass\n        else:\n            self._sock = None"),
    # buffered data of a connection that ends is kept
    ('c12-buffers-kept-on-close', 'C12', S,
     "        if sock in self._buffers:\n            del self._buffers[sock]\n\n",
     "        if False:\n            del self._buffers[sock]\n\n"),
    # the deferred close forgets to leave the close queue
    # NOTE: becomes an equivalent mutant once proposed_fixes/C12-closeq-entry-survives-error-close.diff is applied (then _close itself
    # removes the entry); remove it from the list at that point.
    # c12-closeq-entry-kept (_on_write no longer removes the socket from _closeq before _close): equivalent since fix 'closeq entry removed in _close'
    # the disconnect is not announced
    ('c12-disconnect-not-fired', 'C12', S,
     "        with contextlib.suppress(OSError):\n            sock.close()\n\n        self.fire(disconnect(sock))\n\n    @handler('close')\n    def close(self, sock=None):",
     "        with contextlib.suppress(OSError):\n            sock.close()\n\n    @handler('close')\n    def close(self, sock=None):"),
    # the descriptor is shut down but never closed (descriptor leak while the object lives)
    ('c12-server-socket-not-closed', 'C12', S,
     "        with contextlib.suppress(OSError):\n            sock.shutdown(2)\n        with contextlib.suppress(OSError):\n            sock.close()\n\n        self.fire(disconnect(sock))\n\n    @handler('close')\n    def close(self, sock=None):",
     "        with contextlib.suppress(OSError):\n            sock.shutdown(2)\n\n        self.fire(disconnect(sock))\n\n    @handler('close')\n    def close(self, sock=None):"),
    # end of stream does not end the connection
    ('c12-server-eof-ignored', 'C12', S,
     "                self.fire(read(sock, data)).notify = True\n            else:\n                self.close(sock)",
     "                self.fire(read(sock, data)).notify = True\n            else:\n                pass"),
    # a one-byte read is swallowed
    ('c12-one-byte-read-lost', 'C12', S,
     "            data = sock.recv(self._bufsize)\n            if data:\n                self.fire(read(sock, data)).notify = True",
     "            data = sock.recv(self._bufsize)\n            if len(data) > 1:\n                self.fire(read(sock, data)).notify = True\n            elif data:\n                pass"),
    # every read is announced twice
    ('c12-read-duplicated', 'C12', S,
     "            if data:\n                self.fire(read(sock, data)).notify = True\n            else:\n                self.close(sock)",
     "            if data:\n                self.fire(read(sock, data)).notify = True\n                self.fire(read(sock, data))\n            else:\n                self.close(sock)"),
    # a read that fills the buffer exactly is cut by one byte
    ('c12-full-read-truncated', 'C12', S,
     "            data = sock.recv(self._bufsize)\n            if data:\n                self.fire(read(sock, data)).notify = True",
     "            data = sock.recv(self._bufsize)\n            if len(data) == self._bufsize:\n                data = data[:-1]\n            if data:\n                self.fire(read(sock, data)).notify = True"),
    # connect is announced twice
    ('c12-connect-twice', 'C12', S,
     "            try:\n                self.fire(connect(sock, *sock.getpeername()))\n            except OSError as exc:",
     "            try:\n                self.fire(connect(sock, *sock.getpeername()))\n                self.fire(connect(sock, *sock.getpeername()))\n            except OSError as exc:"),
    # NOT listed (equivalent for this property): dropping the _close() after a fatal read error only delays the disconnect by one
    # iteration - the errored socket stays readable (Select: recv returns b'' -> close) or reports POLLHUP (Poll/EPoll: _disconnect).
    # pollers ------------------------------------------------------------------------------------------------------
    # BasePoller.discard leaves the target entry (all pollers)
    ('c12-poller-discard-keeps-target', 'C12', P,
     "        if fd in self._write:\n            self._write.remove(fd)\n        if fd in self._targets:\n            del self._targets[fd]\n        self._read_targets.pop(fd, None)\n        self._write_targets.pop(fd, None)\n\n    def getTarget(self, fd):",
     "        if fd in self._write:\n            self._write.remove(fd)\n\n    def getTarget(self, fd):"),
    ('c12-poller-discard-keeps-role-targets', 'C12', P,
     "        self._read_targets.pop(fd, None)\n        self._write_targets.pop(fd, None)\n\n    def getTarget(self, fd):",
     "\n    def getTarget(self, fd):"),
    # Poll gets the defect EPoll has on the pinned tree (stale _map entry after discard)
    ('c12-poll-map-entry-kept', 'C12', P,
     "            super().discard(fd)\n            with contextlib.suppress(KeyError):\n                del self._map[fileno]\n\n    def addReader(self, source, fd):\n        super().addReader(source, fd)\n        self._updateRegistration(fd)",
     "            super().discard(fd)\n\n    def addReader(self, source, fd):\n        super().addReader(source, fd)\n        self._updateRegistration(fd)"),
    # BasePoller.discard forgets the write list (a connection that ends with buffered data stays listed)
    ('c12-poller-discard-keeps-writer', 'C12', P,
     "    def discard(self, fd):\n        if fd in self._read:\n            self._read.remove(fd)\n        if fd in self._write:\n            self._write.remove(fd)\n        if fd in self._targets:",
     "    def discard(self, fd):\n        if fd in self._read:\n            self._read.remove(fd)\n        if fd in self._targets:"),
    # clients ------------------------------------------------------------------------------------------------------
    # Client._close announces disconnected even when not connected (second close, close + EOF in one tick)
    ('c12-client-close-guard-removed', 'C12', S,
     "    def _close(self):\n        if not self._connected:\n            return\n\n        self._poller.discard(self._sock)",
     "    def _close(self):\n        self._poller.discard(self._sock)"),
    # end of stream does not end the client connection
    ('c12-client-eof-ignored', 'C12', S,
     "                self.fire(read(data)).notify = True\n            else:\n                self.close()",
     "                self.fire(read(data)).notify = True\n            else:\n                pass"),
    # disconnected is not announced
    ('c12-client-disconnected-not-fired', 'C12', S,
     "        with contextlib.suppress(OSError):\n            self._sock.close()\n\n        self.fire(disconnected())",
     "        with contextlib.suppress(OSError):\n            self._sock.close()"),
    # NOT listed (equivalent for this property): a Client that forgets its deferred close stays connected until the peer closes and then
    # still reports exactly one disconnected (the lost close is C11's subject).
]

"""Property-breaking mutations for C16 (DESIGN.md 3.5 and the X list of section 4, C16).
Each entry: (id, property, file relative to the repository, old text, new text)."""
import os

S = 'circuits/web/dispatchers/static.py'
H = 'circuits/web/http.py'
U = 'circuits/web/utils.py'
T = 'circuits/web/tools.py'
L = 'circuits/web/url.py'



def _has(path, text, base=os.environ.get('VERIF_MUTANT_BASE', '/repo')):
    try:
        with open(os.path.join(base, path)) as f:
            return text in f.read()
    except OSError:
        return False


# The proposed fixes (proposed_fixes/C16-*.diff) rewrite some of the mutated lines; the texts below follow whichever
# form the repository currently has, and the "reverted" mutants (which re-introduce a fixed defect) only exist once
# the corresponding fix is in the tree (their known-finding entry is then `fixed`, so nothing is attributed to it).
_CONTAIN_FIXED = _has(S, "location.startswith(os.path.join(self.docroot, ''))")
_CONTAIN = ("if location != self.docroot and not location.startswith(os.path.join(self.docroot, '')):" if _CONTAIN_FIXED
            else "if not location.startswith(os.path.dirname(self.docroot)):")
_SUFFIX_FIXED = _has(U, "start = max(content_length - int(stop), 0)")
_SUFFIX = (("start = max(content_length - int(stop), 0)", "start = max(content_length - int(stop) - 1, 0)") if _SUFFIX_FIXED else
           ("result.append((content_length - int(stop), content_length))", "result.append((content_length - int(stop) - 1, content_length))"))

MUTANTS = [
    # -- X list ---------------------------------------------------------------------------------------------------
    ('c16-unquote-twice', 'C16', S, "path = unquote(path.strip('/'))", "path = unquote(unquote(path.strip('/')))"),
    ('c16-containment-check-removed', 'C16', S,
     _CONTAIN, "if False:"),
    ('c16-stop-plus-one-dropped', 'C16', U,
     "            if (start, stop + 1) not in result:\n                result.append((start, stop + 1))",
     "            if (start, stop) not in result:\n                result.append((start, stop))"),
    # -- further realistic breaks ----------------------------------------------------------------------------------
    ('c16-containment-two-levels-up', 'C16', S,
     _CONTAIN, "if not location.startswith(os.path.dirname(os.path.dirname(self.docroot))):"),
    ('c16-content-range-off-by-one', 'C16', T,
     "response.headers['Content-Range'] = f'bytes {start}-{stop - 1}/{c_len}'",
     "response.headers['Content-Range'] = f'bytes {start}-{stop}/{c_len}'"),
    ('c16-content-range-wrong-total', 'C16', T,
     "response.headers['Content-Range'] = f'bytes {start}-{stop - 1}/{c_len}'",
     "response.headers['Content-Range'] = f'bytes {start}-{stop - 1}/{r_len}'"),
    ('c16-single-range-no-seek', 'C16', T,
     "                bodyfile.seek(start)\n                response.body = bodyfile.read(r_len)",
     "                response.body = bodyfile.read(r_len)"),
    ('c16-multipart-reads-one-more', 'C16', T, "yield bodyfile.read(stop - start)", "yield bodyfile.read(stop - start + 1)"),
    ('c16-multipart-content-range-off-by-one', 'C16', T,
     "bytes %s-%s/%s\\r\\n\\r\\n' % (start, stop - 1, c_len)", "bytes %s-%s/%s\\r\\n\\r\\n' % (start, stop, c_len)"),
    ('c16-416-not-sent', 'C16', T, "        if r == []:", "        if r == [] and False:"),
    ('c16-first-byte-at-eof-accepted', 'C16', U, "if start >= content_length:", "if start > content_length:"),
    ('c16-reversed-spec-accepted', 'C16', U,
     "            if stop < start:", "            if False and stop < start:"),
    ('c16-suffix-off-by-one', 'C16', U, _SUFFIX[0], _SUFFIX[1]),
    ('c16-default-document-from-parent', 'C16', S,
     "                    os.path.join(self.docroot, path, default),\n", "                    os.path.join(self.docroot, path, '..', default),\n"),
    ('c16-listing-of-parent', 'C16', S,
     "for item in os.listdir(directory):", "for item in os.listdir(os.path.dirname(directory)):"),
    ('c16-ranges-honoured-for-wrong-file-length', 'C16', T,
     "r = get_ranges(request.headers.get('Range'), c_len)", "r = get_ranges(request.headers.get('Range'), c_len + 1)"),
]

if not _CONTAIN_FIXED:
    # Breaks of the HTTP front end's 301 guard let '..' reach Static.  They break the property only while Static's own
    # containment test is the defective one (finding static.containment-prefix-of-parent): with the proposed fix in the
    # tree Static refuses the path itself, the property holds and these are equivalent mutants (guard removed entirely
    # then reports INCONCLUSIVE: monitor guard_redirect never reached).
    MUTANTS += [
        ('c16-http-guard-removed', 'C16', H,
     "if (path.encode(self._encoding) != _path) and (quote(path).encode(self._encoding) != _path):",
     "if False and (path.encode(self._encoding) != _path) and (quote(path).encode(self._encoding) != _path):"),
        ('c16-guard-abspath-keeps-dotdot', 'C16', L,
     "if part == b'..' and (not unsplit or unsplit.pop() is not None):", "if False:"),
        ('c16-guard-escape-skipped', 'C16', L,
     "return self.abspath().escape().lower()", "return self.abspath().lower()"),
    ]
if not _has(U, "stop = min(stop, content_length - 1)"):
    # equivalent once last-byte-pos is clamped (proposed fix C16-ranges-clamp-last-byte)
    MUTANTS.append(('c16-open-ended-one-past-eof', 'C16', U,
     "            if not stop:\n                stop = content_length - 1", "            if not stop:\n                stop = content_length"))
if _CONTAIN_FIXED:
    MUTANTS += [
        ('c16-reverted-containment-against-parent', 'C16', S, _CONTAIN, "if not location.startswith(os.path.dirname(self.docroot)):"),
        ('c16-reverted-containment-no-separator', 'C16', S, _CONTAIN, "if not location.startswith(self.docroot):"),
    ]
if _has(S, "request.path.startswith(prefix + '/')"):
    MUTANTS.append(('c16-reverted-mount-boundary', 'C16', S,
                    "if request.path != prefix and not request.path.startswith(prefix + '/'):", "if not request.path.startswith(prefix):"))
if _has(U, "stop = min(stop, content_length - 1)"):
    MUTANTS.append(('c16-reverted-clamp', 'C16', U, "stop = min(stop, content_length - 1)", "stop = stop"))
if _SUFFIX_FIXED:
    MUTANTS += [
        ('c16-reverted-suffix-bound', 'C16', U, "start = max(content_length - int(stop), 0)", "start = content_length - int(stop)"),
        ('c16-reverted-suffix-zero', 'C16', U, "if start < content_length and (start, content_length) not in result:",
         "if (start, content_length) not in result:"),
    ]
if _has(T, "except ValueError:\n            # Not a valid byte-ranges-specifier"):
    MUTANTS.append(('c16-reverted-malformed-ignored', 'C16', T, "        except ValueError:\n            # Not a valid", "        except KeyError:\n            # Not a valid"))


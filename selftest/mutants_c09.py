T = 'circuits/core/timers.py'
H = 'circuits/core/helpers.py'
E = 'circuits/core/events.py'
M = 'circuits/core/manager.py'
P = 'circuits/core/pollers.py'
MUTANTS = [
    ('c09-fires-early-tolerance', 'C09', T, "        if now >= self.expiry:", "        if now >= self.expiry - 0.05:"),
    ('c09-no-reduce-time-left', 'C09', T, "        else:\n            event.reduce_time_left(self.expiry - now)", "        else:\n            pass"),
    ('c09-one-shot-not-unregistering', 'C09', T, "            else:\n                self.unregister()\n            event.reduce_time_left(0)", "            event.reduce_time_left(0)"),
    ('c09-pending-check-dropped', 'C09', T, "            if self.unregister_pending:\n                return\n", ""),
    ('c09-persistent-reset-from-old-expiry', 'C09', T, "        self.expiry = time() + self.interval", "        self.expiry = (self.expiry or time()) + self.interval if interval is None and self.expiry else time() + self.interval"),
    ('c09-reset-does-not-restart', 'C09', T, "        self.expiry = time() + self.interval", "        self.expiry = self.expiry if (interval is None and self.expiry and self.expiry > time()) else time() + self.interval"),
    ('c09-strict-greater', 'C09', T, "        if now >= self.expiry:", "        if now > self.expiry:"),
    ('c09-time-left-only-raised', 'C09', E, "            if time_left >= 0 and (self._time_left < 0 or self._time_left > time_left):", "            if time_left >= 0 and (self._time_left < 0 or self._time_left < time_left):"),
    ('c09-fallback-waits-double', 'C09', H, "            self._continue.wait(event.time_left)", "            self._continue.wait(event.time_left * 2)"),
    # c09-fallback-ignores-budget (never sleeping) burns CPU but satisfies every clause of the statement: equivalent
    ('c09-persistent-fires-once', 'C09', T, "            if self.persist:\n                self.reset()", "            if self.persist:\n                self.expiry = None"),
    ('c09-datetime-keeps-microseconds-late', 'C09', T, "            self.interval = mktime(interval.timetuple()) - time()", "            self.interval = mktime(interval.timetuple()) - time() - 1"),
    ('c09-tasks-timeout-overrides-timer', 'C09', M, "            if isinstance(event, generate_events) and self._tasks:\n                event.reduce_time_left(TIMEOUT)", "            if isinstance(event, generate_events) and self._tasks:\n                event._time_left = TIMEOUT"),
    ('c09-min-over-timers-broken', 'C09', E, "                self._time_left = time_left\n", "                self._time_left = time_left if self._time_left < 0 else max(self._time_left, time_left)\n"),
    # the idle sleep of a poller in the tree (round 14)
    ('c09-epoll-timeout-in-milliseconds', 'C09', P, "self._poller.poll() if timeout < 0 else self._poller.poll(timeout)", "self._poller.poll() if timeout < 0 else self._poller.poll(1000 * timeout)"),
    ('c09-poll-timeout-padded', 'C09', P, "self._poller.poll(1000 * timeout)", "self._poller.poll(1000 * timeout + 50)"),
    ('c09-select-timeout-doubled', 'C09', P, "select.select(self._read, self._write, [], timeout)", "select.select(self._read, self._write, [], 2 * timeout)"),
]

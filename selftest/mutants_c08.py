M = 'circuits/core/manager.py'
MUTANTS = [
    ('c08-loop-ignores-queue', 'C08', M, "            while self.running or len(self._queue):\n                self.tick()", "            while self.running:\n                self.tick()"),
    ('c08-no-fadeout-ticks', 'C08', M, "            # Fading out, handle remaining work from stop event\n            for _ in range(3):\n                self.tick()", "            # Fading out, handle remaining work from stop event"),
    ('c08-started-per-tick', 'C08', M, "        if self._running:\n            self.fire(generate_events(self._lock, timeout), '*')", "        if self._running:\n            self.fire(started(self))\n            self.fire(generate_events(self._lock, timeout), '*')"),
    ('c08-started-not-fired', 'C08', M, "        self.fire(started(self))\n\n        try:", "        try:"),
    # c08-executing-thread-not-reset: no effect on anything the statement speaks about (equivalent)
    ('c08-exit-code-swallowed', 'C08', M, "        if code is not None:\n            raise SystemExit(code)\n\n    def processTask", "        if code is not None and code != 3:\n            raise SystemExit(code)\n\n    def processTask"),
    # the body of stop() after the repairs 43ced2c / 7e26f8d
    ('c08-stopped-fired-twice', 'C08', M, "            self.fire(stopped(self))\n\n            self._running = False\n", "            self.fire(stopped(self))\n            self.fire(stopped(self))\n\n            self._running = False\n"),
    ('c08-stop-when-not-running-fires', 'C08', M, "        if not self.running:\n            return\n\n        # For a loop running", "        # For a loop running"),
    ('c08-stopped-not-fired', 'C08', M, "            self.fire(stopped(self))\n\n            self._running = False\n", "            self._running = False\n"),
    ('c08-stop-clears-queue', 'C08', M, "            self.fire(stopped(self))\n\n            self._running = False\n", "            self._queue._queue.clear()\n            self.fire(stopped(self))\n\n            self._running = False\n"),
    ('c08-keyboardinterrupt-not-mapped', 'C08', M, "            except KeyboardInterrupt:\n                self.stop()\n            except SystemExit as e:\n                # stop; run()",
     "            except SystemExit as e:\n                # stop; run()"),
    ('c08-systemexit-in-task-ignored', 'C08', M, "        except KeyboardInterrupt:\n            self.stop()\n        except SystemExit as e:\n            if e.code is not None:\n                self.root._exitcode = e.code\n            self.stop()\n        except BaseException:\n            self.unregisterTask((event, task, parent))",
     "        except (KeyboardInterrupt, SystemExit):\n            pass\n        except BaseException:\n            self.unregisterTask((event, task, parent))"),
    # reverts of the repairs
    ('c08-revert-stopped-queued-before-flag', 'C08', M, "        with self.root._lock:\n            self.fire(stopped(self))\n\n            self._running = False\n", "        self._running = False\n\n        self.fire(stopped(self))\n"),
    ('c08-stop-steps-not-under-lock', 'C08', M, "        with self.root._lock:\n            self.fire(stopped(self))\n\n            self._running = False\n", "        self.fire(stopped(self))\n\n        self._running = False\n"),
    ('c08-stop-flag-first-under-lock', 'C08', M, "            self.fire(stopped(self))\n\n            self._running = False\n", "            self._running = False\n\n            self.fire(stopped(self))\n"),
    ('c08-revert-exitcode-deferred-dispatcher', 'C08', M, "                if e.code is not None:\n                    self.root._exitcode = e.code\n                self.stop()\n", "                self.stop(e.code)\n"),
    ('c08-revert-exitcode-deferred-task', 'C08', M, "            if e.code is not None:\n                self.root._exitcode = e.code\n            self.stop()\n", "            self.stop(e.code)\n"),
    ('c08-exitcode-not-raised-at-end-of-run', 'C08', M, "        if code is not None:\n            raise SystemExit(code)\n", "        if code is not None and False:\n            raise SystemExit(code)\n"),
    # c08-exitcode-leaks-into-next-run ("code = self._exitcode" without clearing): equivalent, run() resets the field when it starts
    ('c08-exitcode-not-reset-at-start-of-run', 'C08', M, "        self._running = True\n        self._exitcode = None\n", "        self._running = True\n"),
]

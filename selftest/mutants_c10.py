P = 'circuits/core/pollers.py'
POLL_MASK = "        if fd in self._read:\n            mask = mask | select.POLLIN\n        if fd in self._write:\n            mask = mask | select.POLLOUT\n"
EPOLL_MASK = "        if fd in self._read:\n            mask = mask | select.EPOLLIN\n        if fd in self._write:\n            mask = mask | select.EPOLLOUT\n"
MUTANTS = [
    # X: mask recomputation keeping only the last role
    ('c10-poll-mask-only-last-role', 'C10', P, POLL_MASK, "        if fd in self._read:\n            mask = select.POLLIN\n        if fd in self._write:\n            mask = select.POLLOUT\n"),
    ('c10-epoll-mask-only-last-role', 'C10', P, EPOLL_MASK, "        if fd in self._read:\n            mask = select.EPOLLIN\n        if fd in self._write:\n            mask = select.EPOLLOUT\n"),
    ('c10-epoll-mask-writer-hides-reader', 'C10', P, EPOLL_MASK, "        if fd in self._write:\n            mask = select.EPOLLOUT\n        elif fd in self._read:\n            mask = select.EPOLLIN\n"),
    # X: removeWriter also removing the reader
    ('c10-removewriter-also-removes-reader', 'C10', P, "    def removeWriter(self, fd):\n        if fd in self._write:\n            self._write.remove(fd)\n", "    def removeWriter(self, fd):\n        if fd in self._write:\n            self._write.remove(fd)\n        if fd in self._read:\n            self._read.remove(fd)\n"),
    ('c10-removereader-keeps-reader', 'C10', P, "    def removeReader(self, fd):\n        if fd in self._read:\n            self._read.remove(fd)\n", "    def removeReader(self, fd):\n        if fd in self._read and fd in self._write:\n            self._read.remove(fd)\n"),
    # X: isReading filter removed in Select - only observable when the loop also sees descriptors select() was not asked to read
    ('c10-select-read-loop-over-writers-no-filter', 'C10', P, "        for sock in r:\n            if sock == self._ctrl_recv:\n                self._read_ctrl()\n                continue\n            if self.isReading(sock):\n", "        for sock in r + w:\n            if sock == self._ctrl_recv:\n                self._read_ctrl()\n                continue\n            if True:\n"),
    ('c10-select-write-filter-uses-isreading', 'C10', P, "            if self.isWriting(sock):\n                self.fire(_write(sock), self.getTarget(sock))", "            if self.isReading(sock):\n                self.fire(_write(sock), self.getTarget(sock))"),
    ('c10-select-preen-does-not-discard', 'C10', P, "                except Exception:\n                    self.discard(sock)", "                except Exception:\n                    pass"),
    # addressing
    ('c10-addwriter-does-not-set-target', 'C10', P, "        self._write.append(fd)\n        self._targets[fd] = self._write_targets[fd] = channel", "        self._write.append(fd)\n        self._targets.setdefault(fd, self.parent)"),
    ('c10-revert-target-follows-remaining-role', 'C10', P, "            if fd in self._read and fd in self._read_targets:\n                self._targets[fd] = self._read_targets[fd]", "            pass"),
    ('c10-addwriter-keeps-first-target', 'C10', P, "        self._targets[fd] = self._write_targets[fd] = channel", "        self._write_targets[fd] = channel\n        self._targets.setdefault(fd, channel)"),
    ('c10-removereader-deletes-target-while-writer', 'C10', P, "                self._targets[fd] = self._write_targets[fd]\n        if not (fd in self._read or fd in self._write) and fd in self._targets:", "                self._targets[fd] = self._write_targets[fd]\n        if fd in self._targets:"),
    ('c10-gettarget-always-parent', 'C10', P, "        return self._targets.get(fd, self.parent)", "        return self.parent"),
    # discard
    ('c10-discard-keeps-writer', 'C10', P, "    def discard(self, fd):\n        if fd in self._read:\n            self._read.remove(fd)\n        if fd in self._write:\n            self._write.remove(fd)\n", "    def discard(self, fd):\n        if fd in self._read:\n            self._read.remove(fd)\n"),
    ('c10-poll-discard-no-unregister', 'C10', P, "    def discard(self, fd):\n        super().discard(fd)\n        self._updateRegistration(fd)\n\n    def _generate_events(self, event):\n        try:\n            timeout = event.time_left\n            ll = self._poller.poll() if timeout < 0 else self._poller.poll(1000 * timeout)", "    def discard(self, fd):\n        super().discard(fd)\n\n    def _generate_events(self, event):\n        try:\n            timeout = event.time_left\n            ll = self._poller.poll() if timeout < 0 else self._poller.poll(1000 * timeout)"),
    ('c10-epoll-removewriter-no-update', 'C10', P, "    def removeWriter(self, fd):\n        super().removeWriter(fd)\n        self._updateRegistration(fd)\n\n    def discard(self, fd):\n        super().discard(fd)\n        self._updateRegistration(fd)\n\n    def _generate_events(self, event):\n        try:\n            timeout = event.time_left\n            ll = self._poller.poll() if timeout < 0 else self._poller.poll(timeout)", "    def removeWriter(self, fd):\n        super().removeWriter(fd)\n\n    def discard(self, fd):\n        super().discard(fd)\n        self._updateRegistration(fd)\n\n    def _generate_events(self, event):\n        try:\n            timeout = event.time_left\n            ll = self._poller.poll() if timeout < 0 else self._poller.poll(timeout)"),
    ('c10-poll-map-deleted-on-role-removal', 'C10', P, "            self._poller.register(fd, mask)\n            self._map[fileno] = fd\n        else:\n            super().discard(fd)\n            with contextlib.suppress(KeyError):", "            self._poller.register(fd, mask)\n            self._map[fileno] = fd\n            if mask != select.POLLIN | select.POLLOUT and fd is not self._ctrl_recv and len(self._map) > 2:\n                del self._map[fileno]\n        else:\n            super().discard(fd)\n            with contextlib.suppress(KeyError):"),
    ('c10-poll-map-keeps-first-object-for-a-number', 'C10', P, "            self._poller.register(fd, mask)\n            self._map[fileno] = fd\n        else:\n            super().discard(fd)\n            with contextlib.suppress(KeyError):",
     "            self._poller.register(fd, mask)\n            self._map.setdefault(fileno, fd)\n        else:\n            super().discard(fd)\n            with contextlib.suppress(KeyError):"),
    # hang-up handling
    ('c10-poll-hup-wins-over-pending-data', 'C10', P, "        if event & self._disconnected_flag and not (event & select.POLLIN):\n            self.fire(_disconnect(fd), self.getTarget(fd))\n            self._poller.unregister(fileno)\n            super().discard(fd)\n            del self._map[fileno]\n        else:\n            try:\n                if event & select.POLLIN:", "        if event & self._disconnected_flag:\n            self.fire(_disconnect(fd), self.getTarget(fd))\n            self._poller.unregister(fileno)\n            super().discard(fd)\n            del self._map[fileno]\n        else:\n            try:\n                if event & select.POLLIN:"),
    ('c10-epoll-disconnect-on-plain-write-readiness', 'C10', P, "        self._disconnected_flag = select.EPOLLHUP | select.EPOLLERR\n", "        self._disconnected_flag = select.EPOLLHUP | select.EPOLLERR | select.EPOLLOUT\n"),
    ('c10-poll-read-event-reported-as-write', 'C10', P, "                if event & select.POLLOUT:\n                    self.fire(_write(fd), self.getTarget(fd))", "                if event & (select.POLLOUT | select.POLLIN):\n                    self.fire(_write(fd), self.getTarget(fd))"),
    ('c10-epoll-write-not-reported-with-read', 'C10', P, "                if event & select.EPOLLOUT:\n                    self.fire(_write(fd), self.getTarget(fd))", "                if event & select.EPOLLOUT and not event & select.EPOLLIN:\n                    self.fire(_write(fd), self.getTarget(fd))"),
    ('c10-revert-discard-after-close-fix', 'C10', 'circuits/core/pollers.py',
     "        if fileno < 0:\n            # already closed: use the number it was registered under\n            fileno = next((k for k, v in self._map.items() if v is fd), fileno)\n",
     ""),
    ('c10-revert-stale-number-fix', 'C10', 'circuits/core/pollers.py',
     "        if not isinstance(fd, int) and fd.fileno() != fileno:\n            # closed without discard() and the number is in use again: not ours\n            event = select.POLLNVAL\n",
     ""),
]
# Not listed (equivalent for C10's observables, tried and MISSED for that reason):
# * "_targets not deleted on discard" (X list): every later registration overwrites _targets[fdand nothing is emitted for an
#   unregistered descriptor, so the stale entry is never read; it is a retention (C12's subject).  Its mirror image "addReader
#   uses setdefault for the target" was equivalent as long as one component held all registrations of a descriptor; since two-component
#   histories are admitted (seeded change C10-8) it is listed as c10-addwriter-keeps-first-target.  The observable slips of the target map
#   are listed: c10-addwriter-does-not-set-target, c10-removereader-deletes-target-while-writer, c10-gettarget-always-parent.
# * "isReading filter removed in Select" alone (X list): select() is only asked about self._read, so whatever it returns as
#   readable passes the filter; likewise widening the list passed to select() alone is masked by the filter.  The combination
#   (the loop sees descriptors that are not readers and does not filter) is listed as c10-select-read-loop-over-writers-no-filter.

"""Property-breaking mutations for C14 (DESIGN.md section 4, C14, list X, plus realistic neighbours).
Each entry: (id, property, file relative to the repository, old text, new text) - exact first-occurrence replacement."""
H = 'circuits/web/http.py'
P = 'circuits/web/parsers/http.py'
W = 'circuits/web/wrappers.py'
E = 'circuits/web/errors.py'

MUTANTS = [
    # X1: the 400 path (parser error before the headers are complete) no longer drops the parser.
    # NOTE: this one and the next are property-breaking only while HTTP._on_disconnect does not drop _buffers[sock] itself; once
    # proposed_fixes/C14-parser-retained-after-disconnect.diff is applied the disconnect that follows the close cleans up and both
    # become equivalent mutants (remove them then).
    # c14-400-path-keeps-parser / c14-nohost-400-keeps-parser: equivalent since fix aff3647 (the disconnect that follows the close now
    # drops the parser); replaced by the revert of that fix:
    ('c14-revert-disconnect-drops-parser', 'C14', H,
     "        if sock in self._buffers:\n            del self._buffers[sock]\n\n    @handler('read')  # noqa",
     "\n    @handler('read')  # noqa"),
    ('c14-revert-invalid-content-length', 'C14', 'circuits/web/parsers/http.py',
     "            if not (clen.isascii() and clen.isdigit()):\n                raise InvalidHeader('invalid Content-Length %s' % clen)\n",
     "            if False:\n                pass\n"),
    ('c14-revert-400-version', 'C14', H,
     "                res.protocol = 'HTTP/{:d}.{:d}'.format(*(min(rp, sp) if rp[0] == sp[0] else sp))\n", ""),
    ('c14-revert-505-version', 'C14', H,
     "                res.protocol = 'HTTP/{:d}.{:d}'.format(*sp)\n                return self.fire(httperror(req, res, 505))",
     "                return self.fire(httperror(req, res, 505))"),
    ('c14-revert-value-ctl-check', 'C14', 'circuits/web/parsers/http.py',
     "            if VALUE_CTL_RE.search(value):\n                raise InvalidHeader('invalid character in value of header %s' % name)\n",
     ""),
    # X2: httperror no longer closes the connection (what stays behind on the 500/505 paths then answers the next request)
    ('c14-httperror-not-closing', 'C14', E, "        self.response.close = True\n        self.response.status = self.code", "        self.response.status = self.code"),
    # X3: exception handler removed: a handler error is answered by nothing
    ('c14-exception-handler-removed', 'C14', H, "    @handler('exception')\n    def _on_exception(self, *args, **kwargs):", "    @handler('exception_disabled')\n    def _on_exception(self, *args, **kwargs):"),
    # disconnect handler no longer drops the (request, response) pair
    ('c14-disconnect-keeps-clients', 'C14', H, "    def _on_disconnect(self, sock):\n        if sock in self._clients:\n            del self._clients[sock]",
     "    def _on_disconnect(self, sock):\n        if sock in self._clients:\n            pass"),
    # parser errors before the headers are complete are ignored (a complete bad request is never answered)
    ('c14-parser-errno-ignored', 'C14', H, "            if parser.errno is not None:\n                if parser.errno == BAD_FIRST_LINE:", "            if False:\n                if parser.errno == BAD_FIRST_LINE:"),
    # rejected message dispatched all the same (missing Host)
    ('c14-nohost-rejected-but-dispatched', 'C14', H,
     "            del self._buffers[sock]\n            return self.fire(httperror(req, res, 400, description='No host header defined'))",
     "            self.fire(httperror(req, res, 400, description='No host header defined'))"),
    # missing-Host check removed
    ('c14-nohost-check-removed', 'C14', H, "        if req.protocol != (1, 0) and not req.headers.get('Host'):", "        if False:"),
    # major-version check removed
    ('c14-505-check-removed', 'C14', H, "            if rp[0] != sp[0]:\n                # the major HTTP version differs", "            if False:\n                # the major HTTP version differs"),
    # header line without colon tolerated
    ('c14-header-without-colon-accepted', 'C14', P, "            if curr.find(':') < 0:\n                raise InvalidHeader('invalid line %s' % curr.strip())", "            if curr.find(':') < 0:\n                continue"),
    # invalid characters in header names tolerated
    ('c14-header-name-check-removed', 'C14', P, "            if HEADER_RE.search(name):\n                raise InvalidHeader('invalid header name %s' % name)", "            if False:\n                raise InvalidHeader('invalid header name %s' % name)"),
    # invalid version token tolerated
    ('c14-version-check-removed', 'C14', P,
     "        match = VERSION_RE.match(bits[2])\n        if match is None:\n            raise InvalidRequestLine('Invalid HTTP version: %s' % bits[2])\n        self._version = (int(match.group(1)), int(match.group(2)))",
     "        match = VERSION_RE.match(bits[2])\n        self._version = (int(match.group(1)), int(match.group(2))) if match else (1, 1)"),
    # error responses keep status 200
    ('c14-httperror-status-not-set', 'C14', E, "        self.response.close = True\n        self.response.status = self.code", "        self.response.close = True"),
    # announced close not performed
    ('c14-announced-close-not-fired', 'C14', H, "            if not res.stream:\n                if res.close:\n                    self.fire(close(sock))", "            if not res.stream:\n                if False:\n                    self.fire(close(sock))"),
    # Content-Length of the response off by one (the response never completes)
    ('c14-response-content-length-wrong', 'C14', W, "            self.headers['Content-Length'] = str(cLength)", "            self.headers['Content-Length'] = str(cLength + 1)"),
    # status line without the reason phrase separator
    ('c14-status-line-malformed', 'C14', W, "        return f'{self.protocol} {self.status}\\r\\n'", "        return f'{self.protocol}  {self.status}\\r\\n'"),
    # the exception path raises itself for read events (unanswered exception)
    ('c14-exception-path-ignores-read-events', 'C14', H, "        elif len(fevent.args) == 2 and isinstance(fevent.args[0], socket):", "        elif False:"),
]

M = 'circuits/core/manager.py'
C = 'circuits/core/components.py'
MUTANTS = [
    ('c07-updateroot-no-recursion', 'C07', C, "        self.root = root\n        for c in self.components:\n            c._updateRoot(root)", "        self.root = root"),
    ('c07-drainfrom-dropped', 'C07', M, "        self.root._queue.drainFrom(component._queue)\n", ""),
    ('c07-unregistered-fired-twice', 'C07', C, "        self.fire(unregistered(self, self.parent))\n", "        self.fire(unregistered(self, self.parent))\n        self.fire(unregistered(self, self.parent))\n"),
    ('c07-pending-never-cleared', 'C07', C, "        delattr(self, '_unregister_pending')\n", ""),
    ('c07-registered-for-self-register', 'C07', C, "        if parent is not self:\n            parent.registerChild(self)\n            self._updateRoot(parent.root)\n            self.fire(registered(self, self.parent))\n        else:\n            self._updateRoot(parent.root)", "        if parent is not self:\n            parent.registerChild(self)\n        self._updateRoot(parent.root)\n        self.fire(registered(self, self.parent))"),
    ('c07-registered-not-fired', 'C07', C, "            self._updateRoot(parent.root)\n            self.fire(registered(self, self.parent))", "            self._updateRoot(parent.root)"),
    ('c07-child-not-removed-from-parent', 'C07', C, "            self.parent.unregisterChild(self)\n            self.parent = self", "            self.parent = self"),
    ('c07-parent-link-kept-on-detach', 'C07', C, "            self.parent.unregisterChild(self)\n            self.parent = self", "            self.parent.unregisterChild(self)"),
    ('c07-root-not-updated-on-detach', 'C07', C, "        self._updateRoot(self)\n        # The detached", "        self.root = self\n        # The detached"),
    ('c07-root-not-updated-on-register', 'C07', C, "            parent.registerChild(self)\n            self._updateRoot(parent.root)", "            parent.registerChild(self)"),
    ('c07-unregistered-after-detach-lost', 'C07', C, "        delattr(self, '_unregister_pending')\n        self.fire(unregistered(self, self.parent))\n\n        if self.parent is not self:\n            self.parent.unregisterChild(self)\n            self.parent = self\n\n        self._updateRoot(self)", "        delattr(self, '_unregister_pending')\n\n        if self.parent is not self:\n            self.parent.unregisterChild(self)\n            self.parent = self\n\n        self._updateRoot(self)\n        self.fire(unregistered(self, self.parent))"),
    ('c07-queue-drained-to-parent-not-root', 'C07', M, "        self.root._queue.drainFrom(component._queue)\n", "        self._queue.drainFrom(component._queue)\n"),
]

"""Property-breaking mutations for C13 (DESIGN.md section 4, C13, list X, plus realistic neighbours).
Each entry: (id, property, file relative to the repository, old text, new text) - exact first-occurrence replacement."""
P = 'circuits/web/parsers/http.py'
H = 'circuits/web/http.py'
C = 'circuits/protocols/http.py'

MUTANTS = [
    # X1: carry-over buffer dropped between execute() calls while the header block is incomplete
    ('c13-headers-buf-cleared', 'C13', P,
     "            elif not self.__on_headers_complete:\n                if data:\n                    self._buf.append(data)",
     "            elif not self.__on_headers_complete:\n                if data:\n                    self._buf = [data]"),
    # ... and while the first line is incomplete
    # c13-firstline-buf-cleared: equivalent since fix 58f54e0 (the buffered start of the line is joined into `data` and _buf emptied
    # before the search, so `_buf = [data]` and `_buf.append(data)` are the same thing); replaced by the revert of that fix:
    ('c13-revert-firstline-join', 'C13', P,
     "                if self._buf:  # the CR and LF ending the first line may arrive in different reads\n                    data = b''.join(self._buf) + data\n                    self._buf = []\n",
     ""),
    # ... and while a chunk is incomplete
    ('c13-body-buf-cleared', 'C13', P,
     "                if data:\n                    self._buf.append(data)\n                    data = b''\n\n                ret = self._parse_body()",
     "                if data:\n                    self._buf = [data]\n                    data = b''\n\n                ret = self._parse_body()"),
    # X2: remaining Content-Length not decremented
    ('c13-clen-rest-not-decremented', 'C13', P, "            self._clen_rest -= len(body_part)", "            pass"),
    # remaining length decremented from the full length on every read
    ('c13-clen-rest-reset-each-read', 'C13', P, "            self._clen_rest -= len(body_part)", "            self._clen_rest = self._clen - len(body_part)"),
    # X3: header block split on the first CRLF only
    ('c13-headers-end-at-first-crlf', 'C13', P,
     "        idx = data.find(b'\\r\\n\\r\\n')\n        if idx < 0:  # we don't have all headers",
     "        idx = data.find(b'\\r\\n')\n        if idx < 0:  # we don't have all headers"),
    # body parts of earlier reads dropped
    ('c13-body-parts-dropped', 'C13', P,
     "            self._partial_body = True\n            self._body.append(body_part)\n            self._buf = []",
     "            self._partial_body = True\n            self._body = [body_part]\n            self._buf = []"),
    # chunk data's CRLF not consumed
    ('c13-chunk-crlf-not-consumed', 'C13', P, "        self._buf = [rest[2:]]\n        return len(rest)", "        self._buf = [rest]\n        return len(rest)"),
    # chunk accepted before its terminator arrived
    ('c13-chunk-terminator-not-awaited', 'C13', P,
     "        if len(rest) < 2:\n            self.errno = INVALID_CHUNK\n            self.errstr = 'chunk missing terminator [%s]' % data\n            return -1",
     "        if len(rest) < 2:\n            rest = rest + b'\\r\\n'"),
    # chunk sizes read as decimal
    ('c13-chunk-size-decimal', 'C13', P, "chunk_size = int(chunk_size, 16)", "chunk_size = int(chunk_size, 10)"),
    # continuation lines: only SP recognised
    ('c13-fold-tab-ignored', 'C13', P, "lines[0].startswith((' ', '\\t'))", "lines[0].startswith(' ')"),
    # server: parser recreated for every read
    ('c13-server-parser-per-read', 'C13', H,
     "        if sock in self._buffers:\n            parser = self._buffers[sock]",
     "        if False:\n            parser = self._buffers[sock]"),
    # server: request dispatched before a Content-Length body is complete
    ('c13-server-dispatch-before-cl-body', 'C13', H,
     "        if (clen or parser.is_chunked()) and not parser.is_message_complete():",
     "        if parser.is_chunked() and not parser.is_message_complete():"),
    # server: request dispatched before a chunked body is complete
    ('c13-server-dispatch-before-chunked-body', 'C13', H,
     "        if (clen or parser.is_chunked()) and not parser.is_message_complete():",
     "        if clen and not parser.is_message_complete():"),
    ('c13-revert-chunked-name-case', 'C13', H,
     "        if (clen or parser.is_chunked()) and not parser.is_message_complete():",
     "        if (clen or req.headers.get('Transfer-Encoding') == 'chunked') and not parser.is_message_complete():"),
    ('c13-revert-zero-chunk-tail', 'C13', P,
     "            if rest_chunk[:2] != b'\\r\\n' and rest_chunk.find(b'\\r\\n\\r\\n') < 0:\n                return None, None  # the final CRLF / trailer section has not arrived yet\n",
     ""),
    # server: parser kept after the request was dispatched (next keep-alive request hits a finished parser)
    ('c13-server-parser-kept-after-dispatch', 'C13', H,
     "        req.body = BytesIO(parser.recv_body())\n        del self._buffers[sock]",
     "        req.body = BytesIO(parser.recv_body())"),
    # client: response fired as soon as the headers are complete
    ('c13-client-fires-on-headers', 'C13', C,
     "            self._parser.is_message_complete()\n            or self._parser.is_upgrade()",
     "            self._parser.is_headers_complete()\n            or self._parser.is_upgrade()"),
    # client: parser not renewed after a response (second keep-alive response lost / merged)
    ('c13-client-parser-not-renewed', 'C13', C,
     "            self.fire(response(res))\n\n            # TODO: This sucks :/ Avoiding the circuit import here :/\n            from circuits.web.parsers import HttpParser\n\n            self._parser = HttpParser(1, True)",
     "            self.fire(response(res))"),
    # client: parser renewed on every read
    ('c13-client-parser-per-read', 'C13', C,
     "    def _on_client_read(self, data):\n        self._parser.execute(data, len(data))",
     "    def _on_client_read(self, data):\n        from circuits.web.parsers import HttpParser\n        self._parser = HttpParser(1, True)\n        self._parser.execute(data, len(data))"),
    # DESIGN X4 "_clients[sock] recreated per read" is an EQUIVALENT mutant for this property and is therefore not listed:
    # the Request/Response pair is rebuilt from the same parser fields, the request event is fired once with the
    # last pair and carries identical method/path/qs/protocol/headers/body; nothing observable (events, bytes
    # written, closes) changes.  Verified by running it (`if False:` instead of `if sock in self._clients:`): the quick tier stays silent, as it should.
    ('c13-parser-of-any-connection-used', 'C13', 'circuits/web/http.py', '        if sock in self._buffers:\n            parser = self._buffers[sock]\n        else:', '        if self._buffers:\n            parser = next(iter(self._buffers.values()))\n            self._buffers.setdefault(sock, parser)\n        else:'),
]

"""Property-breaking mutations for C19 (DESIGN.md section 4, C19, list X, plus realistic ones).
Each entry: (id, property, file relative to the repository, old text, new text)."""
P = 'circuits/node/protocol.py'
U = 'circuits/node/utils.py'

MUTANTS = [
    # --- X: META_EXCLUDE emptied / not applied --------------------------------------------------------
    ('c19-meta-exclude-emptied', 'C19', U, "META_EXCLUDE = set(dir(Event()))", "META_EXCLUDE = set()"),
    ('c19-meta-exclude-not-applied-on-load-event', 'C19', U, "        if k.startswith('__') or k in META_EXCLUDE:\n            continue",
     "        if k.startswith('__'):\n            continue"),
    ('c19-meta-exclude-not-applied-on-load-value', 'C19', U, "if not k.startswith('__') and k not in META_EXCLUDE}", "if not k.startswith('__')}"),
    ('c19-meta-exclude-without-success-channels', 'C19', U, "META_EXCLUDE.add('success_channels')\n", ""),
    ('c19-meta-exclude-misses-one-attr', 'C19', U, "META_EXCLUDE.add('success_channels')\n", "META_EXCLUDE.add('success_channels')\nMETA_EXCLUDE.discard('waitingHandlers')\n"),
    # --- X: firewall result ignored ----------------------------------------------------------------
    ('c19-send-firewall-ignored', 'C19', P, "if self.__send_event_firewall and not self.__send_event_firewall(event, self.__sock):",
     "if self.__send_event_firewall and not self.__send_event_firewall(event, self.__sock) and False:"),
    ('c19-recv-firewall-ignored', 'C19', P, "if self.__receive_event_firewall and not self.__receive_event_firewall(event, self.__sock):",
     "if self.__receive_event_firewall and not self.__receive_event_firewall(event, self.__sock) and False:"),
    ('c19-recv-firewall-inverted', 'C19', P, "if self.__receive_event_firewall and not self.__receive_event_firewall(event, self.__sock):",
     "if self.__receive_event_firewall and self.__receive_event_firewall(event, self.__sock):"),
    ('c19-send-firewall-still-transmits', 'C19', P, "            yield Value(event, self)\n\n        else:",
     "            self._Protocol__send(dump_event(event, 0).encode('utf-8') + DELIMITER)\n            yield Value(event, self)\n\n        else:"),
    # --- X: id counter not incremented ---------------------------------------------------------------
    ('c19-id-counter-not-incremented', 'C19', P, "            self.__nid += 1\n", "            pass\n"),
    ('c19-dump-event-id-constant', 'C19', U, "        'id': id,\n        'name': e.name,", "        'id': 0,\n        'name': e.name,"),
    ('c19-result-sent-with-wrong-id', 'C19', P, "        value.node_call_id = id\n", "        value.node_call_id = id + 1\n"),
    ('c19-inflight-table-keyed-constant', 'C19', P, "                self.__events[id] = event\n                while not hasattr(self.__events[id], 'remote_finish'):",
     "                self.__events[id] = self.__events.get(0, event)\n                while not hasattr(self.__events[id], 'remote_finish'):"),
    # --- buffer handling / exactly once ------------------------------------------------------------------
    ('c19-buffer-not-cleared', 'C19', P, "            packets.append(self.__buffer)\n            self.__buffer = b''\n",
     "            packets.append(self.__buffer)\n"),
    ('c19-tail-always-taken-for-complete', 'C19', P, "        try:\n            json.loads(self.__buffer)\n        except (ValueError, RecursionError):\n            pass\n        else:\n            packets.append(self.__buffer)\n            self.__buffer = b''\n",
     "        packets.append(self.__buffer)\n        self.__buffer = b''\n"),
    ('c19-call-fired-twice', 'C19', P, "            self.fire(event, *event.channels)\n", "            self.fire(event, *event.channels)\n            self.fire(event, *event.channels)\n"),
    ('c19-no-delimiter-on-send', 'C19', P, "            packet = dump_event(event, id).encode('utf-8') + DELIMITER", "            packet = dump_event(event, id).encode('utf-8')"),
    # --- result routing ------------------------------------------------------------------------------------
    ('c19-success-channels-not-set', 'C19', P, "            event.success_channels = ('node_result',)\n", ""),
    ('c19-success-not-forced', 'C19', P, "            event.success = True  # fire %s_success event\n", ""),
    ('c19-result-value-dropped', 'C19', P, "            ev.value.setValue(value)\n", "            ev.value.setValue(None)\n"),
    ('c19-sender-never-waits', 'C19', P, "            if not getattr(event, 'node_without_result', False):", "            if False:"),
    ('c19-server-writes-without-sock', 'C19', P, "            self.fire(write(self.__sock, packet))", "            self.fire(write(packet))"),
    # --- serialisation -------------------------------------------------------------------------------------
    ('c19-dump-event-drops-kwargs', 'C19', U, "        'kwargs': e.kwargs,", "        'kwargs': {},"),
    ('c19-dump-event-drops-channels', 'C19', U, "        'channels': e.channels,", "        'channels': (),"),
    ('c19-load-event-success-flag-lost', 'C19', U, "    e.success = bool(data['success'])", "    e.success = False"),
    ('c19-load-event-failure-from-success', 'C19', U, "    e.failure = bool(data['failure'])", "    e.failure = bool(data['success'])"),
    ('c19-dump-event-notify-from-success', 'C19', U, "        'notify': e.notify,", "        'notify': e.success,"),
    ('c19-load-event-channels-lost', 'C19', U, "    e.channels = tuple(data['channels'])", "    e.channels = ()"),
    ('c19-load-event-args-reversed', 'C19', U, "    args = data['args']", "    args = data['args'][::-1]"),
    ('c19-dump-value-errors-dropped', 'C19', U, "        'errors': v.errors,", "        'errors': False,"),
    ('c19-load-value-id-as-str', 'C19', U, "    return data['value'], data['id'], data['errors'], meta", "    return data['value'], str(data['id']), data['errors'], meta"),
    # Not listed (equivalent with respect to the statement on this tree):
    #  * narrowing the except tuples of __process_packet_call/_value: the exception then surfaces inside the 'read'
    #    handler, where the dispatcher catches it - the loop survives, the property says nothing about the hostile
    #    peer's own connection;
    #  * dropping 'ev.errors = error': no code path of the pinned tree ever sends errors=True (known finding
    #    node.remote-failure-never-answered), so the flag is always False;
    #  * removing send_result() for events rejected by the receive firewall: what a rejected sender sees is not
    #    part of the statement.
]

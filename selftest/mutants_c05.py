M = 'circuits/core/manager.py'
MUTANTS = [
    ('c05-effects-not-incremented', 'C05', M, "                self._currently_handling.effects += 1\n", "                pass\n"),
    ('c05-complete-at-negative', 'C05', M, "            if event.effects > 0:\n                break  # some nested events remain to be completed", "            if event.effects > 1:\n                break  # some nested events remain to be completed"),
    ('c05-cause-not-deleted', 'C05', M, "            delattr(event, 'cause')\n            delattr(event, 'effects')", "            pass"),
    ('c05-effects-loop-forever', 'C05', M, "            delattr(event, 'cause')\n            delattr(event, 'effects')", "            event.effects = 1"),
    ('c05-cause-chain-not-walked', 'C05', M, "            # cause has one of its nested events done, decrement and check\n            event = cause", "            # cause has one of its nested events done, decrement and check\n            break"),
    ('c05-revert-cancelled-fix', 'C05', M, "            # must not wait for it forever.\n            self._effectsDone(event)\n            return", "            # must not wait for it forever.\n            return"),
    ('c05-revert-generator-step-fix', 'C05', M, "        self._currently_handling = event\n        try:\n            value = next(task)", "        try:\n            value = next(task)"),
    ('c05-revert-generator-raise-fix', 'C05', M, "            if event.waitingHandlers <= 0:\n                event.waitingHandlers = 0\n                self._eventDone(event, err)", "            if event.waitingHandlers <= 0:\n                event.waitingHandlers = 0"),
    # c05-complete-for-cancelled-event: equivalent (the statement promises nothing about a cancelled event's own complete)
    ('c05-child-not-linked-when-nested-complete', 'C05', M, "            if not getattr(event, 'cause', None):\n                event.cause = event", "            event.cause = event"),
    ('c05-complete-fired-twice-on-stop', 'C05', M, "            if event.stopped:\n                break  # Stop further event processing", "            if event.stopped:\n                self._effectsDone(event)\n                break  # Stop further event processing"),
    ('c05-raise-skips-effects', 'C05', M, "        self._currently_handling = handling\n        self._eventDone(event, err)", "        self._currently_handling = handling\n        if err is None or not getattr(event, 'cause', None):\n            self._eventDone(event, err)"),
    # revert of repair 2e2b7b6
    ('c05-revert-tick-marks-thread-for-tasks', 'C05', M, "                self._flushing_thread = current_thread()\n                for task in self._tasks.copy():", "                for task in self._tasks.copy():"),
    ('c05-sleeping-handler-not-counted-as-waiting', 'C05', M, '                # TODO: The subtask is considered a "waiting handler"\n                event.waitingHandlers += 1\n', '                # TODO: The subtask is considered a "waiting handler"\n'),
    ('c05-revert-nested-flush-fix', 'C05', M, '        self._currently_handling = handling\n        self._eventDone(event, err)', '        self._currently_handling = None\n        self._eventDone(event, err)'),
]

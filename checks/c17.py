"""C17 - WebSocket frames round-trip exactly, whatever the segmentation or fragmentation.

The real ``circuits.protocols.websocket.WebSocketCodec`` (server mode bound to a socket, client
mode without) is registered under a ``vlib.inject.Wire``.  Inbound: raw ``read`` events carrying
frames produced by the independent encoder of ``vlib.ref_ws`` are injected, cut at arbitrary
offsets; the decoded ``read`` events the codec fires on its ``ws`` channel are recorded.  Outbound:
``write`` / ``close`` events are fired on the ``ws`` channel and the frames the codec emits on the
parent's channel are decoded by the independent decoder in the role of a conforming peer.
See DESIGN.md section 4, C17.
"""
import copy
import itertools
import random
from collections import Counter

from vlib import ref_ws as R
from vlib.batch import Batch, unjson

PROPERTY = 'C17'
LEVEL = 'exploration'
RULE = ('fixed corpus (every payload length of {0,1,125,126,127,65535,65536,70000} x text/binary x server/client in both '
        'directions, fragmentations with interleaved ping/pong, closing handshakes followed by frames and writes, client '
        'constructor data, two sockets, codecs created by the real HTTP upgrade handshake of WebSocketsDispatcher) + every single cut (and, thorough, every pair of cuts in header regions) of a family of '
        'short streams + byte-at-a-time deliveries + seeded random cases (1-6 messages, 1-6 fragments, random masks, random '
        'cuts biased to header/extended-length/mask offsets, writes and closes between reads); non-trivial = a read boundary '
        'falls strictly inside a frame, or a message is fragmented, or a message is written and decoded by the reference peer; '
        'distinct = hash of the declarative case')
ASSUMPTIONS = [
    'the peer is conforming: client frames masked, server frames unmasked, valid UTF-8 in text messages, control frames <= 125 bytes and unfragmented',
    'every injected read event is settled before the next one (the codec is single-threaded by construction)',
    'messages and pings that complete after the endpoint itself sent a close frame but before the peer\'s close frame may or may not be delivered/answered (RFC 6455 allows both); only exact-or-absent is required of them',
    'frames after the peer\'s close frame are sent by the harness on purpose (a non-conforming tail) to observe that nothing is delivered after a close frame',
    'the closing handshake itself (echoing the close frame, closing the transport) and the masking of the codec\'s own close frame are counted but not asserted',
]
REQUIRED = ['ref_codec_rfc_vectors_ok', 'server_mode_case', 'client_mode_case',
            'inbound_len_7bit', 'inbound_len_16bit', 'inbound_len_64bit', 'inbound_masked_frame', 'inbound_unmasked_frame',
            'cut_in_header_byte1', 'cut_in_ext_len16', 'cut_in_ext_len64', 'cut_in_mask', 'cut_in_payload', 'cut_at_frame_boundary',
            'byte_at_a_time_stream', 'fragmented_message', 'fragments_4_or_more', 'empty_fragment', 'utf8_char_split_across_fragments',
            'utf8_char_split_across_reads', 'ping_inside_fragmented_message', 'pong_inside_fragmented_message', 'standalone_ping',
            'ping_payload_125', 'pong_decoded_from_codec', 'written_len_7bit', 'written_len_16bit', 'written_len_64bit',
            'written_masked_frame', 'written_unmasked_frame', 'peer_close_then_frames_same_read', 'peer_close_then_frames_later_read',
            'write_after_peer_close', 'write_after_local_close', 'frames_after_local_close', 'close_frame_written_by_codec',
            'client_constructor_data', 'two_sockets_interleaved', 'message_after_fragmented_message', 'codec_created_by_dispatcher_handshake', 'codec_created_by_client_handshake', 'frames_in_the_same_read_as_the_101_response',
            'message_written_under_a_chosen_masking_key', 'big_message_whose_masked_form_begins_with_zero_bytes',
            'several_reads_queued_before_the_first_is_dispatched', 'peer_close_and_later_frames_in_reads_queued_together']
REQUIRED_OBLIGATIONS = ['DECODE', 'ENCODE', 'PING_PONG', 'CTRL_IN_FRAGMENTED', 'AFTER_CLOSE_DELIVERY', 'AFTER_CLOSE_SEND']
WORKER_TIMEOUT = {'quick': 300, 'thorough': 1500}

LENGTHS = [0, 1, 125, 126, 127, 65535, 65536, 70000]

K_HDR = 'ws.header-split-indexerror'
K_PINGFRAG = 'ws.ping-inside-fragmented-message'
K_PINGCLOSE = 'ws.ping-after-close-sent-typeerror'
K_INITPING = 'ws.ping-in-constructor-data'
# order in which single triggers are tried: moving a read boundary touches nothing else, so it comes first; turning a ping into a
# pong also hides a header split that happens to hit that very ping
KEY_ORDER = [K_HDR, K_INITPING, K_PINGFRAG, K_PINGCLOSE]


class Unsettled(Exception):
    """The harness could not bring the case to a judgeable state (inconclusive, never a violation)."""


UPGRADE_REQUEST = (b'GET /ws HTTP/1.1\r\nHost: localhost\r\nUpgrade: websocket\r\nConnection: Upgrade\r\n'
                   b'Sec-WebSocket-Key: AAECAwQFBgcICQoLDA0ODw==\r\nSec-WebSocket-Version: 13\r\n\r\n')
HANDSHAKE_RESPONSE = (b'HTTP/1.1 101 Switching Protocols\r\nUpgrade: websocket\r\nConnection: Upgrade\r\n'
                      b'Sec-WebSocket-Accept: ZmFrZS1hY2NlcHQtdmFsdWU=\r\n\r\n')


# ------------------------------------------------------------------------------------------------
# declarative payloads
# ------------------------------------------------------------------------------------------------
_CHARS = {1: 'aZ09 ~\x00\n{"', 2: '\u00e9\u00df\u0416\u03c0', 3: '\u20ac\u4e2d\ud55c\ufeff\ufffd', 4: '\U0001f600\U0001d11e\U0010ffff'}
_PCACHE = {}


def _gen_text(n, rng):
    out = []
    left = n
    while left:
        w = min(rng.choice((1, 1, 2, 3, 4)), left)
        out.append(rng.choice(_CHARS[w]))
        left -= w
    return ''.join(out).encode('utf-8')


KEY_KINDS = ('zero', 'ones', 'same1', 'same2', 'same4', 'inv1')


def chosen_key(kind, data):
    """4-byte masking key related to the payload bytes: equal to its first 1/2/4 bytes (the masked payload then begins with zero bytes), all
    zero (masking is the identity), all ones, or the complement of the first byte (masked payload begins with 0xff)."""
    head = (bytes(data[:4]) + b'\x5a\xa5\x3c\xc3')[:4]
    if kind == 'zero':
        return b'\x00\x00\x00\x00'
    if kind == 'ones':
        return b'\xff\xff\xff\xff'
    if kind == 'same1':
        return head[:1] + bytes(b ^ 0x55 for b in head[1:])
    if kind == 'same2':
        return head[:2] + bytes(b ^ 0x55 for b in head[2:])
    if kind == 'same4':
        return head
    if kind == 'inv1':
        return bytes([head[0] ^ 0xff]) + head[1:]
    raise ValueError(kind)


def payload_of(pspec):
    """pspec: [type, n, seed] generated, or [type, 'raw', bytes].  -> (type, bytes); text is valid UTF-8."""
    typ = pspec[0]
    if pspec[1] == 'raw':
        return typ, bytes(pspec[2])
    key = (typ, pspec[1], pspec[2])
    if key not in _PCACHE:
        n = pspec[1]
        rng = random.Random(pspec[2] * 31 + (1 if typ == 'text' else 2))
        if typ == 'text':
            if n > 1500:
                unit = _gen_text(997, rng)
                data = unit * (n // 997) + _gen_text(n % 997, rng)
            else:
                data = _gen_text(n, rng)
        else:
            data = rng.randbytes(n)
        assert len(data) == n
        if len(_PCACHE) > 64:
            _PCACHE.clear()
        _PCACHE[key] = data
    return typ, _PCACHE[key]


def key_for(m, j):
    if m is None:
        return None
    if isinstance(m, (bytes, bytearray)):
        return bytes(m)
    return random.Random(m * 1009 + j).randbytes(4)


# ------------------------------------------------------------------------------------------------
# layout of an inbound stream (reference encoder)
# ------------------------------------------------------------------------------------------------
def layout(conn):
    """-> (stream, frames, msgs).  Items: ['msg', pspec, splits, ctl, mask] with ctl = [[after_fragment, 'ping'|'pong', payload], ...]
    (only positions between two fragments are used) | ['ping'|'pong'|'close', payload, mask]."""
    frames, msgs, parts = [], [], []
    pos = [0]

    def add(op, fin, payload, key, ref, msg=None, inside=None):
        raw = R.encode_frame(op, payload, fin=fin, mask=key)
        ext = R.length_form(len(payload))
        frames.append({'start': pos[0], 'end': pos[0] + len(raw), 'ext': ext, 'masked': key is not None, 'op': op, 'fin': fin,
                       'payload': payload, 'ref': ref, 'msg': msg, 'inside': inside,
                       'hdr_end': pos[0] + 2 + ext + (4 if key is not None else 0)})
        parts.append(raw)
        pos[0] += len(raw)

    for ii, it in enumerate(conn['items']):
        kind = it[0]
        if kind == 'msg':
            _, pspec, splits, ctl, m = it
            typ, payload = payload_of(pspec)
            frs = R.fragment_message(R.OP_TEXT if typ == 'text' else R.OP_BIN, payload, splits)
            mi = len(msgs)
            j = 0
            inter = []
            for fi, (fop, fin, part, _) in enumerate(frs):
                add(fop, fin, part, key_for(m, j), ['frag', ii, fi], msg=mi)
                j += 1
                if fi < len(frs) - 1:
                    for ci, c in enumerate(ctl):
                        if c[0] == fi:
                            add(R.OP_PING if c[1] == 'ping' else R.OP_PONG, True, bytes(c[2]), key_for(m, j), ['ctl', ii, ci], inside=mi)
                            j += 1
                            inter.append(c[1])
            # the last frame added is the final fragment (controls are only placed between two fragments)
            msgs.append({'type': 'text' if typ == 'text' else 'binary', 'payload': payload.decode('utf-8') if typ == 'text' else payload,
                         'raw': payload, 'last': len(frames) - 1, 'nfrag': len(frs), 'inter': inter,
                         'bounds': [0] + list(splits) + [len(payload)]})
        else:
            op = {'ping': R.OP_PING, 'pong': R.OP_PONG, 'close': R.OP_CLOSE}[kind]
            add(op, True, bytes(it[1]), key_for(it[2], 0), ['item', ii])
    return b''.join(parts), frames, msgs


def expand_steps(case, lens):
    """Steps with 'feedby' expanded: list of (step index, step) where feeds are ['feed', conn, upto]."""
    out = []
    fed = [c.get('initial', 0) for c in case['conns']]
    for si, st in enumerate(case['steps']):
        if st[0] == 'feed':
            upto = min(st[2], lens[st[1]])
            if upto > fed[st[1]]:
                out.append((si, ['feed', st[1], upto]))
                fed[st[1]] = upto
        elif st[0] == 'feedby':
            c, upto, k = st[1], min(st[2], lens[st[1]]), max(1, st[3])
            while fed[c] < upto:
                fed[c] = min(fed[c] + k, upto)
                out.append((si, ['feed', c, fed[c]]))
        elif st[0] == 'feedq':     # ['feedq', conn, [upto, ...]]: these reads are all queued before the first of them is dispatched
            c = st[1]
            for upto in st[2]:
                upto = min(upto, lens[c])
                if upto > fed[c]:
                    out.append((si, ['feed', c, upto]))
                    fed[c] = upto
        else:
            out.append((si, st))
    return out


# ------------------------------------------------------------------------------------------------
# the harness: real codec(s) under a Wire, one ordered log
# ------------------------------------------------------------------------------------------------
def execute(case, lay):
    from circuits import BaseComponent, handler
    from circuits.net.events import close, read, write
    from circuits.protocols.websocket import WebSocketCodec
    from vlib.inject import FakeSock, Wire

    class Tap(BaseComponent):
        """Application side: records what arrives on the codec's channel."""
        channel = 'ws'

        def __init__(self, log):
            super().__init__()
            self.log = log

        @handler('read')
        def _v_read(self, *args):
            self.log.append(('read',) + args)

        @handler('close')
        def _v_close(self, *args):
            self.log.append(('wsclose',) + args)

    server = case['mode'] == 'server'
    w = Wire('web')
    log = w.out
    socks, codecs, ctor_errors = [], [], {}
    via_dispatcher = case.get('via') == 'dispatcher'   # server mode: the codec is created by the real upgrade handshake
    via_client = case.get('via') == 'wsclient'         # client mode: the codec is created by the real WebSocketClient on the 101 response
    try:
        if via_client:
            from circuits import BaseComponent as _BC, handler as _h
            from circuits.core.pollers import BasePoller
            from circuits.web.websockets.client import WebSocketClient

            class NullPoller(BasePoller):      # the transport finds a poller and never gets an event from it
                channel = 'nullpoll'

                def _generate_events(self, event):
                    return None

            class NoConnect(_BC):              # no real connection is made: the handshake response is injected as a read
                @_h('ready', 'connect', channel='*', priority=100)
                def _v_stop(self, event, *args, **kwargs):
                    event.stop()

            NullPoller().register(w)
            NoConnect().register(w)
            WebSocketClient('ws://ws.example/ws', channel='web', wschannel='ws').register(w)
            Tap(log).register(w)
            w.settle()
        if via_dispatcher:
            from circuits.web.http import HTTP
            from circuits.web.websockets import WebSocketsDispatcher
            HTTP(w).register(w)
            WebSocketsDispatcher('/ws', wschannel='ws').register(w)
            Tap(log).register(w)
            w.settle()
        for ci, conn in enumerate(case['conns']):
            sock = FakeSock(('127.0.0.1', 40000 + ci)) if server else None
            socks.append(sock)
            if via_dispatcher:
                w.inject(read(sock, UPGRADE_REQUEST))
                if not w.written(sock).startswith(b'HTTP/1.1 101') or w.exceptions:
                    raise Unsettled('upgrade handshake not answered with 101: %r' % w.written(sock)[:80])
                codecs.append(True)
                continue
            initial = lay[ci][0][:conn.get('initial', 0)]
            if via_client:
                # the first bytes of the frame stream arrive in the same read as the end of the handshake response
                w.inject(read(HANDSHAKE_RESPONSE + bytes(initial)))
                if w.exceptions:
                    raise Unsettled('client handshake raised: %r' % (w.exceptions[0][1],))
                codecs.append(True)
                continue
            try:
                codec = WebSocketCodec(sock, initial, channel='ws') if server else WebSocketCodec(data=initial, channel='ws')
            except Exception as e:  # the constructor parses its data argument
                ctor_errors[ci] = repr(e)
                codecs.append(None)
                continue
            codec.register(w)
            codecs.append(codec)
        if via_dispatcher:
            del log[:]
        elif via_client:
            pass    # what the handshake read already delivered / answered stays in the log (it belongs to step -1, like constructor data)
        else:
            Tap(log).register(w)
        try:
            w.settle()
            fed = [c.get('initial', 0) for c in case['conns']]
            xsteps = expand_steps(case, [len(x[0]) for x in lay])
            queued = {i for i, s_ in enumerate(case['steps']) if s_[0] == 'feedq' or (s_[0] == 'feedby' and len(s_) > 4 and s_[4] == 'queued')}
            for xi, (si, st) in enumerate(xsteps):
                log.append(('step', si))
                ci = st[1]
                if codecs[ci] is None:
                    continue
                if st[0] == 'feed':
                    chunk = lay[ci][0][fed[ci]:st[2]]
                    fed[ci] = st[2]
                    ev = read(socks[ci], chunk) if server else read(chunk)
                    if si in queued and xi + 1 < len(xsteps) and xsteps[xi + 1][0] == si:
                        # several reads are already queued when the first of them is dispatched (a burst the loop had no time for yet)
                        w.fire(ev, w.channel)
                    else:
                        w.inject(ev)
                elif st[0] == 'write':
                    typ, data = payload_of(st[2])
                    key = chosen_key(st[3], data) if len(st) > 3 and st[3] is not None else None
                    data = data.decode('utf-8') if typ == 'text' else data
                    if key is None:
                        w.inject(write(socks[ci], data) if server else write(data), 'ws')
                    else:
                        # "every masking key": the system's random source hands out a chosen key while this message is written
                        import os as _os
                        real = _os.urandom
                        _os.urandom = lambda n, _k=key: (_k * (n // 4 + 1))[:n]
                        try:
                            w.inject(write(socks[ci], data) if server else write(data), 'ws')
                        finally:
                            _os.urandom = real
                elif st[0] == 'close':
                    w.inject(close(socks[ci]) if server else close(), 'ws')
                else:
                    raise ValueError(st)
        except RuntimeError as e:
            if 'does not settle' in str(e):
                raise Unsettled(str(e))
            raise
        obs = []
        for ci, sock in enumerate(socks):
            reads, out = [], []
            step = -1
            n_wsclose = n_close = 0
            for e in log:
                if e[0] == 'step':
                    step = e[1]
                    continue
                esock = e[1] if server and len(e) > 1 else None
                if server and esock is not sock:
                    continue
                if e[0] == 'read':
                    msg = e[-1]
                    kind = 'text' if isinstance(msg, str) else ('binary' if isinstance(msg, (bytes, bytearray)) else 'other:' + type(msg).__name__)
                    reads.append((kind, msg if isinstance(msg, str) else (bytes(msg) if kind == 'binary' else repr(msg)), step))
                elif e[0] == 'write':
                    out.append((bytes(e[2]), step))
                elif e[0] == 'wsclose':
                    n_wsclose += 1
                elif e[0] == 'close':
                    n_close += 1
            obs.append({'reads': reads, 'out': out, 'wsclose': n_wsclose, 'close': n_close, 'ctor_error': ctor_errors.get(ci)})
        known_socks = set(map(id, socks))
        stray = [e for e in log if e[0] in ('read', 'write') and server and id(e[1]) not in known_socks]
        return obs, [getattr(x[0], '__name__', str(x[0])) for x in w.exceptions], len(stray)
    finally:
        for s in socks:
            if s is not None:
                s.close()


# ------------------------------------------------------------------------------------------------
# the oracle
# ------------------------------------------------------------------------------------------------
def timeline(case, lay):
    """Per connection: for every frame the index of the step whose read completed it (-1: constructor data, None: never),
    the first local close step, the peer's first complete close frame and the step that completed it, the read boundaries."""
    out = []
    steps = expand_steps(case, [len(x[0]) for x in lay])
    for ci, conn in enumerate(case['conns']):
        stream, frames, msgs = lay[ci]
        bounds = [(conn.get('initial', 0), -1)]
        local_close = None
        for si, st in steps:
            if st[1] != ci:
                continue
            if st[0] == 'feed':
                bounds.append((st[2], si))
            elif st[0] == 'close' and local_close is None:
                local_close = si
        done = []
        for f in frames:
            done.append(next((si for off, si in bounds if off >= f['end']), None))
        peer_close = next((i for i, f in enumerate(frames) if f['op'] == R.OP_CLOSE and done[i] is not None), None)
        out.append({'done': done, 'local_close': local_close, 'peer_close': peer_close,
                    'peer_close_step': done[peer_close] if peer_close is not None else None, 'bounds': bounds,
                    'fed': bounds[-1][0]})
    return out


def _match(observed, required, optional):
    """observed == required + (a subsequence of optional)?  -> None | (index, why)"""
    for i, exp in enumerate(required):
        if i >= len(observed):
            return i, 'missing'
        if observed[i] != exp:
            return i, 'different'
    rest = observed[len(required):]
    it = iter(optional)
    for j, o in enumerate(rest):
        if not any(o == x for x in it):
            return len(required) + j, 'unexpected'
    return None


def _short(x, n=48):
    if isinstance(x, (bytes, str)) and len(x) > n:
        return [type(x).__name__, len(x), x[:n]]
    return x


def judge(case, lay, tl, obs, excs, stray):
    problems, oks = [], Counter()
    client = case['mode'] == 'client'
    if stray:
        problems.append(('DECODE', {'why': 'read/write events for a socket that is not part of the case', 'n': stray}))
    for ci, conn in enumerate(case['conns']):
        stream, frames, msgs = lay[ci]
        t, o = tl[ci], obs[ci]
        base = {'conn': ci, 'exceptions': excs[:4]}
        if o['ctor_error']:
            problems.append(('DECODE', dict(base, why='constructor raised on its data argument', error=o['ctor_error'])))
            continue
        lc, pc, done = t['local_close'], t['peer_close'], t['done']

        def late(i):  # processed after the endpoint itself sent a close frame
            return lc is not None and done[i] > lc

        # -- inbound data messages -------------------------------------------------------------
        req, opt = [], []
        for m in msgs:
            i = m['last']
            if done[i] is None or (pc is not None and i > pc):
                continue
            (opt if late(i) else req).append(m)
        seen = [(k, p) for k, p, _ in o['reads']]
        bad = _match(seen, [(m['type'], m['payload']) for m in req], [(m['type'], m['payload']) for m in opt])
        n_ok = len(req) if bad is None else min(bad[0], len(req))
        for m in req[:n_ok]:
            oks['CTRL_IN_FRAGMENTED' if m['inter'] else 'DECODE'] += 1
        if bad is not None:
            i, why = bad
            det = dict(base, why=why, index=i, delivered=len(seen), expected=len(req), optional=len(opt),
                       observed=[_short(x) for x in seen[i]] if i < len(seen) else None)
            if i < len(req):
                m = req[i]
                det['wanted'] = [m['type'], _short(m['payload'])]
                det['fragments'] = m['nfrag']
                problems.append(('CTRL_IN_FRAGMENTED' if m['inter'] else 'DECODE', det))
            elif pc is not None:
                problems.append(('AFTER_CLOSE_DELIVERY', det))
            else:
                problems.append(('DECODE', det))
        if pc is not None:
            tail = [r for r in o['reads'] if r[2] > t['peer_close_step']]
            if tail:
                problems.append(('AFTER_CLOSE_DELIVERY', dict(base, why='read event delivered by a later read than the one completing the close frame',
                                                              observed=[_short(x) for x in tail[0][:2]])))
            elif bad is None:
                oks['AFTER_CLOSE_DELIVERY'] += 1
        # -- outbound: what a conforming peer decodes ------------------------------------------------
        view, oframes, pending = R.observe(b''.join(d for d, _ in o['out']), expect_masked=client)
        # the masking of the codec's own close frame is outside the statement (no data message depends on it): not judged
        errors = [e for e in view.errors if '(opcode 8) is' not in e]
        writes = [(si, st) for si, st in enumerate(case['steps']) if st[0] == 'write' and st[1] == ci]
        live, dead = [], []
        for si, st in writes:
            closed = (lc is not None and si > lc) or (t['peer_close_step'] is not None and si > t['peer_close_step'])
            (dead if closed else live).append(st)
        want = []
        for st in live:
            typ, data = payload_of(st[2])
            want.append(('text', data.decode('utf-8')) if typ == 'text' else ('binary', data))
        got = view.messages()
        enc_bad = None
        if errors or pending:
            enc_bad = dict(base, why='frames written by the codec are not acceptable to a conforming peer', errors=errors[:3], undecoded_tail=pending)
        else:
            mm = _match(got, want, [])
            if mm is not None:
                i, why = mm
                enc_bad = dict(base, why=why, index=i, decoded=len(got), written=len(want), observed=[_short(x) for x in got[i]] if i < len(got) else None,
                               wanted=[_short(x) for x in want[i]] if i < len(want) else None)
        if enc_bad is None:
            oks['ENCODE'] += len(want)
        elif enc_bad.get('why') == 'unexpected' and dead:
            problems.append(('AFTER_CLOSE_SEND', dict(enc_bad, note='a data message was sent for a write issued after a close frame')))
        else:
            problems.append(('ENCODE', enc_bad))
        if view.data_after_close:
            problems.append(('AFTER_CLOSE_SEND', dict(base, why='data frame follows a close frame in the bytes written', n=view.data_after_close)))
        elif (dead or view.closed) and not (enc_bad and enc_bad.get('why') == 'unexpected'):
            oks['AFTER_CLOSE_SEND'] += max(1, len(dead))
        # -- pings ---------------------------------------------------------------------------------
        preq, popt = [], []
        for i, f in enumerate(frames):
            if f['op'] != R.OP_PING or done[i] is None:
                continue
            # a ping after the peer's close frame, or after the endpoint's own one, need not be answered
            (popt if late(i) or (pc is not None and i > pc) else preq).append(f['payload'])
        pongs = view.of('pong')
        pb = _match(pongs, preq, popt)
        if pb is not None:
            i, why = pb
            problems.append(('PING_PONG', dict(base, why=why, index=i, pongs=len(pongs), pings=len(preq), optional=len(popt),
                                               observed=_short(pongs[i]) if i < len(pongs) else None,
                                               wanted=_short(preq[i]) if i < len(preq) else None)))
        else:
            oks['PING_PONG'] += len(preq)
    return problems, oks


# ------------------------------------------------------------------------------------------------
# features (coverage counters), triggers of known findings and their neutralised twins
# ------------------------------------------------------------------------------------------------
def features(case, lay, tl, obs):
    c = Counter()
    c['server_mode_case' if case['mode'] == 'server' else 'client_mode_case'] += 1
    if case.get('via') == 'dispatcher':
        c['codec_created_by_dispatcher_handshake'] += 1
    if case.get('via') == 'wsclient':
        c['codec_created_by_client_handshake'] += 1
        if any(conn.get('initial', 0) for conn in case['conns']):
            c['frames_in_the_same_read_as_the_101_response'] += 1
    inside_cut = False
    if len(case['conns']) > 1:
        order = [st[1] for st in case['steps'] if st[0] in ('feed', 'feedby', 'feedq')]
        if any(a != b for a, b in zip(order, order[1:])):
            c['two_sockets_interleaved'] += 1
    for ci, conn in enumerate(case['conns']):
        stream, frames, msgs = lay[ci]
        t = tl[ci]
        if conn.get('initial', 0):
            c['client_constructor_data' if case['mode'] == 'client' else 'server_constructor_data'] += 1
        for i, f in enumerate(frames):
            if t['done'][i] is None:
                continue
            c[('inbound_len_7bit', None, 'inbound_len_16bit', None, None, None, None, None, 'inbound_len_64bit')[f['ext']]] += 1
            c['inbound_masked_frame' if f['masked'] else 'inbound_unmasked_frame'] += 1
            if f['op'] == R.OP_PING:
                c['ping_inside_fragmented_message' if f['inside'] is not None else 'standalone_ping'] += 1
                if len(f['payload']) == 125:
                    c['ping_payload_125'] += 1
            if f['op'] == R.OP_PONG and f['inside'] is not None:
                c['pong_inside_fragmented_message'] += 1
        cuts = [off for off, si in t['bounds'] if 0 < off < len(stream)]
        for si_, st in enumerate(case['steps']):
            if st[1] == ci and (st[0] == 'feedq' or (st[0] == 'feedby' and len(st) > 4)):
                mine = [off for off, si in t['bounds'] if si == si_]
                if len(mine) > 1:
                    c['several_reads_queued_before_the_first_is_dispatched'] += 1
                    if t['peer_close'] is not None and t['peer_close_step'] == si_ and any(
                            f['end'] > mine[0] and f['end'] > frames[t['peer_close']]['end'] and t['done'][i] == si_ for i, f in enumerate(frames)):
                        c['peer_close_and_later_frames_in_reads_queued_together'] += 1
        steps = [st for st in case['steps'] if st[1] == ci and st[0] == 'feedby' and st[3] == 1]
        if steps:
            c['byte_at_a_time_stream'] += 1
        fi = 0
        for off in sorted(set(cuts)):
            while fi < len(frames) - 1 and frames[fi]['end'] <= off:
                fi += 1
            f = frames[fi]
            rel = off - f['start']
            if rel == 0:
                c['cut_at_frame_boundary'] += 1
                continue
            inside_cut = True
            if rel == 1:
                c['cut_in_header_byte1'] += 1
            elif rel < 2 + f['ext']:
                c['cut_in_ext_len16' if f['ext'] == 2 else 'cut_in_ext_len64'] += 1
            elif rel < f['hdr_end'] - f['start']:
                c['cut_in_mask' if rel > 2 + f['ext'] else 'cut_between_length_and_mask'] += 1
            elif rel == f['hdr_end'] - f['start']:
                c['cut_between_header_and_payload'] += 1
            else:
                c['cut_in_payload'] += 1
                if f['op'] in R.DATA_OPCODES and f['msg'] is not None and msgs[f['msg']]['type'] == 'text':
                    m = msgs[f['msg']]
                    fr_index = f['ref'][2]
                    poff = m['bounds'][fr_index] + (off - f['hdr_end'])
                    if poff < len(m['raw']) and m['raw'][poff] & 0xC0 == 0x80:
                        c['utf8_char_split_across_reads'] += 1
        for mi, m in enumerate(msgs):
            if t['done'][m['last']] is None:
                continue
            if m['nfrag'] > 1:
                c['fragmented_message'] += 1
                if m['nfrag'] >= 4:
                    c['fragments_4_or_more'] += 1
                if any(a == b for a, b in zip(m['bounds'], m['bounds'][1:])):
                    c['empty_fragment'] += 1
                if m['type'] == 'text' and any(0 < s < len(m['raw']) and m['raw'][s] & 0xC0 == 0x80 for s in m['bounds'][1:-1]):
                    c['utf8_char_split_across_fragments'] += 1
                if mi + 1 < len(msgs) and t['done'][msgs[mi + 1]['last']] is not None:
                    c['message_after_fragmented_message'] += 1
        pc = t['peer_close']
        if pc is not None and pc + 1 < len(frames):
            later = [t['done'][i] for i in range(pc + 1, len(frames)) if t['done'][i] is not None]
            if any(s == t['peer_close_step'] for s in later):
                c['peer_close_then_frames_same_read'] += 1
            if any(s > t['peer_close_step'] for s in later):
                c['peer_close_then_frames_later_read'] += 1
        for si, st in enumerate(case['steps']):
            if st[1] != ci or st[0] != 'write':
                continue
            if len(st) > 3 and st[3] is not None and case['mode'] == 'client':
                c['message_written_under_a_chosen_masking_key'] += 1
                if payload_of(st[2])[1] and len(payload_of(st[2])[1]) >= 65536 and st[3].startswith('same'):
                    c['big_message_whose_masked_form_begins_with_zero_bytes'] += 1
            if t['peer_close_step'] is not None and si > t['peer_close_step']:
                c['write_after_peer_close'] += 1
            if t['local_close'] is not None and si > t['local_close']:
                c['write_after_local_close'] += 1
        if t['local_close'] is not None and any(d is not None and d > t['local_close'] for d in t['done']):
            c['frames_after_local_close'] += 1
        if obs is not None and not obs[ci]['ctor_error']:
            view, oframes, pending = R.observe(b''.join(d for d, _ in obs[ci]['out']), expect_masked=case['mode'] == 'client')
            if any(op == R.OP_CLOSE for op, _ in view.wrong_masking):
                c['observed_close_frame_with_wrong_masking_for_role'] += 1
            chosen = {chosen_key(st[3], payload_of(st[2])[1]) for st in case['steps'] if st[0] == 'write' and st[1] == ci and len(st) > 3 and st[3] is not None}
            for f in oframes:
                if f.masked and f.key is not None and bytes(f.key) in chosen:
                    c['chosen_masking_key_seen_on_the_wire'] += 1
                if f.opcode in R.DATA_OPCODES:
                    c[{0: 'written_len_7bit', 2: 'written_len_16bit', 8: 'written_len_64bit'}[f.ext]] += 1
                    c['written_masked_frame' if f.masked else 'written_unmasked_frame'] += 1
                elif f.opcode == R.OP_PONG:
                    c['pong_decoded_from_codec'] += 1
                elif f.opcode == R.OP_CLOSE:
                    c['close_frame_written_by_codec'] += 1
            if obs[ci]['close']:
                c['transport_close_after_handshake'] += 1
            c['decoded_read_events'] += len(obs[ci]['reads'])
    nontrivial = inside_cut or c['fragmented_message'] > 0 or any(st[0] == 'write' for st in case['steps'])
    return c, nontrivial


def ping_mechanisms(case, lay, tl):
    """{(conn, frame index): [keys]} - which known-finding mechanisms a ping that the codec processes is subject to."""
    out = {}
    for ci, conn in enumerate(case['conns']):
        frames, t = lay[ci][1], tl[ci]
        for i, f in enumerate(frames):
            if f['op'] != R.OP_PING or t['done'][i] is None or (t['peer_close'] is not None and i > t['peer_close']):
                continue
            ks = []
            if t['done'][i] == -1:
                ks.append(K_INITPING)
            if f['inside'] is not None:
                ks.append(K_PINGFRAG)
            if t['local_close'] is not None and t['done'][i] > t['local_close']:
                ks.append(K_PINGCLOSE)
            if ks:
                out[(ci, i)] = ks
    return out


def triggers(case, lay, tl):
    """Which known-finding mechanisms are present in the case (structural, independent of what was observed)."""
    found = {k for ks in ping_mechanisms(case, lay, tl).values() for k in ks}
    for ci, conn in enumerate(case['conns']):
        frames = lay[ci][1]
        if any(f['start'] < off < f['start'] + 2 + f['ext'] for off, si in tl[ci]['bounds'] for f in frames):
            found.add(K_HDR)
    return [k for k in KEY_ORDER if k in found]


def _to_pong(case, ci, ref):
    it = case['conns'][ci]['items'][ref[1]]
    if ref[0] == 'ctl':
        it[3][ref[2]][1] = 'pong'
    else:
        it[0] = 'pong'


def sanitize(case):
    """Generated cases never contain a ping subject to two known-finding mechanisms at once (e.g. inside a fragmented message AND
    after the endpoint's own close frame): turning it into a pong removes all of them together, so the neutralised twins could
    not tell which one a failure is due to.  Such a ping is generated as a pong instead."""
    # restriction lifted: every one of those findings has been repaired (known_findings.json), so no attribution is needed any more
    # and pings in constructor data / inside fragmented messages / after the endpoint's close frame are generated in any combination
    return case


def neutralise(case, keys):
    """The same case with only the given triggers removed.  A ping subject to one of the ping mechanisms becomes a pong of the same
    size (the byte layout, hence every cut, stays what it was; by construction - see sanitize - it is subject to that mechanism
    only); a read boundary (or the end of the constructor data) inside a frame header moves back to the start of that frame,
    which changes neither the frames completed by each read nor any other byte."""
    case = copy.deepcopy(case)
    case.pop('name', None)
    lay = [layout(c) for c in case['conns']]
    tl = timeline(case, lay)
    for (ci, i), ks in ping_mechanisms(case, lay, tl).items():
        if any(k in keys for k in ks):
            _to_pong(case, ci, lay[ci][1][i]['ref'])
    if K_HDR in keys:
        lens = [len(x[0]) for x in lay]

        def moved(ci, off):
            for f in lay[ci][1]:
                if f['start'] < off < f['start'] + 2 + f['ext']:
                    return f['start']
            return off
        steps = [['feed', st[1], moved(st[1], st[2])] if st[0] == 'feed' else st for si, st in expand_steps(case, lens)]
        for ci, conn in enumerate(case['conns']):
            conn['initial'] = moved(ci, conn.get('initial', 0))
        case['steps'] = steps
    return case


def run_case(case):
    lay = [layout(c) for c in case['conns']]
    tl = timeline(case, lay)
    obs, excs, stray = execute(case, lay)
    problems, oks = judge(case, lay, tl, obs, excs, stray)
    return problems, oks, lay, tl, obs


# ------------------------------------------------------------------------------------------------
# corpus and generators
# ------------------------------------------------------------------------------------------------
def msg(typ, n, seed=1, splits=(), ctl=(), mask=None):
    p = [typ, 'raw', n] if isinstance(n, (bytes, bytearray)) else [typ, n, seed]
    return ['msg', p, list(splits), [list(c) for c in ctl], mask]


def one(mode, items, steps=None, initial=0, name=None):
    case = {'mode': mode, 'conns': [{'items': items, 'initial': initial}], 'steps': steps if steps is not None else [['feed', 0, 1 << 30]]}
    if name:
        case['name'] = name
    return case


def rolemask(mode, seed):
    return seed if mode == 'server' else None


ALL = 1 << 30


def corpus():
    cases = []
    EUR = '€'.encode()
    for mode in ('server', 'client'):
        rm = rolemask(mode, 11)
        # 1. every length x type, one read per frame; the same payload written back
        for n in LENGTHS:
            for typ in ('text', 'bin'):
                cases.append(one(mode, [msg(typ, n, 3, mask=rm)], [['feed', 0, ALL], ['write', 0, [typ, n, 4]]], name='len-%d-%s' % (n, typ)))
        # 2. fragmentation (splits inside multi-byte characters, empty fragments), pongs in between, then an unfragmented message
        txt = ('a' + '€\U0001f600é' * 30).encode()
        cases.append(one(mode, [msg('text', txt, splits=[2, 7, 7, 100], ctl=[[0, 'pong', b'x'], [2, 'pong', b'']], mask=rm),
                                msg('bin', 5, 1, mask=rm), msg('text', 126, 2, splits=[0, 126], mask=rm), msg('text', b'end', mask=rm)],
                         name='fragments-pong'))
        cases.append(one(mode, [msg('bin', 300, 5, splits=[1, 126, 127, 299], mask=rm), msg('text', EUR * 3, splits=[1, 4, 8], mask=rm),
                                msg('bin', 65536 + 300, 6, splits=[65536], mask=rm), msg('bin', 0, 1, splits=[0], mask=rm), msg('text', 1, 1, mask=rm)],
                         name='fragments-lengths'))
        # 3. pings: standalone (0, 1, 125 bytes), inside a fragmented message (known finding)
        cases.append(one(mode, [['ping', b'', rm], msg('text', 10, 1, mask=rm), ['ping', b'p', rm], ['ping', bytes(range(125)), rm], ['pong', b'zz', rm],
                                msg('bin', 3, 1, mask=rm)], name='pings-standalone'))
        cases.append(one(mode, [msg('text', 40, 2, splits=[10, 20], ctl=[[0, 'ping', b'PING'], [1, 'ping', b'']], mask=rm), msg('text', 4, 2, mask=rm)],
                         name='ping-inside-fragmented'))
        cases.append(one(mode, [msg('bin', 20, 2, splits=[0, 10], ctl=[[0, 'ping', b'first-fragment-empty']], mask=rm)], name='ping-after-empty-fragment'))
        # written with chosen masking keys (client role): every length form, text and binary
        if mode == 'client':
            for n in (1, 4, 125, 126, 300, 65535, 65536, 65541, 70001):
                for typ in ('bin', 'text'):
                    cases.append(one(mode, [msg('bin', 2, 1, mask=rm)], [st for kk in KEY_KINDS for st in (['write', 0, [typ, n, 7], kk], ['write', 0, ['bin', 3, 1]])] + [['feed', 0, ALL]],
                                     name='chosen-keys-%d-%s' % (n, typ)))
        # 4. cuts at harmless offsets of the three length forms (mask, header/payload border, payload, frame border)
        for n in (5, 126, 65536):
            s, frames, _ = layout({'items': [msg('text', n, 3, mask=rm), msg('bin', 2, 1, mask=rm)]})
            f = frames[0]
            safe = sorted({f['start'] + 2 + f['ext'], f['hdr_end'] - 1 if f['masked'] else f['hdr_end'], f['hdr_end'], f['hdr_end'] + 2, f['end'] - 1, f['end']})
            cases.append(one(mode, [msg('text', n, 3, mask=rm), msg('bin', 2, 1, mask=rm)], [['feed', 0, c] for c in safe] + [['feed', 0, ALL]],
                             name='safe-cuts-%d' % n))
        # 5. every header offset of the three length forms (known finding), byte at a time
        for n in (5, 126, 65536):
            for c in range(1, 2 + R.length_form(n) + 5):
                cases.append(one(mode, [msg('bin', n, 3, mask=rm)], [['feed', 0, c], ['feed', 0, ALL]], name='header-cut-%d@%d' % (n, c)))
        cases.append(one(mode, [msg('text', EUR * 2, mask=rm), ['ping', b'hi', rm], msg('bin', 130, 1, splits=[60], mask=rm)], [['feedby', 0, ALL, 1]],
                         name='byte-at-a-time'))
        cases.append(one(mode, [msg('text', 3, 1, mask=rm), msg('text', 3, 2, mask=rm)], [['feed', 0, 3 + (6 if rm else 2) + 1], ['feed', 0, ALL]],
                         name='one-byte-of-next-frame'))
        # 6. closing handshakes
        cases.append(one(mode, [msg('text', 5, 1, mask=rm), ['close', b'\x03\xe8bye', rm], msg('text', 6, 2, mask=rm), ['ping', b'late', rm]],
                         [['feed', 0, ALL], ['write', 0, ['text', 3, 1]]], name='peer-close-same-read'))
        s, frames, _ = layout({'items': [msg('bin', 5, 1, mask=rm), ['close', b'', rm]]})
        cases.append(one(mode, [msg('bin', 5, 1, mask=rm), ['close', b'', rm], msg('bin', 6, 2, mask=rm), msg('text', 2, 2, splits=[1], mask=rm)],
                         [['write', 0, ['bin', 2, 1]], ['feed', 0, len(s)], ['write', 0, ['bin', 3, 1]], ['feed', 0, len(s) + 3], ['feed', 0, ALL], ['write', 0, ['text', 126, 1]]],
                         name='peer-close-later-reads'))
        full = [msg('bin', 5, 1, mask=rm), ['close', b'', rm], msg('bin', 6, 2, mask=rm), msg('text', 2, 2, splits=[1], mask=rm), ['ping', b'late', rm]]
        _, fr, _ = layout({'items': full})
        ends = [f['end'] for f in fr]
        cases.append(one(mode, full, [['feedq', 0, ends], ['write', 0, ['text', 3, 1]]], name='peer-close-and-later-frames-queued-together'))
        cases.append(one(mode, full, [['feedq', 0, [ends[1] - 1, ends[1], ends[2] + 1, ALL]]], name='peer-close-completed-among-queued-reads'))
        cases.append(one(mode, full, [['feed', 0, ends[0]], ['close', 0], ['feedq', 0, ends[1:]]], name='queued-reads-after-local-close'))
        cases.append(one(mode, [msg('text', 130, 3, splits=[64, 128], ctl=[[0, 'ping', b'in']], mask=rm), msg('bin', 126, 1, mask=rm)], [['feedby', 0, ALL, 7, 'queued']],
                         name='all-reads-of-a-stream-queued'))
        cases.append(one(mode, [msg('text', 5, 1, mask=rm), msg('text', 7, 3, mask=rm), ['close', b'\x03\xe9', rm], msg('bin', 1, 1, mask=rm)],
                         [['write', 0, ['text', 5, 1]], ['feed', 0, 7 + (4 if rm else 0)], ['close', 0], ['write', 0, ['text', 5, 2]], ['feed', 0, ALL], ['write', 0, ['bin', 5, 2]], ['close', 0]],
                         name='local-close-then-peer-close'))
        s, frames, _ = layout({'items': [msg('text', 5, 1, mask=rm), ['ping', b'after-close', rm], ['close', b'', rm]]})
        cases.append(one(mode, [msg('text', 5, 1, mask=rm), ['ping', b'after-close', rm], ['close', b'', rm], msg('bin', 9, 1, mask=rm)],
                         [['close', 0], ['feed', 0, len(s)], ['feed', 0, ALL]], name='ping-after-local-close'))
        # 7. special masking keys / payloads that look like frames
        if mode == 'server':
            tricky = R.encode_frame(1, b'inner') + b'\x81\x7e\x00' + b'\x88\x00'
            for key in (b'\x00\x00\x00\x00', b'\xff\xff\xff\xff', b'\x81\x05\x88\x00', tricky[:4]):
                cases.append(one(mode, [msg('bin', tricky, mask=key), msg('text', b'\x00\x7f' + EUR, splits=[3], mask=key), ['ping', key, key]],
                                 [['feed', 0, 6], ['feed', 0, ALL]], name='mask-%s' % key.hex()))
        else:
            tricky = R.encode_frame(1, b'inner') + b'\x81\x7e\x00' + b'\x88\x00'
            cases.append(one(mode, [msg('bin', tricky), msg('text', b'\x00\x7f' + EUR, splits=[3])], [['feed', 0, 2], ['feed', 0, ALL]], name='frame-like-payload'))
    # 8. client constructor data: whole message, partial payload, ping (known finding), partial header (known finding)
    s, frames, _ = layout({'items': [msg('text', 8, 1), msg('bin', 200, 2)]})
    for k, nm in ((frames[0]['end'], 'message'), (frames[0]['end'] + 7, 'partial-payload'), (len(s), 'everything'), (frames[0]['end'] + 3, 'partial-header')):
        cases.append(one('client', [msg('text', 8, 1), msg('bin', 200, 2)], [['feed', 0, ALL], ['write', 0, ['text', 2, 2]]], initial=k, name='ctor-data-' + nm))
    cases.append(one('client', [msg('text', 8, 1), ['ping', b'early', None], msg('bin', 20, 2)], [['feed', 0, ALL]], initial=17, name='ctor-data-ping'))
    cases.append(one('client', [msg('text', 8, 1), ['close', b'', None], msg('bin', 20, 2)], [['feed', 0, ALL], ['write', 0, ['bin', 1, 1]]], initial=12, name='ctor-data-close'))
    # 9. two sockets, reads and writes interleaved
    a = [msg('text', 30, 1, splits=[10], ctl=[[0, 'pong', b'A']], mask=1), ['ping', b'a', 1], msg('bin', 126, 2, mask=1), ['close', b'', 1], msg('bin', 1, 1, mask=1)]
    b = [msg('bin', 30, 3, splits=[20], mask=2), msg('text', 127, 4, mask=2), ['ping', b'b', 2], msg('text', 1, 4, mask=2)]
    cases.append({'name': 'two-sockets', 'mode': 'server', 'conns': [{'items': a, 'initial': 0}, {'items': b, 'initial': 0}], 'steps': [
        ['feed', 0, 10], ['feed', 1, 9], ['write', 1, ['text', 5, 1]], ['feed', 0, 30], ['feed', 1, 40], ['write', 0, ['bin', 5, 2]],
        ['feed', 0, ALL], ['write', 0, ['bin', 5, 3]], ['feed', 1, ALL], ['write', 1, ['text', 126, 3]]]})
    # 10. the same through the real upgrade handshake (HTTP + WebSocketsDispatcher create and register the codec)
    for c in list(cases):
        if c['mode'] == 'server' and c.get('name') in ('len-126-text', 'len-65536-bin', 'fragments-pong', 'pings-standalone', 'safe-cuts-126',
                                                        'peer-close-later-reads', 'local-close-then-peer-close', 'two-sockets', 'mask-00000000'):
            cases.append(dict(copy.deepcopy(c), via='dispatcher', name=c['name'] + '-via-dispatcher'))
    # 11. client side through the real WebSocketClient: the 101 response and the first 0..n bytes of the frame stream in ONE read
    for c in list(cases):
        if c['mode'] == 'client' and len(c['conns']) == 1 and c.get('name', '').startswith(('ctor-data-', 'len-126', 'len-65536', 'fragments-', 'pings-standalone')):
            cases.append(dict(copy.deepcopy(c), via='wsclient', name=c['name'] + '-via-wsclient'))
    for k in (0, 1, 2, 5, 10, 11, 40, 1 << 30):
        cases.append(dict(one('client', [msg('text', 8, 1), msg('bin', 300, 2, splits=[100]), msg('text', 0, 3), ['ping', b'p', None], msg('text', 3, 4)],
                              [['feed', 0, ALL], ['write', 0, ['text', 4, 9]]], initial=k, name='wsclient-handshake-plus-%d' % min(k, 9999)), via='wsclient'))
    return [sanitize(c) for c in cases]


SMALL = [0, 1, 2, 3, 5, 20, 124, 125, 126, 127, 128, 200, 300]
BIG = [65535, 65536, 70000, 65534, 65537]


def gen_items(rng, mode, seed_base, big=0.0, allow_close=True):
    rm = (lambda: rng.randrange(1, 1 << 20)) if mode == 'server' else (lambda: None)
    if mode == 'server' and rng.random() < 0.1:
        fixed = rng.choice([b'\x00\x00\x00\x00', b'\xff\xff\xff\xff', rng.randbytes(4)])
        rm = lambda: fixed  # noqa: E731
    items = []
    for k in range(rng.randint(1, 6)):
        r = rng.random()
        if r < 0.70:
            n = rng.choice(BIG) if rng.random() < big else (rng.choice(SMALL) if rng.random() < 0.7 else rng.randint(0, 400))
            typ = rng.choice(('text', 'bin'))
            nfr = rng.choice((1, 1, 2, 2, 3, 4, 4, 5, 6)) if n < 1000 else rng.choice((1, 1, 2, 3))
            splits = sorted(rng.choice((0, n, rng.randint(0, n), rng.randint(0, n), min(n, 126), min(n, 125))) for _ in range(nfr - 1))
            ctl = []
            for fi in range(nfr - 1):
                while rng.random() < 0.3:
                    ctl.append([fi, rng.choice(('ping', 'pong', 'pong')), rng.randbytes(rng.choice((0, 1, 4, 125, rng.randint(0, 125))))])
            items.append(['msg', [typ, n, seed_base + k], splits, ctl, rm()])
        elif r < 0.82:
            items.append(['ping', rng.randbytes(rng.choice((0, 1, 5, 125, rng.randint(0, 125)))), rm()])
        elif r < 0.90:
            items.append(['pong', rng.randbytes(rng.randint(0, 20)), rm()])
        elif allow_close:
            body = rng.choice((b'', b'\x03\xe8', b'\x03\xe9going away'))
            items.append(['close', body, rm()])
    if not items:
        items.append(['msg', ['text', 5, seed_base], [], [], rm()])
    return items


def gen_cuts(rng, frames, total, style):
    if total <= 1 or style == 'none':
        return []
    if style == 'single':
        return [rng.randrange(1, total)]
    if style == 'header':   # offsets inside / right after the headers of some frames
        cuts = set()
        for f in rng.sample(frames, min(len(frames), rng.randint(1, 3))):
            for _ in range(rng.randint(1, 3)):
                c = f['start'] + rng.randint(0, f['hdr_end'] - f['start'] + 1)
                if 0 < c < total:
                    cuts.add(c)
        return sorted(cuts)
    if style == 'frames':   # on frame boundaries only
        return sorted({f['end'] for f in frames if f['end'] < total and rng.random() < 0.7})
    n = rng.randint(2, 8)
    return sorted({rng.randrange(1, total) for _ in range(n)})


def gen_case(rng, big=0.0):
    mode = rng.choice(('server', 'client'))
    nconn = 2 if mode == 'server' and rng.random() < 0.12 else 1
    conns, feeds = [], []
    seed_base = rng.randrange(1 << 24)
    for ci in range(nconn):
        items = gen_items(rng, mode, seed_base + 100 * ci, big)
        conn = {'items': items, 'initial': 0}
        stream, frames, _ = layout(conn)
        total = len(stream)
        style = rng.choice(('none', 'single', 'header', 'header', 'frames', 'multi', 'multi', 'bytewise'))
        if style == 'bytewise':
            if total <= 1500:
                feeds.append([['feedby', ci, ALL, 1]])
            else:   # long stream: the first frame's header byte by byte, the rest in blocks
                k = rng.choice((1000, 4096, 8192, 65536))
                feeds.append([['feedby', ci, frames[0]['hdr_end'] + 2, 1], ['feedby', ci, ALL, k]])
        else:
            cuts = gen_cuts(rng, frames, total, style)
            if mode == 'client' and cuts and rng.random() < 0.3:
                conn['initial'] = cuts.pop(0)
            if cuts and rng.random() < 0.2:    # a burst: all those reads are queued before the codec sees the first
                feeds.append([['feedq', ci, cuts + [ALL]]])
            else:
                feeds.append([['feed', ci, c] for c in cuts] + [['feed', ci, ALL]])
        conns.append(conn)
    # interleave the per-connection feeds, then sprinkle writes and at most one local close per connection
    steps = []
    pend = [list(f) for f in feeds]
    while any(pend):
        ci = rng.choice([i for i, p in enumerate(pend) if p])
        steps.append(pend[ci].pop(0))
    extra = []
    for ci in range(nconn):
        for _ in range(rng.choice((0, 1, 1, 2, 3))):
            n = rng.choice(BIG) if rng.random() < big else rng.choice(SMALL + [rng.randint(0, 400)])
            st = ['write', ci, [rng.choice(('text', 'bin')), n, rng.randrange(1 << 16)]]
            if mode == 'client' and rng.random() < 0.4:
                st.append(rng.choice(KEY_KINDS))
            extra.append(st)
        if rng.random() < 0.2:
            extra.append(['close', ci])
    for st in extra:
        steps.insert(rng.randint(0, len(steps)), st)
    case = {'mode': mode, 'conns': conns, 'steps': steps}
    if mode == 'client' and rng.random() < 0.3:
        case['via'] = 'wsclient'      # the real WebSocketClient creates the codec; `initial` bytes share the read of the 101 response
    return sanitize(case)


def family(tier):
    """Short streams whose every single cut is tried: (mode, items)."""
    fam = []
    EUR = '€'.encode()
    for mode in ('server', 'client'):
        rm = rolemask(mode, 5)
        fam.append((mode, [msg('text', b'Hello', mask=rm), ['ping', b'pp', rm], msg('bin', 6, 1, splits=[2, 4], ctl=[[0, 'pong', b'q']], mask=rm), msg('text', EUR, mask=rm)]))
        fam.append((mode, [msg('bin', 126, 1, mask=rm), msg('text', 0, 1, mask=rm), msg('text', 127, 2, splits=[125], mask=rm), ['close', b'\x03\xe8', rm], msg('text', 2, 1, mask=rm)]))
        fam.append((mode, [msg('text', 125, 1, splits=[0, 1], mask=rm), ['ping', bytes(125), rm], msg('bin', 1, 1, mask=rm)]))
        if tier == 'thorough':
            fam.append((mode, [msg('text', 130, 3, splits=[64, 128], ctl=[[0, 'ping', b'in'], [1, 'pong', b'']], mask=rm), msg('bin', 125, 1, mask=rm), msg('bin', 0, 1, mask=rm)]))
            fam.append((mode, [msg('bin', 1, 1, mask=rm)] * 1 + [['pong', b'', rm], msg('bin', 200, 1, splits=[100], mask=rm), ['ping', b'', rm], ['close', b'', rm], ['ping', b'x', rm]]))
            for n in (0, 1, 125, 126, 127):
                fam.append((mode, [msg('text', n, 9, mask=rm), msg('bin', n, 9, mask=rm)]))
    return fam


def family_cases(tier, part, parts):
    """All single cuts of the family streams; thorough adds all pairs of cuts among header-region offsets, the same cuts with a
    write and a local close interposed, and every header-region single cut of the long (16/64-bit length) streams."""
    cases = []
    for mode, items in family(tier):
        conn = {'items': [it[:] for it in items], 'initial': 0}
        stream, frames, _ = layout(conn)
        total = len(stream)
        for c in range(1, total):
            cases.append({'mode': mode, 'conns': [copy.deepcopy(conn)], 'steps': [['feed', 0, c], ['write', 0, ['text', 3, c]], ['feed', 0, ALL]]})
            if mode == 'client' and tier == 'thorough':
                cases.append({'mode': mode, 'conns': [dict(copy.deepcopy(conn), initial=c)], 'steps': [['feed', 0, ALL]]})
        if tier == 'thorough':
            hdr = sorted({o for f in frames for o in range(f['start'], f['hdr_end'] + 2) if 0 < o < total})
            for a, b in itertools.combinations(hdr, 2):
                cases.append({'mode': mode, 'conns': [copy.deepcopy(conn)], 'steps': [['feed', 0, a], ['feed', 0, b], ['feed', 0, ALL]]})
    # after the endpoint's OWN close frame the peer's stream goes on (pings, data, finally its close frame): whatever is still delivered must
    # be exact, for every cut and for every pair (cut inside a control frame, read ending exactly at that frame's end)
    for mode in ('server', 'client'):
        rm = rolemask(mode, 7)
        items = [msg('text', 5, 1, mask=rm), ['ping', b'late-ping', rm], msg('bin', 4, 2, mask=rm), ['pong', b'', rm], ['ping', b'', rm],
                 msg('text', 130, 3, splits=[60], ctl=[[0, 'ping', b'x']], mask=rm), ['close', b'\x03\xe8', rm], msg('bin', 2, 4, mask=rm)]
        conn = {'items': items, 'initial': 0}
        stream, frames, _ = layout(conn)
        first_end = frames[0]['end']
        for c in range(first_end + 1, len(stream)):
            cases.append({'mode': mode, 'conns': [copy.deepcopy(conn)], 'steps': [['feed', 0, first_end], ['close', 0], ['feed', 0, c], ['feed', 0, ALL]]})
        for f in frames[1:]:
            for c in range(f['start'] + 1, f['end']):
                if f['end'] - f['start'] <= 20 or tier == 'thorough' or c <= f['hdr_end'] + 1:
                    cases.append({'mode': mode, 'conns': [copy.deepcopy(conn)],
                                  'steps': [['feed', 0, first_end], ['close', 0], ['feed', 0, c], ['feed', 0, f['end']], ['feed', 0, ALL]]})
    rm_of = {'server': 5, 'client': None}
    for mode in ('server', 'client'):
        rm = rm_of[mode]
        for n in (LENGTHS[5:] if tier == 'thorough' else [65536]):
            items = [msg('bin', 3, 1, mask=rm), msg('text', n, 2, mask=rm), msg('bin', 4, 1, mask=rm)]
            stream, frames, _ = layout({'items': items})
            offs = sorted({o for f in frames for o in list(range(f['start'], f['hdr_end'] + 3)) + [f['end'] - 1] if 0 < o < len(stream)})
            for c in offs:
                cases.append({'mode': mode, 'conns': [{'items': copy.deepcopy(items), 'initial': 0}], 'steps': [['feed', 0, c], ['feed', 0, ALL]]})
    return [sanitize(c) for c in cases[part::parts]]


# ------------------------------------------------------------------------------------------------
def plan(tier, seed):
    if tier == 'quick':
        return ([{'kind': 'corpus'}] + [{'kind': 'cuts', 'tier': 'quick', 'part': i, 'parts': 5} for i in range(5)] +
                [{'kind': 'random', 'seed': seed * 1000 + i, 'n': 260, 'big': 0.02} for i in range(10)])
    return ([{'kind': 'corpus'}] + [{'kind': 'cuts', 'tier': 'thorough', 'part': i, 'parts': 24} for i in range(24)] +
            [{'kind': 'random', 'seed': seed * 100000 + i, 'n': 3500, 'big': 0.01} for i in range(40)])


def evaluate(b, case):
    try:
        problems, oks, lay, tl, obs = run_case(case)
    except Unsettled as e:
        b.inconclusive_because('tree does not settle: %s' % e)
        return
    feat, nontrivial = features(case, lay, tl, obs)
    b.case(case, nontrivial=nontrivial)
    for k, n in feat.items():
        b.reached(k, n)
    for k, n in oks.items():
        b.ok(k, n)
    if not problems:
        return
    # counter-factual attribution (DESIGN.md 3.3): the smallest set of known triggers whose removal makes the case pass
    trig = triggers(case, lay, tl)
    memo = {}

    def passes(keys):
        if keys not in memo:
            try:
                memo[keys] = not run_case(neutralise(case, keys))[0]
            except Unsettled:
                memo[keys] = False
        return memo[keys]
    culprit = None
    for size in range(1, len(trig) + 1):
        culprit = next((ks for ks in itertools.combinations(trig, size) if passes(ks)), None)
        if culprit:
            break
    seen = set()
    for clause, detail in problems:
        if clause in seen:
            continue
        seen.add(clause)
        if culprit:
            for key in culprit:
                b.fail(case, clause, dict(detail, triggers_present=trig, removed_in_passing_twin=list(culprit)),
                       known=[(key, lambda ks=culprit: passes(ks))], dedup=detail.get('why'))
        else:
            b.fail(case, clause, dict(detail, triggers_present=trig), known=[(k, lambda k=k: passes((k,))) for k in trig], dedup=detail.get('why'))


def _cases(spec):
    if spec['kind'] == 'corpus':
        yield from corpus()
    elif spec['kind'] == 'cuts':
        yield from family_cases(spec['tier'], spec['part'], spec['parts'])
    else:
        rng = random.Random(spec['seed'])
        for _ in range(spec['n']):
            yield gen_case(rng, spec.get('big', 0.0))


def run_batch(spec):
    import circuits  # noqa: F401  (the real package under test)
    b = Batch(PROPERTY)
    if spec['kind'] == 'corpus':
        b.reached('ref_codec_rfc_vectors_ok', R.selfcheck())
    for case in _cases(spec):
        evaluate(b, case)
        # the verdict of this batch is already "violation": do not spend twins on thousands of further failing cases
        if sum(n for k, n in b.failure_keys.items() if k.startswith('UNATTRIBUTED')) >= 15:
            b.extra['batches_stopped_after_15_unattributed_failures'] = 1
            break
    return b.result()


def run_replay(case):
    b = Batch(PROPERTY)
    evaluate(b, unjson(case))
    return b.result()


ENGINE = 'event-injection'
TECHNIQUE = ('runtime monitoring: the real WebSocketCodec under an injection harness; inbound frames from an independent RFC 6455 '
             'encoder cut at chosen offsets, outbound frames decoded by an independent RFC 6455 decoder acting as conforming peer')
LEVEL_TEXT = ('Decoded read events (type and payload), pongs, and the frames written for write/close events of the real codec are '
              'compared with what an independent RFC 6455 reference prescribes, in server and client mode, over a fixed corpus (all '
              'length forms, fragmentations with interleaved control frames, closing handshakes followed by frames and writes), every '
              'single cut of a family of short streams, byte-at-a-time deliveries and thousands of seeded random cases. Held means: no '
              'mismatch on the executions run apart from the listed known findings; it is sampling plus small exhaustive sub-spaces, not a proof.')
LEVEL_NOTE = ('Trusted: vlib/ref_ws.py (checked against the examples of RFC 6455 5.7 on every run) and the injection harness. The '
              'codec is driven directly (nine corpus cases let the real WebSocketsDispatcher upgrade handshake create it); WebSocketClient '
              'and real sockets are not part of the executions. What happens to messages arriving between the endpoint\'s own close frame and the peer\'s is '
              'only required to be exact-or-absent.')

"""C02 - dispatch order: priority then FIFO per pass; handler priority; stop().

Oracle: the clauses of the statement evaluated on the ghost log of generated programs
(DESIGN.md section 4, C02): ORD, NOJUMP, NOREENTRY, HPRIO, STOP, ONCE (+ ALLRUN as a sanity clause).
"""
import random

from vlib.batch import Batch, BudgetExceeded, cpu_budget, unjson

PROPERTY = 'C02'
LEVEL = 'exploration'
RULE = ('fixed corpus + seeded random programs: external fire lists with priorities from {-2,-1,-0.5,0,0.5,1,3} per top-level pass, '
        'handler scripts firing further events (nesting <= 4) with priorities, 1-3 handlers per event with priorities from the same set '
        '(ties included), stop() placements, nested flush() in some handlers; non-trivial = >= 2 distinct event priorities in one pass '
        'snapshot and >= 1 event fired from a handler while snapshot events were still queued; distinct = hash of the program')
ASSUMPTIONS = [
    'no ordering is asserted among handlers of equal priority, nor among the events of a pass in which a handler called flush() '
    '(for those only NOJUMP/ONCE/HPRIO/STOP/NOREENTRY are asserted)',
    'a catch-all probe handler with priority 1000 marks the dispatch start of every event',
]
REQUIRED = ['stopping_handler_left_with_SystemExit_or_KeyboardInterrupt', 'stop_called_by_a_handler_that_does_not_take_the_event', 'stopping_handler_returns_a_generator', 'pass_with_mixed_priorities', 'fired_from_handler_during_pass', 'stop_called', 'nested_flush', 'equal_priority_ties',
            'negative_and_float_priorities', 'nested_flush_on_last_of_batch', 'multi_channel_event', 'stop_then_raise',
            'manager_with_many_events_behind_it', 'events_pending_on_a_component_that_joins_the_tree', 'event_object_fired_again_by_its_own_handler']
REQUIRED_OBLIGATIONS = ['ORD', 'NOJUMP', 'NOREENTRY', 'HPRIO', 'STOP', 'ONCE']
WORKER_TIMEOUT = {'quick': 300, 'thorough': 1500}
ENGINE = 'stepping-driver'
TECHNIQUE = 'runtime monitoring: trace-specification clauses evaluated offline over the ghost dispatch log of generated programs'
LEVEL_TEXT = ('Generated programs of fire(priority=p) calls from outside and from handlers, handler priorities, stop() placements and nested '
              'flushes run on the real queue/dispatcher; the recorded log (fire, dispatch start, handler start, stop, flush brackets) is checked '
              'against the six clauses of the statement. Held = no clause failed on the programs run (sampling of an unbounded program space).')
LEVEL_NOTE = ('Trusted: the ghost log written by generated handlers and a priority-1000 probe handler; the clause evaluator. Ordering among '
              'equal-priority handlers and inside passes containing a nested flush is not asserted (the statement does not define it).')

PRIOS = [-2, -1, -0.5, 0, 0, 0, 0.5, 1, 3]


def run_case(case):
    from vlib.prog import World
    w = World({'handlers': case['handlers'], 'mk': case.get('mk')})
    if case.get('preload'):
        # a long-lived manager: it has already queued and dispatched this many events (nobody listens to them) before the passes
        # under test begin - the ordering guarantees do not wear off with the number of events processed
        from circuits import Event
        left = int(case['preload'])
        while left > 0:
            n = min(left, 997)
            for _ in range(n):
                w.app.fire(Event.create('preload'))
            w.app.flush()
            left -= n
        while len(w.app):
            w.app.flush()
    if case.get('run_first'):
        # the manager has been through a run() of its own before the passes under test (the program stops itself; a late step of its
        # `stopped` handler may leave an event queued when run() returns): what is still queued then keeps its place in front of
        # everything fired afterwards.  Only the fire order of those left-overs is kept of that phase's log
        try:
            w.run(max_iters=300, drain=False)
        except BaseException as e:  # noqa: BLE001
            return [('API_RAISED', {'call': 'run', 'error': repr(e)})], {}, w
        left = [u for u, i in w.events.items() if not i['dispatched'] and not i['cancelled'] and not i.get('system')]
        w.log[:] = [e for e in w.log if e[0] == 'F' and e[1] in left]
        for u in list(w.events):
            if u not in left:
                del w.events[u]
                w.objs.pop(u, None)
        w.left_over_after_run = len(left)
    for ext in case['passes']:
        if isinstance(ext, dict):
            # events fired on a component that is not registered yet (they wait in its own queue), which then joins the tree: the
            # joined events are dispatched by the root in priority order, ties in the order they were fired
            from circuits import BaseComponent
            for _ in range(200):        # (nothing else is pending in the tree: an order between events counted by two different
                if not len(w.app):      #  queues is not defined by anything)
                    break
                w.flush()
            joiner = BaseComponent()
            for spec in ext['join']:
                w.fire(spec, target=joiner)
            joiner.register(w.app)
            w.flush()
            continue
        for spec in ext:
            w.fire(spec)
        w.flush()
    for _ in range(200):
        if not len(w.app):
            break
        w.flush()
    else:
        return [('ONCE', {'note': 'queue never drains'})], {}, w
    return evaluate(case, w)


def evaluate(case, w):
    problems = []
    marks = set()
    if any(isinstance(p_, dict) for p_ in case['passes']):
        marks.add('events_pending_on_a_component_that_joins_the_tree')
    if case.get('preload'):
        marks.add('manager_with_many_events_behind_it')
    if getattr(w, 'left_over_after_run', 0):
        marks.add('event_still_queued_when_an_earlier_run_returned')
    counts = {'ORD': 0, 'NOJUMP': 0, 'NOREENTRY': 0, 'HPRIO': 0, 'STOP': 0, 'ONCE': 0, 'ALLRUN': 0}
    declared = {}
    hchan = {}
    for hd in case['handlers']:
        declared.setdefault(hd['name'], []).append((hd['hid'], hd.get('prio', 0)))
        hchan[hd['hid']] = hd.get('channel')
    queued = {}
    seq = 0
    cur = None  # the running top-level pass
    hs = {}     # uid -> [(hid, prio)]
    stops = {}  # uid -> min prio at which stop was called first
    sigs = {hd["hid"]: hd.get("sig") for hd in case["handlers"]}
    nontrivial = False
    for entry in w.log:
        k = entry[0]
        if k == 'F':
            _, uid, parent, by, prio = entry
            seq += 1
            queued[uid] = (prio, seq)
            if cur is not None:
                cur['fired'].add(uid)
                if cur['remaining']:
                    marks.add('fired_from_handler_during_pass')
                    cur['fired_while_remaining'] = True
        elif k == 'FLC':
            if entry[1] == 0:
                snap = dict(queued)
                cur = {'snap': snap, 'remaining': set(snap), 'order': [], 'fired': set(), 'nested': False, 'fired_while_remaining': False}
                ps = {p for p, _ in snap.values()}
                if len(ps) >= 2:
                    marks.add('pass_with_mixed_priorities')
                if len(snap) > len(ps):
                    marks.add('equal_priority_ties')
                if any(p < 0 for p in ps) and any(isinstance(p, float) for p in ps):
                    marks.add('negative_and_float_priorities')
            else:
                marks.add('nested_flush')
                if cur is not None:
                    cur['nested'] = True
                    if not cur['remaining']:
                        marks.add('nested_flush_on_last_of_batch')
        elif k == 'FLR':
            if entry[1] == 0 and cur is not None:
                if not cur['nested']:
                    exp = sorted(cur['snap'], key=lambda u: cur['snap'][u])
                    counts['ORD'] += 1
                    if cur['order'] != exp:
                        problems.append(('ORD', {'expected_order': [[u, cur['snap'][u][0]] for u in exp],
                                                 'observed_order': [[u, cur['snap'].get(u, ['?'])[0]] for u in cur['order']]}))
                    if len({p for p, _ in cur['snap'].values()}) >= 2 and cur['fired_while_remaining']:
                        nontrivial = True
                cur = None
        elif k == 'D':
            uid = entry[1]
            queued.pop(uid, None)
            if cur is not None:
                if uid in cur['snap']:
                    cur['order'].append(uid)
                    cur['remaining'].discard(uid)
                elif uid in cur['fired']:
                    counts['NOJUMP'] += 1
                    if cur['remaining']:
                        problems.append(('NOJUMP', {'event': uid, 'dispatched_before_snapshot_events': sorted(cur['remaining'])}))
        elif k == 'HS':
            _, uid, hid, prio, fire_depth, _fd = entry
            counts['NOREENTRY'] += 1
            if fire_depth > 0:
                problems.append(('NOREENTRY', {'event': uid, 'handler': hid, 'inside_fire_depth': fire_depth}))
            lst = hs.setdefault(uid, [])
            if lst:
                counts['HPRIO'] += 1
                if prio > lst[-1][1]:
                    problems.append(('HPRIO', {'event': uid, 'sequence': lst + [(hid, prio)]}))
            if uid in stops:
                if prio < stops[uid]:
                    problems.append(('STOP', {'event': uid, 'stopped_at_priority': stops[uid], 'ran': [hid, prio]}))
            lst.append((hid, prio))
        elif k == 'APIERR':
            problems.append(('API_RAISED', {'call': entry[1], 'error': entry[2], 'in_handler_of_event': entry[3]}))
        elif k == 'PX':
            if entry[1] in stops:
                marks.add('stop_then_raise')
        elif k in ('SYSEXIT', 'KBINT'):
            if entry[1] in stops:
                marks.add('stopping_handler_left_with_SystemExit_or_KeyboardInterrupt')
        elif k == 'RG':
            if entry[1] in stops:
                marks.add('stopping_handler_returns_a_generator')
        elif k == 'STOP':
            _, uid, hid = entry
            marks.add('stop_called')
            if sigs.get(hid):
                marks.add('stop_called_by_a_handler_that_does_not_take_the_event')
            p = dict(declared[w.events[uid]['name']])[hid]
            stops.setdefault(uid, p)
    counts['STOP'] = len(stops) + sum(1 for c, _ in problems if c == 'STOP')  # one obligation per stopped event
    # ONCE + ALLRUN
    for uid, info in w.events.items():
        counts['ONCE'] += 1
        if info['dispatched'] != 1:
            problems.append(('ONCE', {'event': uid, 'name': info['name'], 'dispatched': info['dispatched']}))
            continue
        decl = declared.get(info['name'], [])
        chans = info['spec'].get('channels')
        if chans:
            marks.add('multi_channel_event')
            decl = [(h, p) for h, p in decl if hchan.get(h) in chans]
        ran = hs.get(uid, [])
        if info.get('refire_of') is not None:
            # the later dispatch of an event object that one of its own handlers fired again: whether an earlier stop() of that object
            # still holds for it is not stated - which of its handlers run is observed, not asserted
            marks.add('event_object_fired_again_by_its_own_handler')
            continue
        counts['ALLRUN'] += 1
        if uid in stops:
            must = sorted(h for h, p in decl if p > stops[uid])
            if any(h not in [x[0] for x in ran] for h in must) or len(ran) != len(set(ran)):
                problems.append(('ALLRUN', {'event': uid, 'ran': ran, 'must_have_run': must}))
        else:
            if sorted(h for h, _ in ran) != sorted(h for h, _ in decl):
                problems.append(('ALLRUN', {'event': uid, 'ran': ran, 'declared': decl}))
    info = {'marks': marks, 'counts': counts, 'nontrivial': nontrivial, 'events': len(w.events)}
    return problems, info, w


# ------------------------------------------------------------------------------------------------
def HD(hid, name, prio, body, gen=False):
    return {'hid': hid, 'name': name, 'prio': prio, 'gen': gen, 'body': body}


def EV(name, prio=0):
    d = {'name': name, 'prio': prio}
    if prio == 0:
        d['explicit_prio'] = False
    return d


def corpus():
    cs = []
    # mixed priorities, ties, events fired from handlers with lower priority value than queued ones
    cs.append({'name': 'prio-fifo', 'handlers': [
        HD(1, 'a', 0, [['fire', EV('c', -2)], ['fire', EV('c', 3)]]), HD(2, 'b', 0, [['fire', EV('c', -1)]]), HD(3, 'c', 0, [])],
        'passes': [[EV('a', 1), EV('b', -0.5), EV('a', 0), EV('b', 0), EV('a', -0.5), EV('b', 3), EV('a', 0.5), EV('c', -2)], [EV('a', 0)]]})
    # handler priorities and stop
    cs.append({'name': 'hprio-stop', 'handlers': [
        HD(1, 'a', 3, []), HD(2, 'a', 1, [['stop']]), HD(3, 'a', 1, []), HD(4, 'a', 0.5, []), HD(5, 'a', -1, []),
        HD(6, 'b', -2, []), HD(7, 'b', -0.5, [['fire', EV('a', 0)]]), HD(8, 'b', 0, []), HD(9, 'b', 0, [['stop']])],
        'passes': [[EV('a'), EV('b'), EV('a', 1)]]})
    # stop() called by handlers whose signature does not ask for the event (they reach it through its arguments): stopped is stopped
    for sig in ('noevent', 'other_name'):
        cs.append({'name': 'stop-without-event-parameter-' + sig, 'handlers': [
            HD(1, 'a', 3, []), dict(HD(2, 'a', 1, [['stop']]), sig=sig), HD(3, 'a', 1, []), dict(HD(4, 'a', 0.5, []), sig=sig), HD(5, 'a', -1, []),
            dict(HD(6, 'b', 2, [['fire', EV('a', 0)], ['stop'], ['ret', 'v']]), sig=sig), dict(HD(7, 'b', -0.5, []), sig=sig), HD(8, 'b', -2, []),
            dict(HD(9, 'c', 0, [['stop'], ['raise']]), sig=sig), dict(HD(10, 'c', 0, []), sig=sig), dict(HD(11, 'c', -1, []), sig=sig)],
            'passes': [[EV('a'), EV('b'), EV('c'), EV('a', 1)], [EV('c', -1), EV('b', 2)]]})
    # a manager that has been through run() before: an event fired by a late step of its `stopped` handler may still be queued when run()
    # returns (how late is swept); events of the same priority fired afterwards come after it
    for k_ in range(0, 9):
        pr = (0, 2, -1.5)[k_ % 3]
        cs.append({'name': 'left-over-of-an-earlier-run-%d' % k_, 'run_first': True, 'handlers': [
            HD(1, 'started', 0, [['stopmgr', None]]), HD(2, 'stopped', 0, [['yield', None]] * k_ + [['fire', EV('late', pr)]], gen=True),
            HD(3, 'late', 0, [['fire', EV('follow', pr)], ['fire', EV('follow', pr)]]), HD(4, 'follow', 0, [])],
            'passes': [[EV('follow', pr), EV('late', pr), EV('follow', pr)], [EV('follow', pr)]]})
    # stop() by a handler that then leaves with SystemExit / KeyboardInterrupt (a shutdown handler): stopped is stopped; the exit alone stops nothing
    cs.append({'name': 'stop-then-exit', 'handlers': [
        HD(1, 'a', 10, [['stop'], ['sysexit', 3]]), HD(2, 'a', 5, []), HD(3, 'a', -1.5, []),
        HD(4, 'b', 2, [['stop'], ['kbint']]), HD(5, 'b', 2, []), HD(6, 'b', 0, []),
        HD(7, 'c', 1, [['sysexit', None]]), HD(8, 'c', 0, [['stop'], ['sysexit', None]]), HD(9, 'c', -1, []),
        dict(HD(10, 'd', 1, [['stop'], ['sysexit', 'bye']]), sig='noevent'), HD(11, 'd', 0.5, [])],
        'passes': [[EV('a'), EV('b'), EV('c'), EV('d', 1)], [EV('d'), EV('c', -1), EV('a', 2)]]})
    # stop() followed by an exception in the same handler still stops the event; a raise alone does not
    cs.append({'name': 'stop-then-raise', 'handlers': [
        HD(1, 'a', 5, []), HD(2, 'a', 2.5, [['stop'], ['raise']]), HD(3, 'a', 1, []), HD(4, 'a', -0.5, []),
        HD(5, 'b', 2, [['raise']]), HD(6, 'b', 1, [['fire', EV('a', -1)], ['stop'], ['raise']]), HD(7, 'b', 0, [])],
        'passes': [[EV('a'), EV('b'), EV('a', 1)]]})
    # what the stopping handler returns makes no difference: nothing, a value, a generator object (the rest of its work as a coroutine)
    cs.append({'name': 'stop-then-return', 'handlers': [
        HD(1, 'a', 7, []), HD(2, 'a', 2.5, [['stop'], ['retgen', 2]]), HD(3, 'a', 1, []), HD(4, 'a', 0, []),
        HD(5, 'b', 1, [['stop'], ['ret', 'v']]), HD(6, 'b', 0, []), HD(7, 'b', -0.5, []),
        HD(8, 'c', 0, [['retgen', 1]]), HD(9, 'c', -0.5, [['stop'], ['retgen', 0]]), HD(10, 'c', -3, []), HD(11, 'c', -3, [])],
        'passes': [[EV('a'), EV('b'), EV('c')], [EV('c', 1), EV('a', -1)]]})
    # a handler stops the event and hands the same object on (fires it again): the stop holds for the delivery in progress
    cs.append({'name': 'stop-then-forward', 'handlers': [
        HD(1, 'a', 10, []), HD(2, 'a', 2.5, [['stop'], ['refire_same', None]]), HD(3, 'a', 0, []), HD(4, 'a', -3, []),
        HD(5, 'b', 1, [['refire_same', -1.5], ['stop']]), HD(6, 'b', 0, []), HD(7, 'c', 2, [['stop'], ['refire_same', 3], ['fire', EV('a', 0)]]), HD(8, 'c', 1, [])],
        'passes': [[EV('a'), EV('b'), EV('c')], [EV('c', 1), EV('a', -1)]]})
    # nested flush in the middle and on the last event of a batch
    cs.append({'name': 'nested-flush', 'handlers': [
        HD(1, 'a', 0, [['fire', EV('c', -1)], ['flush'], ['fire', EV('c', 1)]]), HD(2, 'b', 0, [['fire', EV('c', 0)], ['flush']]),
        HD(3, 'c', 0, [['fire', EV('d', 0)]]), HD(4, 'd', 0, [])],
        'passes': [[EV('a', 0), EV('b', 1), EV('c', 2)], [EV('b', 0)], [EV('a', -1), EV('a', -1)]]})
    # an event fired to several channels: its handlers on all of them run in one descending priority order, stop() cuts across channels
    cs.append({'name': 'multi-channel', 'handlers': [
        dict(HD(1, 'm', 1, []), channel='a'), dict(HD(2, 'm', -2, []), channel='a'), dict(HD(3, 'm', 3, []), channel='b'),
        dict(HD(4, 'm', 0.5, []), channel='b'), dict(HD(5, 'h', 1, []), channel='a'), dict(HD(6, 'h', 3, [['stop']]), channel='b'),
        dict(HD(7, 'h', -1, []), channel='b'), dict(HD(8, 'h', 0, []), channel='c')],
        'passes': [[dict(EV('m'), channels=['a', 'b']), dict(EV('m'), channels=['b', 'a']), dict(EV('h'), channels=['a', 'b']),
                    dict(EV('h'), channels=['c', 'a', 'b']), dict(EV('m', 1), channels=['a'])]]})
    # deep nesting with priorities that would jump the queue if dispatched in the same pass
    cs.append({'name': 'deep', 'handlers': [
        HD(1, 'a', 0, [['fire', EV('b', -2)]]), HD(2, 'b', 0, [['fire', EV('c', -2)]]), HD(3, 'c', 0, [['fire', EV('d', -2)]]), HD(4, 'd', 0, []),
        HD(5, 'a', 1, [['fire', EV('d', 3)]])],
        'passes': [[EV('a', 0), EV('d', 0), EV('a', -1), EV('d', 1)]]})
    # events waiting on a not yet registered component, which then joins
    jh = [HD(1, 'a', 0, [['fire', EV('c', -1)]]), HD(2, 'b', 0, []), HD(3, 'c', 0, [])]
    cs.append({'name': 'late-join', 'handlers': jh, 'passes': [
        {'join': [EV('a', 0), EV('b', 0), EV('c', 0), EV('a', 1), EV('b', -0.5), EV('b', 0), EV('c', 1), EV('a', 0)]},
        [EV('a', 0), EV('b', 0)], {'join': [EV('b', 0), EV('a', 0), EV('c', 0)]}, {'join': [EV('c', 2.5), EV('c', 2.5), EV('a', -2)]}]})
    # the same ordering guarantees on a manager that has already processed many events; the passes straddle 2**15, 2**16 and 2**17
    # events in the manager's lifetime, at every alignment of the batch
    tie = {'handlers': [HD(1, 'a', 0, [['fire', EV('c', -1)], ['fire', EV('c', 0)]]), HD(2, 'b', 0, [['fire', EV('c', 0)]]), HD(3, 'c', 0, [])],
           'passes': [[EV('a', 0), EV('b', 0), EV('a', 0), EV('b', -0.5), EV('b', 0), EV('a', 0.5), EV('c', 0), EV('b', 0)], [EV('a', 0), EV('b', 0), EV('c', 0)]]}
    for base in (1 << 15, 1 << 16, 1 << 17):
        for off in (0, 1, 2, 3, 5, 8, 11):
            cs.append(dict(tie, name='long-lived-%d-minus-%d' % (base, off), preload=base - off))
    return cs


def gen_case(rng):
    nlev = rng.randint(2, 4)
    names = {lv: ['e%d_%d' % (lv, i) for i in range(rng.randint(1, 2))] for lv in range(nlev)}
    hid = 0
    handlers = []
    refirers = set()
    for lv in range(nlev):
        for nm in names[lv]:
            for _ in range(rng.randint(1, 3)):
                hid += 1
                body = []
                for _ in range(rng.randint(0, 3)):
                    r = rng.random()
                    if r < 0.6 and lv + 1 < nlev:
                        tl = rng.randint(lv + 1, nlev - 1)
                        body.append(['fire', EV(rng.choice(names[tl]), rng.choice(PRIOS))])
                    elif r < 0.72:
                        body.append(['stop'])
                        if rng.random() < 0.15 and nm not in refirers:
                            # (one forwarding handler per event type, forwarding once)
                            refirers.add(nm)
                            body.append(['refire_same', rng.choice([None, None, -1, 1.5])])
                    elif r < 0.82:
                        body.append(['flush'])
                r = rng.random()
                if r < 0.03:
                    body.append(rng.choice([['sysexit', None], ['sysexit', 3], ['kbint']]))   # ... or leave with SystemExit / KeyboardInterrupt
                elif r < 0.12:
                    body.append(['raise'])   # a handler may stop the event and then fail: the stop still holds
                elif r < 0.3:
                    # ... or return something: a value, or a generator object it delegates the rest of its work to
                    body.append(rng.choice([['ret', 'v'], ['retgen', rng.randint(0, 2)], ['retgen', 1]]))
                handlers.append(HD(hid, nm, rng.choice(PRIOS), body))
    passes = []
    for _ in range(rng.randint(1, 4)):
        passes.append([EV(rng.choice(names[rng.randint(0, nlev - 1)]), rng.choice(PRIOS)) for _ in range(rng.randint(1, 7))])
    if rng.random() < 0.35:
        # a dedicated name whose handlers all listen on explicit channels, fired to several of them at once
        for _ in range(rng.randint(2, 5)):
            hid += 1
            body = [['stop']] if rng.random() < 0.2 else []
            handlers.append(dict(HD(hid, 'mc', rng.choice(PRIOS), body), channel=rng.choice('abc')))
        for ps in passes:
            if rng.random() < 0.7:
                ps.insert(rng.randint(0, len(ps)), dict(EV('mc', rng.choice(PRIOS)), channels=rng.sample(['a', 'b', 'c'], rng.randint(1, 3))))
    if rng.random() < 0.2:
        for _ in range(rng.randint(1, 2)):
            passes.insert(rng.randint(0, len(passes)), {'join': [EV(rng.choice(names[rng.randint(0, nlev - 1)]), rng.choice(PRIOS)) for _ in range(rng.randint(2, 7))]})
    case = {'handlers': handlers, 'passes': passes}
    if rng.random() < 0.25:
        # some handlers do not take the event object (how a handler is declared changes nothing about what it may do)
        for h in handlers:
            if rng.random() < 0.4:
                h['sig'] = rng.choice(['noevent', 'other_name'])
    if rng.random() < 0.2:
        case['mk'] = rng.choice(['attr', 'renamed'])   # events whose name is not their class name
    if rng.random() < 0.01:
        case['preload'] = rng.choice([1 << 15, 1 << 16]) - rng.randint(0, 12)
    return case


def plan(tier, seed):
    if tier == 'quick':
        return [{'kind': 'corpus', 'part': i, 'of': 6} for i in range(6)] + [{'kind': 'random', 'seed': seed * 1000 + i, 'n': 250} for i in range(16)]
    return [{'kind': 'corpus', 'part': i, 'of': 6} for i in range(6)] + [{'kind': 'random', 'seed': seed * 100000 + i, 'n': 4000} for i in range(64)]


def evaluate_case(b, case):
    try:
        with cpu_budget(30):
            problems, info, w = run_case(case)
    except BudgetExceeded as e:
        b.fail(case, 'NO_PROGRESS', {'error': str(e), 'note': 'the dispatcher/loop did not terminate on a finite program'}, dedup='')
        return
    except Exception as e:
        import traceback
        b.fail(case, 'DISPATCH_RAISED', {'error': repr(e), 'tb': traceback.format_exc(limit=8)}, dedup=type(e).__name__)
        return
    b.case(case, nontrivial=info.get('nontrivial', False))
    for m in info.get('marks', ()):
        b.reached(m)
    b.reached('events_dispatched', info.get('events', 0))
    bad = {}
    for clause, detail in problems:
        bad.setdefault(clause, detail)
    for clause, n in info.get('counts', {}).items():
        good = n - sum(1 for c, _ in problems if c == clause)
        if good > 0:
            b.ok(clause, good)
    for clause, detail in bad.items():
        detail = dict(detail)
        detail['log_tail'] = [list(x) for x in w.log[-40:]]
        b.fail(case, clause, detail, dedup='')


def run_batch(spec):
    import circuits  # noqa: F401
    b = Batch(PROPERTY)
    if spec['kind'] == 'corpus':
        for i, case in enumerate(corpus()):
            if i % spec.get('of', 1) == spec.get('part', 0):
                evaluate_case(b, case)
    else:
        rng = random.Random(spec['seed'])
        for _ in range(spec['n']):
            evaluate_case(b, gen_case(rng))
    return b.result()


def run_replay(case):
    b = Batch(PROPERTY)
    evaluate_case(b, unjson(case))
    return b.result()

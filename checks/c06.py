"""C06 - call()/wait() resume the caller exactly once with the result, leaving no residue.

Oracle: (handler, step, received value) log of generated coroutine handlers, callee production
log, loop-iteration counter, feedback events, and handler tables / task set before vs. after;
liveness decided at quiescence of a real run() (DESIGN.md section 4, C06).
"""
import random

from vlib.batch import Batch, BudgetExceeded, cpu_budget, unjson

PROPERTY = 'C06'
LEVEL = 'exploration'
RULE = ('fixed corpus (call/wait by object and by name, sequential and nested calls, callee raising before/after its first yield, callee '
        'with several handlers, timeouts 0/1/2/5 against slow callees, several roots in flight) + seeded random acyclic call graphs over '
        '<= 6 event types; every program runs under the real run(); non-trivial = >= 2 suspensions and (nested call or >= 2 roots in flight '
        'or a failing callee or a timeout); distinct = hash of the program')
ASSUMPTIONS = [
    'waits *by name* are never generated concurrently for the same name (the API cannot tell them apart)',
    'liveness decided at quiescence: queue empty, no runnable task for two loop iterations',
    'handler tables are read through the internal names _handlers/_globals/_tasks (inconclusive if they disappear)',
    'a generator handler that yields None right after catching TimeoutError is not generated',
]
REQUIRED = ['generator_handler_flushes_the_queue_itself', 'handler_suspended_by_sleep', 'caller_fired_an_event_after_being_resumed_that_outlives_its_handlers', 'namesake_of_an_event_awaited_by_name_called_meanwhile', 'awaited_event_fired_to_two_channels', 'awaited_by_name_while_fired_to_two_channels', 'several_handlers_waiting_for_one_event_instance', 'callee_on_explicit_channel', 'callee_with_success_channels', 'falsy_value_after_call', 'call_by_object', 'wait_by_object', 'wait_by_name', 'nested_call', 'sequential_calls', 'callee_raises_plain',
            'callee_generator_raises_first_step', 'callee_generator_raises_after_yield', 'callee_multi_handler', 'timeout_expired',
            'timeout_not_expired', 'timeout_zero', 'roots_in_flight_2plus', 'same_event_type_called_concurrently']
REQUIRED_OBLIGATIONS = ['RESUME_ONCE', 'RESULT', 'AFTER_CALLEE', 'TIMEOUT_NOT_EARLY', 'CALLER_FEEDBACK', 'CALLER_VALUE', 'RESIDUE']
WORKER_TIMEOUT = {'quick': 300, 'thorough': 1500}
ENGINE = 'stepping-driver'
TECHNIQUE = 'runtime monitoring: coroutine step/receive log with unique values vs. callee production log, residue comparison of handler tables at quiescence, under run()'
LEVEL_TEXT = ('Generated acyclic call/wait programs run under the real run(); each suspension must be followed by exactly one resumption carrying the '
              'callee Value whose content equals the callee\'s own (unique) productions and error flag, after the callee\'s last handler step, or by '
              'TimeoutError not before the given number of loop iterations; callers then get their value/success/complete; at quiescence the '
              'handler tables equal their initial contents and no task is left. Held = no clause failed on the programs run.')
LEVEL_NOTE = 'Trusted: ghost log, quiescence detector, internal table names for the residue comparison; sampling of the program space.'


def table_snapshot(w):
    snap = {}
    comps = [w.app] + list(w.app.components)
    for c in comps:
        hs = getattr(c, '_handlers')
        snap[id(c)] = ({k: frozenset(v) for k, v in hs.items()}, frozenset(getattr(c, '_globals')))
    return snap, comps


def run_case(case):
    from vlib.prog import World, norm
    w = World({'handlers': case['handlers'], 'mk': case.get('mk')})
    before, comps = table_snapshot(w)
    for spec in case['fires']:
        w.fire(spec)
    settled = w.run(max_iters=1500)
    if w.run_raised is not None:
        return [('LOOP_RAISED', {'error': repr(w.run_raised)})], {'marks': set(), 'counts': {}}, w
    if not settled:
        return None, {'inconclusive': 'run() did not become quiescent in 1500 iterations'}, w
    after, _ = table_snapshot(w)
    return evaluate(case, w, norm, before, after, comps)


def evaluate(case, w, norm, before, after, comps):
    problems = []
    marks = set()
    counts = dict.fromkeys(REQUIRED_OBLIGATIONS, 0)
    decl = {}
    for h in case['handlers']:
        decl.setdefault(h['name'], []).append(h)
    steps, prods, susp, rx, fb = {}, {}, [], {}, {}
    for i, e in enumerate(w.log):
        k = e[0]
        if k in ('HS', 'HE', 'GY', 'GR', 'P', 'PX'):
            steps.setdefault(e[1], []).append(i)
            if k in ('P', 'PX'):
                prods.setdefault(e[1], []).append(e)
        elif k == 'SUSP':
            susp.append((i, e))
        elif k == 'RX':
            rx.setdefault((e[1], e[2], e[3], e[4]), []).append((i, e))
        elif k == 'FB':
            fb.setdefault((e[2], e[1]), []).append(i)

    def expected_value(cu):
        items = [p[3] if p[0] == 'P' else ['ERR', p[3]] for p in prods.get(cu, [])]
        raises = [p for p in prods.get(cu, []) if p[0] == 'PX']
        return (None if not items else items[0] if len(items) == 1 else items), bool(raises)

    nsusp = 0
    feat = set()
    inflight = {}
    for i, s in susp:
        _, uid, hid, step, cu, kind, timeout, tick = s
        nsusp += 1
        marks.add({'call': 'call_by_object', 'wait': 'wait_by_object', 'waitname': 'wait_by_name'}[kind])
        cname = w.events[cu]['name']
        if w.events[uid]['parent'] is not None and w.events[uid].get('via'):
            marks.add('nested_call')
            feat.add('nested')
        if step >= 1 and any(x[1][1:3] == (uid, hid) and x[1][3] < step for x in susp if x[0] < i):
            marks.add('sequential_calls')
        if len(decl.get(cname, [])) >= 2:
            marks.add('callee_multi_handler')
        for h in decl.get(cname, []):
            body = h['body']
            if ['raise'] in body:
                if not h['gen']:
                    marks.add('callee_raises_plain')
                elif body.index(['raise']) == 0:
                    marks.add('callee_generator_raises_first_step')
                elif any(a[0] in ('yield', 'call', 'wait', 'sleep') for a in body[:body.index(['raise'])]):
                    marks.add('callee_generator_raises_after_yield')
                feat.add('failing')
        if w.events[cu].get('waiters', 1) >= 2:
            marks.add('several_handlers_waiting_for_one_event_instance')
            feat.add('shared')
        got = rx.get((uid, hid, step + 1, cu), [])
        counts['RESUME_ONCE'] += 1
        detail = {'caller_event': uid, 'handler': hid, 'step': step, 'callee_event': cu, 'callee_name': cname, 'kind': kind,
                  'timeout': timeout, 'resumptions': [list(g[1][5:]) for g in got]}
        if len(got) != 1:
            detail['note'] = 'never resumed (system quiescent)' if not got else 'resumed more than once'
            problems.append(('RESUME_ONCE', detail))
            continue
        gi, g = got[0]
        # same event type in flight for another caller?
        for (ocu, ostart, oend) in inflight.get(cname, []):
            if ocu != cu and ostart < gi and i < oend:
                marks.add('same_event_type_called_concurrently')
        inflight.setdefault(cname, []).append((cu, i, gi))
        if g[5] == 'TIMEOUT':
            marks.add('timeout_expired')
            feat.add('timeout')
            counts['TIMEOUT_NOT_EARLY'] += 1
            if timeout is None or g[8] - tick < timeout:
                detail['iterations_waited'] = g[8] - tick
                problems.append(('TIMEOUT_NOT_EARLY', detail))
            if timeout == 0:
                marks.add('timeout_zero')
            continue
        if timeout is not None:
            marks.add('timeout_not_expired')
        exp, exp_err = expected_value(cu)
        counts['RESULT'] += 1
        if g[6] != exp or bool(g[7]) != exp_err:
            detail.update({'expected_value': exp, 'expected_errors': exp_err, 'received_value': g[6], 'received_errors': g[7]})
            problems.append(('RESULT', detail))
        counts['AFTER_CALLEE'] += 1
        last = max(steps.get(cu, [-1]))
        started = sorted(w.log[j][2] for j in steps.get(cu, []) if w.log[j][0] == 'HS')
        ended = sorted(w.log[j][2] for j in steps.get(cu, []) if w.log[j][0] == 'HE' and j < gi)
        if gi < last or started != ended:
            detail.update({'resumed_at': gi, 'callee_last_step_at': last, 'callee_handlers_started': started, 'finished_before_resume': ended})
            problems.append(('AFTER_CALLEE', detail))
    if any(h.get('channel') for h in case['handlers']):
        marks.add('callee_on_explicit_channel')
    if any(a[0] in ('call', 'wait', 'waitname') and len(a[1].get('channels', ())) >= 2 for h in case['handlers'] for a in h['body']):
        marks.add('awaited_event_fired_to_two_channels')
    wn = {a[1]['name'] for h in case['handlers'] for a in h['body'] if a[0] == 'waitname'}
    if any(a[0] == 'call' and a[1]['name'] in wn for h in case['handlers'] for a in h['body']):
        marks.add('namesake_of_an_event_awaited_by_name_called_meanwhile')
    if any(a[0] == 'waitname' and len(a[1].get('channels', ())) >= 2 for h in case['handlers'] for a in h['body']):
        marks.add('awaited_by_name_while_fired_to_two_channels')
    if any(a[0] in ('call', 'wait', 'waitname') and a[1].get('success_channels') for h in case['handlers'] for a in h['body']):
        marks.add('callee_with_success_channels')
    if any(a[0] == 'sleep' for h in case['handlers'] for a in h['body']):
        marks.add('handler_suspended_by_sleep')
    if any(a[0] == 'flush' for h in case['handlers'] if h['gen'] for a in h['body']):
        marks.add('generator_handler_flushes_the_queue_itself')
    for h in case['handlers']:
        b_ = h['body']
        if any(a[0] == 'yieldlit' and i > 0 and b_[i - 1][0] in ('call', 'wait', 'waitname') for i, a in enumerate(b_)):
            marks.add('falsy_value_after_call')
    roots = [u for u, info in w.events.items() if info['parent'] is None]
    if len(roots) >= 2:
        marks.add('roots_in_flight_2plus')
        feat.add('roots')
    # the caller's own event completes as if the handler had run synchronously
    kids = {}
    for u, info in w.events.items():
        if info['parent'] is not None:
            kids.setdefault(info['parent'], []).append(u)

    def descendants(u):
        out, todo = [], list(kids.get(u, ()))
        while todo:
            x = todo.pop()
            out.append(x)
            todo.extend(kids.get(x, ()))
        return out
    for uid, info in w.events.items():
        hs = decl.get(info['name'], [])
        started = sorted(w.log[j][2] for j in steps.get(uid, []) if w.log[j][0] == 'HS')
        ended = sorted(w.log[j][2] for j in steps.get(uid, []) if w.log[j][0] == 'HE')
        if not any(h['gen'] for h in hs) or info['cancelled']:
            continue
        counts['CALLER_VALUE'] += 1
        exp, exp_err = expected_value(uid)
        v = w.objs[uid].value
        if started != ended:
            problems.append(('CALLER_VALUE', {'event': uid, 'name': info['name'], 'note': 'a handler of this event never finished',
                                              'started': started, 'finished': ended}))
            continue
        if norm(v.value) != exp or bool(v.errors) != exp_err:
            problems.append(('CALLER_VALUE', {'event': uid, 'name': info['name'], 'expected': exp, 'observed': norm(v.value),
                                              'errors': v.errors, 'expected_errors': exp_err}))
        last = max(steps.get(uid, [-1]))
        # "as if the handler had run synchronously": what the handler fired before AND after it was resumed are effects of its event alike,
        # so <name>_complete comes after the last handler step of everything this event caused, directly or not
        last_all = max([last] + [j for d in descendants(uid) for j in steps.get(d, [])])
        if last_all > last and info['flags'].get('complete'):
            first_rx = next((i for i, e in enumerate(w.log) if e[0] == 'RX' and e[1] == uid), None)
            if first_rx is not None and any(e[0] == 'F' and e[2] == uid and j > first_rx for j, e in enumerate(w.log)):
                marks.add('caller_fired_an_event_after_being_resumed_that_outlives_its_handlers')
        for flag in ('success', 'complete'):
            if not info['flags'].get(flag):
                continue
            counts['CALLER_FEEDBACK'] += 1
            want = 0 if (flag == 'success' and exp_err) else 1
            seen = fb.get((uid, flag), [])
            bound = last_all if flag == 'complete' else last
            if len(seen) != want or (seen and seen[0] < bound):
                problems.append(('CALLER_FEEDBACK', {'event': uid, 'name': info['name'], 'feedback': flag, 'seen_at': seen, 'expected': want,
                                                     'last_handler_step_at': last, 'last_step_of_anything_it_caused_at': last_all}))
    # residue
    counts['RESIDUE'] += 1
    leftovers = []
    for c in comps:
        b_h, b_g = before[id(c)]
        a_h, a_g = after[id(c)]
        for name in set(b_h) | set(a_h):
            extra = a_h.get(name, frozenset()) - b_h.get(name, frozenset())
            missing = b_h.get(name, frozenset()) - a_h.get(name, frozenset())
            if extra or missing:
                leftovers.append({'component': type(c).__name__, 'event_name': name, 'extra_handlers': len(extra), 'missing_handlers': len(missing)})
        if a_g != b_g:
            leftovers.append({'component': type(c).__name__, 'globals_changed': True})
    if w.app._tasks:
        leftovers.append({'tasks_left': len(w.app._tasks)})
    if leftovers:
        problems.append(('RESIDUE', {'leftovers': leftovers}))
    nontrivial = nsusp >= 2 and bool(feat)
    return problems, {'marks': marks, 'counts': counts, 'nontrivial': nontrivial}, w


# ------------------------------------------------------------------------------------------------
def HD(hid, name, body, gen=False, prio=0):
    return {'hid': hid, 'name': name, 'prio': prio, 'gen': gen, 'body': body}


SF = {'success': True, 'complete': True}


def corpus():
    cs = []
    E = lambda n, **k: dict({'name': n}, **k)  # noqa: E731
    # call / wait / wait by name, sequential and nested, multi-handler callee
    cs.append({'name': 'basic', 'handlers': [
        HD(1, 'a', [['call', E('b')], ['yield', 'x'], ['wait', E('c')], ['waitname', E('d')], ['ret', 'end']], gen=True),
        HD(2, 'b', [['call', E('c')], ['ret', 'b']], gen=True), HD(3, 'c', [['ret', 'c1']]), HD(4, 'c', [['yield', 'c2'], ['yield', None], ['yield', 'c3']], gen=True, prio=1),
        HD(5, 'd', [['ret', 'd']])], 'fires': [E('a', flags=SF)]})
    # callee on an explicit channel
    cs.append({'name': 'callee-on-channel', 'handlers': [
        HD(1, 'a', [['call', dict(E('b'), channels=['a'])], ['wait', dict(E('c'), channels=['a'])], ['ret', 'end']], gen=True),
        dict(HD(2, 'b', [['yield', 'b1'], ['ret', 'b2']], gen=True), channel='a'), dict(HD(3, 'c', [['ret', 'c']]), channel='a'),
        dict(HD(4, 'c', [['call', dict(E('b'), channels=['a'])], ['ret', 'c2']], gen=True, prio=1), channel='a')],
        'fires': [E('a', flags=SF), E('a', flags=SF)]})
    # callee on an explicit channel whose success notification is routed elsewhere (success_channels, as circuits.node sets it):
    # the caller must still be resumed - the internal done notification belongs to the channels the callee was fired on
    SC = {'success_channels': ['elsewhere']}
    cs.append({'name': 'callee-with-success-channels', 'handlers': [
        HD(1, 'a', [['call', dict(E('b', **SC), channels=['a'])], ['wait', dict(E('c', flags={'success': True}, **SC), channels=['a'])],
                    ['call', dict(E('b', flags={'success': True}, **SC), channels=['a']), {'timeout': 30}], ['ret', 'end']], gen=True),
        dict(HD(2, 'b', [['yield', 'b1'], ['ret', 'b2']], gen=True), channel='a'), dict(HD(3, 'c', [['ret', 'c']]), channel='a')],
        'fires': [E('a', flags=SF), E('a', flags=SF)]})
    # the awaited event is fired to two channels at once, its handlers live on both; awaited by object, by name (from a component that
    # listens on every channel), called
    AB = {'channels': ['a', 'b']}
    for kind in ('call', 'wait', 'waitname'):
        cs.append({'name': 'two-channels-' + kind, 'handlers': [
            HD(1, 'a', [[kind, dict(E('foo'), **AB)], ['yield', 'x'], [kind, dict(E('bar', flags={'success': True}), channels=['b', 'a'])], ['ret', 'end']], gen=True),
            dict(HD(2, 'foo', [['ret', 'A']]), channel='a'), dict(HD(3, 'foo', [['yield', 'B1'], ['ret', 'B2']], gen=True), channel='b'),
            dict(HD(4, 'bar', [['ret', 'C']], prio=1), channel='b'), dict(HD(5, 'bar', [['raise']]), channel='a')],
            'fires': [E('a', flags=SF), E('a', flags=SF)] if kind != 'waitname' else [E('a', flags=SF)]})
    # a wait by name has latched onto one event of that name; another event of the same name, called by somebody else a little later,
    # finishes EARLIER (its handler is busy for fewer steps): the waiter is resumed by its own event only
    for long_, short, delay in ((6, 0, 2), (5, 1, 3), (8, 2, 2)):
        cs.append({'name': 'by-name-and-a-shorter-namesake-%d-%d' % (long_, short), 'handlers': [
            HD(1, 'wn', [['waitname', E('job', steps=long_)], ['yield', 'after'], ['ret', 'w']], gen=True),
            HD(2, 'cl', [['yield', None]] * delay + [['call', E('job', steps=short)], ['ret', 'c']], gen=True),
            HD(3, 'job', [['yield', 'j1'], ['yieldsteps'], ['ret', 'j2']], gen=True)],
            'fires': [E('wn', flags=SF), E('cl', flags=SF)]})
    # what a handler fires AFTER it has been resumed is as much an effect of its event as what it fired before: a fire-and-forget event
    # whose handler keeps going for several iterations, a second call whose time-out expires while the callee keeps going, a fire from the
    # `except TimeoutError` path - the caller's <name>_complete waits for all of them
    LONG = HD(9, 'long', [['yield', None]] * 6 + [['ret', 'L']], gen=True)
    for kind in ('call', 'wait', 'waitname'):
        cs.append({'name': 'fire-after-resume-' + kind, 'handlers': [
            HD(1, 'a', [[kind, E('b')], ['fire', E('long')], ['ret', 'end']], gen=True), HD(2, 'b', [['yield', 'b1'], ['ret', 'b2']], gen=True), dict(LONG)],
            'fires': [E('a', flags=SF)]})
        cs.append({'name': 'timed-out-second-call-' + kind, 'handlers': [
            HD(1, 'a', [[kind, E('b')], ['call', E('long'), {'timeout': 1}], ['ret', 'end']], gen=True), HD(2, 'b', [['ret', 'b']]), dict(LONG)],
            'fires': [E('a', flags=SF)]})
    cs.append({'name': 'fire-after-timeout', 'handlers': [
        HD(1, 'a', [['call', E('long'), {'timeout': 0}], ['fire', E('long2')], ['yield', 'x'], ['ret', 'end']], gen=True), dict(LONG),
        HD(8, 'long2', [['yield', None]] * 9 + [['ret', 'L2']], gen=True)], 'fires': [E('a', flags=SF)]})
    cs.append({'name': 'nested-fire-after-resume', 'handlers': [
        HD(1, 'a', [['call', E('m')], ['ret', 'end']], gen=True), HD(2, 'm', [['wait', E('b')], ['fire', E('long')], ['ret', 'm']], gen=True),
        HD(3, 'b', [['ret', 'b']]), dict(LONG)], 'fires': [E('a', flags=SF), E('a', flags={'complete': True})]})
    # handlers that sleep (`yield sleep(0)`: the other way a handler gets suspended) - in the caller before and after its call, in the callee,
    # in the callee of a call that times out
    cs.append({'name': 'sleeping-handlers', 'handlers': [
        HD(1, 'a', [['sleep', 0], ['call', E('b')], ['yield', None], ['sleep', 0], ['wait', E('c')], ['yield', 'x'], ['sleep', 0], ['ret', 'end']], gen=True),
        HD(2, 'b', [['sleep', 0], ['yield', 'b1'], ['sleep', 0], ['ret', 'b2']], gen=True), HD(3, 'b', [['ret', 'b3']], prio=1),
        HD(4, 'c', [['sleep', 0], ['sleep', 0], ['raise']], gen=True), HD(5, 'c', [['sleep', 0]], gen=True, prio=1)],
        'fires': [E('a', flags=SF), E('a', flags=SF)]})
    cs.append({'name': 'flushing-handlers', 'handlers': [
        HD(1, 'a', [['fire', E('long')], ['flush'], ['call', E('b')], ['flush'], ['fire', E('long')], ['wait', E('c')], ['ret', 'end']], gen=True),
        HD(2, 'b', [['flush'], ['yield', 'b1'], ['fire', E('c')], ['flush'], ['ret', 'b2']], gen=True), HD(3, 'c', [['flush'], ['ret', 'c']]),
        HD(9, 'long', [['yield', None]] * 5 + [['ret', 'L']], gen=True)], 'fires': [E('a', flags=SF), E('a', flags=SF)]})
    cs.append({'name': 'sleeping-callee-times-out', 'handlers': [
        HD(1, 'a', [['call', E('long'), {'timeout': 2}], ['yield', None], ['sleep', 0], ['call', E('b')], ['ret', 'end']], gen=True),
        HD(2, 'long', [['sleep', 0]] * 7 + [['ret', 'L']], gen=True), HD(3, 'b', [['sleep', 0], ['ret', 'b']], gen=True)],
        'fires': [E('a', flags=SF)]})
    # events whose name is not the name of their class (the done notification is named after the event)
    for mk in ('attr', 'renamed'):
        cs.append(dict(cs[0], name='basic-' + mk, mk=mk))
    # falsy (non-None) values relayed right after a call / wait, and a bare yield right after a call
    cs.append({'name': 'falsy-relay', 'handlers': [
        HD(1, 'a', [['call', E('b')], ['yieldlit', 0], ['wait', E('b')], ['yieldlit', ''], ['call', E('b')], ['yield', None], ['yieldlit', False]], gen=True),
        HD(2, 'b', [['retlit', 0.0]])], 'fires': [E('a', flags=SF), E('a', flags=SF)]})
    # failing callees: plain raise, generator raising at first step, after a yield, with a sibling handler
    for k, body in enumerate(([['raise']], None, None, None)):
        pass
    cs.append({'name': 'callee-plain-raise', 'handlers': [HD(1, 'a', [['call', E('b')], ['ret', 'end']], gen=True), HD(2, 'b', [['raise']])],
               'fires': [E('a', flags=SF)]})
    cs.append({'name': 'callee-gen-raise-first', 'handlers': [HD(1, 'a', [['call', E('b')], ['ret', 'end']], gen=True), HD(2, 'b', [['raise']], gen=True)],
               'fires': [E('a', flags=SF)]})
    cs.append({'name': 'callee-gen-raise-later', 'handlers': [HD(1, 'a', [['wait', E('b')], ['ret', 'end']], gen=True),
                                                              HD(2, 'b', [['yield', 'v'], ['yield', None], ['raise']], gen=True), HD(3, 'b', [['ret', 'ok']], prio=1)],
               'fires': [E('a', flags=SF)]})
    cs.append({'name': 'callee-gen-raise-nested', 'handlers': [HD(1, 'a', [['call', E('b')], ['call', E('b')], ['ret', 'end']], gen=True),
                                                               HD(2, 'b', [['call', E('c')], ['raise']], gen=True), HD(3, 'c', [['yield', 'c']], gen=True)],
               'fires': [E('a', flags=SF), E('a', flags=SF)]})
    # timeouts against a slow callee
    slow = HD(9, 's', [['yield', None]] * 4 + [['ret', 'slow']], gen=True)
    for t in (0, 1, 2, 5, 12):
        cs.append({'name': 'timeout-%d' % t, 'handlers': [HD(1, 'a', [['call', E('s'), {'timeout': t}], ['yield', 'after']], gen=True), slow],
                   'fires': [E('a', flags=SF)]})
        cs.append({'name': 'wait-timeout-%d' % t, 'handlers': [HD(1, 'a', [['wait', E('s'), {'timeout': t}], ['ret', 'after']], gen=True), slow],
                   'fires': [E('a', flags=SF)]})
    # several roots calling the same event type concurrently (results must not be mixed up)
    cs.append({'name': 'concurrent', 'handlers': [HD(1, 'a', [['call', E('s')], ['call', E('b')], ['ret', 'end']], gen=True),
                                                  HD(2, 'a2', [['yield', None], ['call', E('s')], ['ret', 'end2']], gen=True), slow,
                                                  HD(3, 'b', [['yield', 'b']], gen=True)],
               'fires': [E('a', flags=SF), E('a2', flags=SF), E('a', flags=SF), E('a2')]})
    # several suspended handlers waiting for the very same event instance: each of them is resumed, once, with its result
    slowb = HD(8, 'sh', [['yield', 'p1'], ['yield', None], ['ret', 'p2']], gen=True)
    for kinds in (('wait', 'wait', 'wait'), ('call', 'wait', 'wait'), ('waitname', 'waitname'), ('call', 'waitname', 'wait'), ('wait', 'call', 'wait', 'call')):
        for tail, tname in (([slowb], 'slow'), ([HD(8, 'sh', [['ret', 'q']])], 'plain'), ([HD(8, 'sh', [['yield', 'v'], ['raise']], gen=True), HD(9, 'sh', [['ret', 'ok']], prio=1)], 'failing')):
            hs = [HD(i + 1, 'w%d' % i, [[k, E('sh', share='S')], ['yield', 'after'], ['ret', 'end%d' % i]], gen=True) for i, k in enumerate(kinds)]
            cs.append({'name': 'shared-%s-%s' % ('-'.join(kinds), tname), 'handlers': hs + tail, 'fires': [E('w%d' % i, flags=SF) for i in range(len(kinds))]})
    # ... the same handler invoked for three events; a waiter with a timeout among them; a nested caller among them
    cs.append({'name': 'shared-same-handler', 'handlers': [HD(1, 'w', [['wait', E('sh', share='S')], ['ret', 'end']], gen=True), slowb],
               'fires': [E('w', flags=SF)] * 3})
    for t in (0, 2, 30):
        cs.append({'name': 'shared-timeout-%d' % t, 'handlers': [HD(1, 'w0', [['call', E('sh', share='S')], ['ret', 'e0']], gen=True),
                                                                HD(2, 'w1', [['wait', E('sh', share='S'), {'timeout': t}], ['ret', 'e1']], gen=True),
                                                                HD(3, 'w2', [['wait', E('sh', share='S')], ['ret', 'e2']], gen=True), slowb],
                   'fires': [E('w0', flags=SF), E('w1', flags=SF), E('w2', flags=SF)]})
    cs.append({'name': 'shared-nested', 'handlers': [HD(1, 'top', [['call', E('w0')], ['ret', 'top']], gen=True),
                                                     HD(2, 'w0', [['wait', E('sh', share='S')], ['ret', 'e0']], gen=True),
                                                     HD(3, 'w1', [['wait', E('sh', share='S')], ['call', E('sh', share='T')], ['ret', 'e1']], gen=True),
                                                     HD(4, 'w2', [['yield', None], ['wait', E('sh', share='T')], ['ret', 'e2']], gen=True), slowb],
               'fires': [E('w1', flags=SF), E('w2', flags=SF), E('top', flags=SF)]})
    return cs


def gen_case(rng):
    nlev = rng.randint(2, 4)
    names = {lv: ['e%d_%d' % (lv, i) for i in range(rng.randint(1, 2))] for lv in range(1, nlev)}
    roots = ['r%d' % i for i in range(rng.randint(1, 4))]
    handlers = []
    hid = 0

    def callee_spec(lv):
        tl = rng.randint(lv + 1, nlev - 1)
        return {'name': rng.choice(names[tl])}

    def body_for(lv, root=False):
        body = []
        gen = rng.random() < (0.9 if root else 0.55)
        if not gen:
            r = rng.random()
            return False, ([['ret', 'p']] if r < 0.6 else [] if r < 0.8 else [['raise']])
        for _ in range(rng.randint(0, 4)):
            r = rng.random()
            if r < 0.45 and lv + 1 < nlev:
                kind = rng.choice(['call', 'call', 'wait'] + (['waitname'] if root else []))
                opts = {}
                if rng.random() < 0.3:
                    opts = {'timeout': rng.choice([0, 1, 2, 5, 30])}
                body.append([kind, callee_spec(lv), opts])
            elif r < 0.62:
                body.append(['yield', rng.choice([None, 'y'])])
            elif r < 0.66:
                # `yield sleep(0)`: suspended until the next iteration by the other coroutine primitive.  (Never as the very next thing after
                # a call()/wait(): there the tree records the Sleep object as a result and does not sleep - sleep() is outside this
                # property's quantifier, see DESIGN 8.19 - so a bare yield comes in between.)
                prev = [a for a in body if a[0] not in ('fire', 'flush')]      # (neither is a suspension point)
                if prev and prev[-1][0] in ('call', 'wait', 'waitname'):
                    body.append(['yield', None])
                body.append(['sleep', 0])
            elif r < 0.75:
                body.append(['yieldlit', rng.choice([0, False, '', 0.0])])   # falsy but non-None results are results
            elif r < 0.8 and lv + 1 < nlev:
                body.append(['fire', callee_spec(lv)])
            elif r < 0.84:
                body.append(['flush'])      # a handler may flush the queue itself, also between two calls
        r = rng.random()
        if r < 0.15:
            body.insert(rng.randint(0, len(body)), ['raise'])
        elif r < 0.5:
            body.append(['ret', 'g'])
        return True, body
    for rn in roots:
        hid += 1
        g, b = body_for(0, root=True)
        handlers.append(HD(hid, rn, b, gen=g))
    for lv in range(1, nlev):
        for nm in names[lv]:
            for _ in range(rng.randint(1, 2)):
                hid += 1
                g, b = body_for(lv)
                handlers.append(HD(hid, nm, b, gen=g, prio=rng.choice([0, 1])))
    # by-name waits: each waited name may be waited for by one site only and that root fires once
    seen = set()
    for h in handlers:
        for a in h['body']:
            if a[0] == 'waitname':
                if a[1]['name'] in seen:
                    a[0] = 'wait'
                seen.add(a[1]['name'])
    # some callee event types live on an explicit channel: their handlers listen there and every call/wait/fire addresses it
    on_chan = {nm for lv in names for nm in names[lv] if rng.random() < 0.3}
    # ... and some of those on two channels at once: their handlers are spread over both, and they are fired to both
    two_chan = {nm: rng.choice([['a', 'b'], ['b', 'a']]) for nm in sorted(on_chan) if rng.random() < 0.4}
    for h in handlers:
        if h['name'] in on_chan:
            h['channel'] = rng.choice('ab') if h['name'] in two_chan else 'a'
        for a in h['body']:
            if a[0] in ('call', 'wait', 'waitname', 'fire') and a[1]['name'] in on_chan:
                a[1]['channels'] = list(two_chan.get(a[1]['name'], ['a']))
                if rng.random() < 0.35:
                    a[1]['success_channels'] = ['elsewhere']
                    if rng.random() < 0.5:
                        a[1].setdefault('flags', {})['success'] = True
    # a group of roots that all wait for one instance of an event (the first of them to run fires it)
    if rng.random() < 0.3:
        target = rng.choice([nm for lv in names for nm in names[lv] if nm not in seen] or ['shx'])
        if target == 'shx':
            hid += 1
            handlers.append(HD(hid, 'shx', [['yield', 'p']] * rng.randint(0, 3) + [['ret', 'q']], gen=True))
        for i in range(rng.randint(2, 4)):
            hid += 1
            rn = 'g%d' % i
            pre = [['yield', None]] if rng.random() < 0.15 else []
            opts = {'timeout': rng.choice([0, 1, 3, 30])} if rng.random() < 0.2 else {}
            spec = {'name': target, 'share': 'G'}
            if target in on_chan:
                spec['channels'] = ['a']
            handlers.append(HD(hid, rn, pre + [[rng.choice(['wait', 'wait', 'call']), spec, opts]] + ([['yield', 'y']] if rng.random() < 0.4 else [])
                               + ([['ret', 'g']] if rng.random() < 0.6 else []), gen=True))
            roots.append(rn)
    fires = [{'name': rn, 'flags': {f: rng.random() < 0.6 for f in ('success', 'complete')}} for rn in roots]
    # names waited by name must not be fired by anybody else while the wait is open: drop plain fires/calls of them
    for h in handlers:
        h['body'] = [a for a in h['body'] if not (a[0] in ('fire', 'call', 'wait') and a[1]['name'] in seen)]
    if rng.random() < 0.15:
        # a by-name waiter and, a little later, somebody else's call of a namesake that finishes earlier
        long_, short, delay = rng.randint(3, 8), rng.randint(0, 2), rng.randint(2, 3)
        handlers.append(HD(hid + 1, 'wnx', [['waitname', {'name': 'jobx', 'steps': long_}], ['ret', 'w']], gen=True))
        handlers.append(HD(hid + 2, 'clx', [['yield', None]] * delay + [['call', {'name': 'jobx', 'steps': short}], ['ret', 'c']], gen=True))
        handlers.append(HD(hid + 3, 'jobx', [['yield', 'j1'], ['yieldsteps'], ['ret', 'j2']], gen=True))
        fires += [{'name': 'wnx', 'flags': {'success': True}}, {'name': 'clx', 'flags': {'complete': True}}]
    case = {'handlers': handlers, 'fires': fires}
    if rng.random() < 0.2:
        case['mk'] = rng.choice(['attr', 'renamed'])   # events whose name is not their class name
    return case


def plan(tier, seed):
    if tier == 'quick':
        return [{'kind': 'corpus'}] + [{'kind': 'random', 'seed': seed * 1000 + i, 'n': 100} for i in range(15)]
    return [{'kind': 'corpus'}] + [{'kind': 'random', 'seed': seed * 100000 + i, 'n': 1300} for i in range(32)]


def evaluate_case(b, case):
    try:
        with cpu_budget(30):
            problems, info, w = run_case(case)
    except BudgetExceeded as e:
        b.fail(case, 'NO_PROGRESS', {'error': str(e), 'note': 'the dispatcher/loop did not terminate on a finite program'}, dedup='')
        return
    except Exception as e:
        import traceback
        b.fail(case, 'HARNESS_RAISED', {'error': repr(e), 'tb': traceback.format_exc(limit=8)}, dedup=type(e).__name__)
        return
    if problems is None:
        b.inconclusive_because(info['inconclusive'])
        return
    b.case(case, nontrivial=info.get('nontrivial', False))
    for m in info.get('marks', ()):
        b.reached(m)
    first = {}
    for clause, detail in problems:
        first.setdefault(clause, detail)
    for clause, n in info.get('counts', {}).items():
        good = n - sum(1 for c, _ in problems if c == clause)
        if good > 0:
            b.ok(clause, good)
    for clause, detail in first.items():
        b.fail(case, clause, detail, dedup='')


def run_batch(spec):
    import circuits  # noqa: F401
    b = Batch(PROPERTY)
    if spec['kind'] == 'corpus':
        for case in corpus():
            evaluate_case(b, case)
    else:
        rng = random.Random(spec['seed'])
        for _ in range(spec['n']):
            evaluate_case(b, gen_case(rng))
    return b.result()


def run_replay(case):
    b = Batch(PROPERTY)
    evaluate_case(b, unjson(case))
    return b.result()

"""C18 - the Line protocol is segmentation-invariant; IRC command messages are exactly one line.

Part 1 drives the real ``circuits.protocols.line.Line`` under a recording root: ``read`` events are
injected one at a time (client mode ``read(data)``, server mode ``read(sock, data)`` with several
socket identities interleaved) and the ``line`` events that come out after each read are compared
with a reference split (vlib.ref_lines.ref_split) of the whole stream received so far on that
socket.

Part 2 calls every constructor function of ``circuits.protocols.irc.commands`` and ``Message``
directly with generated argument strings, serialises the message (``bytes()``/``str()`` and through
the real ``IRC.request`` handler -> ``write`` event), scans the result for CR/LF before the final
CRLF, pushes it through a real ``Line`` (exactly one ``line`` event, nothing left over) and parses
that line with the real ``parsemsg``.  See DESIGN.md section 4, C18.
"""
import itertools
import copy
import random
import re

from vlib.batch import Batch, unjson
from vlib.ref_lines import join_prefix_tuple, ref_parse_irc, ref_split

PROPERTY = 'C18'
LEVEL = 'exploration'
RULE = ('line cases: a case is (mode, per-socket byte streams over the tokens CR, LF, CRLF, empty line, ASCII, NUL, 2/3/4-byte '
        'UTF-8, cut into reads: whole / every single cut / byte-at-a-time / random cuts, reads of 1-3 sockets interleaved in '
        'server mode, one closing LF per socket); fixed corpus + exhaustive (all streams over {a,CR,LF} up to a length bound x '
        'all segmentations; all interleavings of two byte-at-a-time sockets) + seeded random; non-trivial = some read leaves a '
        'non-empty unterminated tail that a later read terminates. irc cases: a case is (constructor function of irc.commands '
        'discovered at run time | Message(command, *args, prefix=), str/bytes/None arguments, optional late mutation of '
        'Message.args); fixed matrix (every constructor x every parameter position x ~45 hostile strings over space, colon, CR, '
        'LF, NUL, empty, non-ASCII, non-space whitespace) + seeded random; non-trivial = some argument, command or prefix is empty '
        'or carries a character outside [A-Za-z0-9#+!@.,_-]. distinct = hash of the declarative case')
ASSUMPTIONS = [
    'a line is what the statement says: terminated by LF, a CR directly before that LF belongs to the terminator; a CR not '
    'followed by LF is line content (the documented rule of circuits.protocols.line, regex \\r?\\n)',
    'server-mode buffers are stored by the harness (getBuffer/updateBuffer callbacks on a per-socket dict), as an application '
    'would; isolation is judged on the emitted line events only',
    'messages use the default utf-8 encoding; argument strings are valid Unicode without surrogates',
    'an exception from the constructor or from bytes()/str() counts as a rejection (the statement allows it) unless every '
    'argument is a non-empty string over [A-Za-z0-9#+!@.,_-] (inner spaces/colons allowed in the last one) or None; a '
    'rejected message must not produce a write event',
    'the round-trip clause is evaluated for every argument list but only for commands/prefixes that are non-empty and contain '
    'no space (command also: no leading colon); parsed command is compared with str(message.command)',
]
LINE_REQUIRED = ['line_client_cases', 'line_server_cases', 'cut_inside_crlf', 'cr_at_read_end_not_crlf', 'cut_inside_utf8_char',
                 'bare_cr_inside_line', 'empty_line', 'lf_only_line', 'crlf_line', 'tail_held_across_reads',
                 'tail_terminated_by_later_read', 'server_interleaved_tails', 'byte_at_a_time', 'several_lines_in_one_read',
                 'three_sockets', 'line_events_observed', 'line_components_on_channels_of_their_own']
IRC_FUNCS = ['AWAY', 'INVITE', 'JOIN', 'KICK', 'MODE', 'NAMES', 'NICK', 'NOTICE', 'PART', 'PASS', 'PONG', 'PRIVMSG', 'QUIT', 'TOPIC',
             'USER', 'WHO', 'WHOIS']
IRC_REQUIRED = ['ctor_' + n for n in IRC_FUNCS] + [
    'ctor_Message', 'irc_serialised', 'irc_rejected_by_constructor', 'irc_rejected_by_serialiser', 'irc_write_event_observed',
    'irc_line_event_observed', 'irc_roundtrip_evaluated', 'irc_arg_with_space', 'irc_arg_with_colon', 'irc_arg_with_cr',
    'irc_arg_with_lf', 'irc_arg_with_nul', 'irc_arg_empty', 'irc_arg_non_ascii', 'irc_arg_bytes', 'irc_arg_none',
    'irc_hostile_command', 'irc_hostile_prefix', 'irc_prefix_nick_user_host', 'irc_late_args_mutation',
    'irc_all_command_functions_called', 'irc_benign_call_serialised', 'irc_same_line_received_twice', 'irc_numeric_line_received_twice', 'irc_prefix_given_as_object', 'irc_component_with_another_encoding',
    'irc_component_with_a_neighbour_on_another_channel']
REQUIRED = LINE_REQUIRED + IRC_REQUIRED
REQUIRED_OBLIGATIONS = ['LINES', 'TAIL_HELD', 'ISOLATION', 'ONE_LINE', 'ROUNDTRIP']
WORKER_TIMEOUT = {'quick': 300, 'thorough': 1500}

K_INJ = 'irc.bare-cr-injection'
K_COLON = 'irc.roundtrip-colon-or-empty-arg'
K_WS = 'irc.parsemsg-splits-on-any-whitespace'
NUMERIC_CMD = re.compile(r'^[0-9]+$')
KEY_ORDER = [K_INJ, K_COLON, K_WS]


# ------------------------------------------------------------------------------------------------
# harness
# ------------------------------------------------------------------------------------------------
_H = {}


def harness():
    """Built lazily inside the worker (imports the real package)."""
    if _H:
        return _H
    from circuits import handler
    from circuits.net.events import read
    from circuits.protocols.irc import commands
    from circuits.protocols.irc.events import request
    from circuits.protocols.irc.message import Message
    from circuits.protocols.irc.protocol import IRC
    from circuits.protocols.irc.utils import parsemsg
    from circuits.protocols.line import Line
    from vlib.inject import FakeSock, Wire
    import inspect

    class Rec(Wire):
        """Recording root: write/close/exception (from Wire) plus ``line`` events, in order."""

        def __init__(self):
            super().__init__(channel='c18')
            self.lines = []
            self.chlines = []  # (channels, args) of every ``line`` event dispatched anywhere in the tree
            self.all = []      # (name, args) of every event dispatched anywhere in the tree

        @handler(channel='*', priority=101)
        def _v_on_any(self, event, *args, **kwargs):
            self.all.append((event.name, args))
            if event.name == 'line':
                self.chlines.append((tuple(event.channels), args))

        @handler('line', priority=100)
        def _v_on_line(self, *args):
            self.lines.append(args)

    funcs = {}
    for name, f in vars(commands).items():
        if inspect.isfunction(f) and f.__module__ == commands.__name__ and not name.startswith('_'):
            req, opt, var = 0, 0, False
            for p in inspect.signature(f).parameters.values():
                if p.kind == p.VAR_POSITIONAL:
                    var = True
                elif p.default is p.empty:
                    req += 1
                else:
                    opt += 1
            funcs[name] = (f, req, opt, var)
    _H.update(Rec=Rec, read=read, commands=commands, request=request, Message=Message, IRC=IRC, parsemsg=parsemsg, Line=Line,
              funcs=funcs, socks=[FakeSock(('127.0.0.1', 40000 + i)) for i in range(3)])
    return _H


# ------------------------------------------------------------------------------------------------
# part 1: Line
# ------------------------------------------------------------------------------------------------
def _run_reads(case, only_sock=None):
    """Feed the reads of ``case`` (optionally only those of one socket) to a fresh real Line.
    Returns per read: (sock index, data, [event args observed])."""
    h = harness()
    w = h['Rec']()
    server = case['mode'] == 'server'
    if server:
        buffers = {}
        comp = h['Line'](getBuffer=lambda s: buffers.get(s, b''), updateBuffer=buffers.__setitem__)
    elif case['mode'] == 'channels':
        # client mode, one Line per connection, told apart by their channels (several clients in one tree)
        comp = None
        for i in range(case.get('nsock', 1)):
            h['Line'](channel='ch%d' % i).register(w)
    else:
        comp = h['Line']()
    if comp is not None:
        comp.register(w)
    w.settle()
    out = []
    for si, data in case['reads']:
        if only_sock is not None and si != only_sock:
            continue
        before = len(w.lines)
        if server:
            w.inject(h['read'](h['socks'][si], data))
        elif case['mode'] == 'channels':
            before = len(w.chlines)
            w.inject(h['read'](data), 'ch%d' % si)
            out.append((si, data, w.chlines[before:]))
            continue
        else:
            w.inject(h['read'](data))
        out.append((si, data, w.lines[before:]))
    return out, w


def _obs_lines(case, si, events):
    """-> (lines, identity_ok) of the events one read produced."""
    h = harness()
    lines, ident = [], True
    for a in events:
        if case['mode'] == 'channels':
            chans, a = a
            if chans != ('ch%d' % si,) or len(a) != 1:
                ident = False
            lines.append(a[-1])
        elif case['mode'] == 'server':
            if len(a) != 2 or a[0] is not h['socks'][si]:
                ident = False
            lines.append(a[-1])
        else:
            if len(a) != 1:
                ident = False
            lines.append(a[-1])
    return lines, ident


def run_line_case(case):
    """-> (problems [(clause, detail, dedup)], info)."""
    nsock = case.get('nsock', 1)
    marks = set()
    oblig = {'LINES': 0, 'TAIL_HELD': 0, 'ISOLATION': 0}
    problems = []
    steps, w = _run_reads(case)
    streams = [b''] * nsock
    done = [0] * nsock
    tails = [b''] * nsock
    last_read = [None] * nsock
    nontrivial = False
    server = case['mode'] in ('server', 'channels')      # (several connections whose tails must not mix)
    marks.add({'server': 'line_server_cases', 'client': 'line_client_cases', 'channels': 'line_components_on_channels_of_their_own'}[case['mode']])
    if len({si for si, _ in case['reads']}) >= 3:
        marks.add('three_sockets')
    per_sock = {}
    for si, data in case['reads']:
        per_sock.setdefault(si, []).append(data)
    for si, chunks in per_sock.items():
        if sum(map(len, chunks)) >= 3 and all(len(c) == 1 for c in chunks):
            marks.add('byte_at_a_time')
    nobs = 0
    for idx, (si, data, events) in enumerate(steps):
        prev_tail = tails[si]
        prev = last_read[si]
        if prev is not None and prev.endswith(b'\r') and data[:1] == b'\n':
            marks.add('cut_inside_crlf')
        if prev is not None and prev.endswith(b'\r') and data and data[:1] != b'\n':
            marks.add('cr_at_read_end_not_crlf')
        if prev is not None and data and 0x80 <= data[0] <= 0xBF:
            marks.add('cut_inside_utf8_char')
        if data == b'':
            marks.add('empty_read')
        else:
            last_read[si] = data
        streams[si] += data
        exp_lines, exp_tail = ref_split(streams[si])
        exp_new = exp_lines[done[si]:]
        done[si] = len(exp_lines)
        tails[si] = exp_tail
        others_pending = server and any(tails[j] for j in range(nsock) if j != si)
        if others_pending:
            marks.add('server_interleaved_tails')
        if prev_tail and data:
            marks.add('tail_held_across_reads')
        if prev_tail and exp_new:
            marks.add('tail_terminated_by_later_read')
            nontrivial = True
        if len(exp_new) >= 2:
            marks.add('several_lines_in_one_read')
        for ln in exp_new:
            if ln == b'':
                marks.add('empty_line')
            if b'\r' in ln:
                marks.add('bare_cr_inside_line')
        obs, ident = _obs_lines(case, si, events)
        nobs += len(obs)
        tail_rel = bool(prev_tail or exp_tail)
        if obs == exp_new and ident:
            # one observation, counted under every clause it is an instance of
            oblig['LINES'] += 1
            if tail_rel:
                oblig['TAIL_HELD'] += 1
            if server:
                oblig['ISOLATION'] += 1
            continue
        # -- a mismatch: name the clause, stop the case -------------------------------------------
        detail = {'read_index': idx, 'sock': si, 'data': data, 'observed': obs, 'expected': exp_new, 'tail_before': prev_tail,
                  'expected_tail_after': exp_tail, 'identity_ok': ident, 'mode': case['mode']}
        clause = 'TAIL_HELD' if tail_rel else 'LINES'
        if server and not ident:
            clause = 'ISOLATION'
        elif server and nsock > 1:
            # does the same socket, fed alone, behave?  then the mismatch depends on the other sockets
            solo, _w2 = _run_reads(case, only_sock=si)
            k = sum(1 for j, (sj, _d, _e) in enumerate(steps[:idx + 1]) if sj == si) - 1
            sobs, sident = _obs_lines(case, si, solo[k][2])
            detail['solo_observed'] = sobs
            if sobs == exp_new and sident:
                clause = 'ISOLATION'
        problems.append((clause, detail, 'extra' if len(obs) > len(exp_new) else ('missing' if len(obs) < len(exp_new) else 'content')))
        break
    for s in streams:
        if b'\r\n' in s:
            marks.add('crlf_line')
        if s.startswith(b'\n') or any(s[i:i + 1] == b'\n' and s[i - 1:i] != b'\r' for i in range(1, len(s))):
            marks.add('lf_only_line')
    if nobs:
        marks.add('line_events_observed')
    if w.exceptions:
        problems.append(('LINES', {'exception_events': [repr(e[1]) for e in w.exceptions[:3]]}, 'exception'))
    return problems, {'marks': marks, 'oblig': oblig, 'nontrivial': nontrivial, 'line_events': nobs}


def evaluate_line(b, case):
    try:
        problems, info = run_line_case(case)
    except RuntimeError as e:
        if 'does not settle' in str(e):
            b.inconclusive_because('line case does not settle: %r' % (case,))
            return
        raise
    b.case(case, nontrivial=info['nontrivial'])
    for m in info['marks']:
        b.reached(m)
    b.reached('line_events_total', info['line_events'])
    b.reached('line_reads_total', len(case['reads']))
    for c, n in info['oblig'].items():
        if n:
            b.ok(c, n)
    for clause, detail, dedup in problems:
        b.fail(case, clause, detail, dedup=dedup)


# -- generation -----------------------------------------------------------------------------------
def chunks_of(data, cuts):
    out, prev = [], 0
    for c in cuts:
        out.append(data[prev:c])
        prev = c
    out.append(data[prev:])
    return out


def line_case(mode, per_sock_chunks, order=None, closing=True, closing_order=None):
    """per_sock_chunks: list (one per socket) of chunk lists; order: sequence of socket indexes
    (each index as many times as the socket has chunks) giving the interleaving."""
    n = len(per_sock_chunks)
    if order is None:
        order = [si for si in range(n) for _ in per_sock_chunks[si]]
    its = [iter(c) for c in per_sock_chunks]
    reads = [[si, next(its[si])] for si in order]
    if closing:
        for si in (closing_order if closing_order is not None else range(n)):
            reads.append([si, b'\n'])
    return {'kind': 'line', 'mode': mode, 'nsock': n, 'reads': reads}


CORPUS_STREAMS = [
    b'1\n2\r\n3\n4',                                   # tests/protocols/test_line.py
    b'a\r\nb\r\n',
    b'a\rb\nc',                                        # bare CR is content
    b'\r\n\r\n\n',                                     # empty lines, both terminators
    b'a\r\r\nb\r',                                     # CR before CRLF belongs to the line; tail ending in CR
    b'\r',
    b'\r\r\n',
    'café\r\n日本\n\U0001f600 x\r\n'.encode(),
    b'PRIVMSG #c :hi there\r\nPING :12345\r\n:n!u@h QUIT\r\n',
    b'a\x00b\n\x00\r\n',
    b'no terminator at all',
    b'x' * 3000 + b'\r\n' + b'y' * 10,
]
SECOND = b'B1\r\nB2\nB\r3\r\n\r\nB4'
THIRD = 'Cé\n\rC2\r\n'.encode()


def line_corpus():
    cases = []
    for s in CORPUS_STREAMS:
        for mode in ('client', 'server'):
            cases.append(line_case(mode, [[s]]))
            cases.append(line_case(mode, [[s]], closing=False))
            if len(s) <= 80:
                for c in range(1, len(s)):
                    cases.append(line_case(mode, [chunks_of(s, [c])]))
                cases.append(line_case(mode, [[s[i:i + 1] for i in range(len(s))]]))
        if len(s) <= 80:
            # two and three sockets, byte at a time, round robin and "first socket's byte between every byte of the other"
            a = [s[i:i + 1] for i in range(len(s))]
            bch = [SECOND[i:i + 1] for i in range(len(SECOND))]
            cch = [THIRD[i:i + 1] for i in range(len(THIRD))]
            for socks in ([a, bch], [a, bch, cch]):
                order = [si for grp in itertools.zip_longest(*[[si] * len(c) for si, c in enumerate(socks)]) for si in grp if si is not None]
                cases.append(line_case('server', socks, order, closing_order=list(reversed(range(len(socks))))))
                cases.append(line_case('channels', socks, order, closing_order=list(reversed(range(len(socks))))))
            # single cut in each, the tails of both pending at the same time, terminated in the opposite order
            for c in range(1, len(s)):
                cases.append(line_case('server', [chunks_of(s, [c]), chunks_of(SECOND, [min(c, len(SECOND) - 1)])], [0, 1, 1, 0],
                                       closing_order=[1, 0]))
    # hand-written interleavings
    cases.append(line_case('server', [[b'a', b'\n'], [b'b', b'\n']], [0, 1, 0, 1]))
    cases.append(line_case('server', [[b'a', b'\n'], [b'b', b'\n']], [0, 1, 1, 0]))
    cases.append(line_case('server', [[b'a\r', b'\n'], [b'b\r', b'x\n'], [b'', b'c\n']], [0, 1, 2, 1, 0, 2]))
    cases.append(line_case('server', [[b'a'], [b'\n']], [0, 1]))                 # LF on another socket must not terminate 'a'
    cases.append(line_case('channels', [[b'a'], [b'\n']], [0, 1]))
    cases.append(line_case('channels', [[b'be', b'fore\n'], [b'one\ntw', b'o\n']], [0, 1, 0, 1]))
    cases.append(line_case('channels', [[b'solo\r', b'\nx']]))
    cases.append(line_case('server', [[b'a\r'], [b'\nb']], [0, 1], closing_order=[1, 0]))
    cases.append(line_case('client', [[b'', b'a', b'', b'\r', b'', b'\n', b'']]))
    cases.append(line_case('client', [[b'\xe2', b'\x82', b'\xac\r', b'\n\xf0\x9f', b'\x98\x80\n']]))
    return cases


TOKENS = [b'\r', b'\n', b'\r\n', b'\r\n', b'\n', b'', b'a', b'bc', b' ', b':', b'\x00', 'é'.encode(), '日本'.encode(),
          '\U0001f600'.encode(), b'PING :x', b'\r\r', b'\n\n']
LETTERS = [b'a', b'b', b'c']


def gen_stream(rng, si):
    toks = []
    for _ in range(rng.randint(1, 12)):
        t = rng.choice(TOKENS)
        if t == b'a':
            t = LETTERS[si] * rng.randint(1, 3)   # different letters per socket make mixing visible
        toks.append(t)
    return b''.join(toks)


def gen_cuts(rng, s):
    n = len(s)
    if n <= 1:
        return [s]
    r = rng.random()
    if r < 0.1:
        return [s]
    if r < 0.3:
        return chunks_of(s, [rng.randrange(1, n)])
    if r < 0.45:
        return [s[i:i + 1] for i in range(n)]
    p = rng.choice([0.15, 0.4, 0.8])
    out = chunks_of(s, [i for i in range(1, n) if rng.random() < p])
    if rng.random() < 0.1:
        out.insert(rng.randrange(len(out) + 1), b'')
    return out


def gen_line_case(rng):
    r = rng.random()
    mode = 'client' if r < 0.3 else 'channels' if r < 0.5 else 'server'
    n = 1 if mode == 'client' else rng.choice([1, 2, 2, 3, 3])
    socks = [gen_cuts(rng, gen_stream(rng, si)) for si in range(n)]
    order = [si for si in range(n) for _ in socks[si]]
    rng.shuffle(order)
    closing_order = list(range(n))
    rng.shuffle(closing_order)
    return line_case(mode, socks, order, closing=rng.random() < 0.9, closing_order=closing_order)


def exhaustive_streams(L, alphabet=(b'a', b'\r', b'\n')):
    for n in range(1, L + 1):
        for t in itertools.product(alphabet, repeat=n):
            yield b''.join(t)


def line_exhaustive(b, L, part, of):
    """all streams over {a, CR, LF} of length <= L x all segmentations, client mode (odd streams also
    server mode with one socket)."""
    k = 0
    for s in exhaustive_streams(L):
        k += 1
        if k % of != part:
            continue
        n = len(s)
        for mask in range(1 << (n - 1)):
            cuts = [i + 1 for i in range(n - 1) if mask >> i & 1]
            evaluate_line(b, line_case('client' if (k + mask) % 2 else 'server', [chunks_of(s, cuts)]))
            b.reached('exhaustive_segmentations')


def server_exhaustive(b, L, part, of):
    """two sockets, all pairs of streams over {a|b, CR, LF} of length <= L, byte at a time, every interleaving."""
    k = 0
    for s0 in exhaustive_streams(L, (b'a', b'\r', b'\n')):
        for s1 in exhaustive_streams(L, (b'b', b'\r', b'\n')):
            k += 1
            if k % of != part:
                continue
            c0 = [s0[i:i + 1] for i in range(len(s0))]
            c1 = [s1[i:i + 1] for i in range(len(s1))]
            tot = len(c0) + len(c1)
            for pos in itertools.combinations(range(tot), len(c0)):
                order = [0 if i in pos else 1 for i in range(tot)]
                evaluate_line(b, line_case('server', [c0, c1], order, closing_order=[k % 2, 1 - k % 2]))
                b.reached('exhaustive_interleavings')


# ------------------------------------------------------------------------------------------------
# part 2: IRC messages
# ------------------------------------------------------------------------------------------------
SAFE = set('ABCDEFGHIJKLMNOPQRSTUVWXYZabcdefghijklmnopqrstuvwxyz0123456789#+!@.,_-')


def _dec(a):
    return a.decode('utf-8') if isinstance(a, bytes) else a


def _is_ws(c):
    return c.isspace() and c not in ' \r\n'


def _map_str(a, f):
    """apply the str->str function f to a str or (utf-8) bytes argument; None stays None."""
    if a is None:
        return None
    if isinstance(a, bytes):
        return f(a.decode('utf-8')).encode('utf-8')
    return f(a)


def neutralise(case, keys, cmd_idx=()):
    """The twin of an irc case: the same call with ONLY the triggers named by ``keys`` replaced by '_'.
    cmd_idx: positions of constructor-function arguments that became the message's command."""
    c = dict(case)
    args = list(case.get('args', []))
    late = list(case.get('late', []))
    command, prefix = case.get('command'), case.get('prefix')
    if K_INJ in keys:
        cr = lambda s: s.replace('\r', '_')                              # noqa: E731
        crlf = lambda s: s.replace('\r', '_').replace('\n', '_')         # noqa: E731
        args = [_map_str(a, crlf if i in cmd_idx else cr) for i, a in enumerate(args)]
        late = [_map_str(a, cr) for a in late]
        command, prefix = _map_str(command, crlf), _map_str(prefix, crlf)
    if K_COLON in keys:
        def col(s):
            if s == '':
                return '_'
            return '_' + s[1:] if s.startswith(':') else s
        args = [_map_str(a, col) for a in args]
        late = [_map_str(a, col) for a in late]
    if K_WS in keys:
        ws = lambda s: ''.join('_' if _is_ws(ch) else ch for ch in s)    # noqa: E731
        args = [_map_str(a, ws) for a in args]
        late = [_map_str(a, ws) for a in late]
        command = _map_str(command, ws)
    c['args'] = args
    if 'late' in case:
        c['late'] = late
    if 'command' in case:
        c['command'] = command
    if 'prefix' in case:
        c['prefix'] = prefix
    return c


def one_line_problem(data, nl, cr, what):
    """data: bytes or str as serialised.  -> None or a detail dict."""
    term = cr + nl
    if not data.endswith(term):
        return {'what': what, 'problem': 'not terminated by CRLF', 'serialised': data}
    body = data[:-2]
    if cr in body or nl in body:
        return {'what': what, 'problem': 'CR or LF before the final CRLF', 'serialised': data}
    return None


class _Rendered:
    """An object whose text form is the prefix (what a User or Server object of an application looks like to Message)."""

    def __init__(self, text):
        self.text = text

    def __str__(self):
        return self.text


def run_irc_case(case):
    """-> dict(problems=[(clause, detail, dedup)], triggers=set, cmd_idx=tuple, stage=str, marks=set, oblig=dict)."""
    h = harness()
    marks = set()
    oblig = {'ONE_LINE': 0, 'ROUNDTRIP': 0}
    problems = []
    res = {'problems': problems, 'triggers': set(), 'cmd_idx': (), 'stage': 'constructor', 'marks': marks, 'oblig': oblig}
    ctor = case['ctor']
    args = list(case.get('args', []))
    marks.add('ctor_' + ctor)
    # -- 1. construct ---------------------------------------------------------------------------
    try:
        if ctor == 'Message':
            kw = {}
            if case.get('prefix') is not None:
                kw['prefix'] = case['prefix']
                if case.get('prefix_obj'):
                    # a prefix VALUE need not be a str: a user / server object that renders itself (nick!user@host) is just as usual
                    marks.add('irc_prefix_given_as_object')
                    kw['prefix'] = _Rendered(case['prefix'])
            msg = h['Message'](case['command'], *args, **kw)
            ev = h['request'](msg)
        else:
            ev = h['funcs'][ctor][0](*args)
            msg = ev.args[0]
        for a in case.get('late', []):
            msg.args.append(a)
            marks.add('irc_late_args_mutation')
    except Exception as e:
        marks.add('irc_rejected_by_constructor')
        res['rejected'] = type(e).__name__
        oblig['ONE_LINE'] += 1      # satisfied by rejection ...
        if irc_benign(case):        # ... unless there was nothing to reject: "every command message serialises"
            problems.append(('ONE_LINE', {'problem': 'a call with harmless arguments was rejected by the constructor', 'error': repr(e)}, 'benign-rejected'))
        return res
    res['stage'] = 'serialiser'
    own_args = list(msg.args)
    own_cmd = str(msg.command)
    own_prefix = None if msg.prefix is None else str(msg.prefix)      # (what goes on the wire)
    if ctor == 'Message':
        # the message's fields are what the caller gave
        given = [_dec(a) for a in args if a is not None] + [_dec(a) for a in case.get('late', [])]
        if own_args != given or msg.command != case['command'] or own_prefix != (None if case.get('prefix') is None else str(case['prefix'])):
            problems.append(('ROUNDTRIP', {'problem': 'fields of the constructed Message differ from the constructor arguments',
                                           'args': own_args, 'command': msg.command, 'prefix': own_prefix}, 'fields'))
    else:
        res['cmd_idx'] = tuple(i for i, a in enumerate(args) if a is not None and _dec(a) == own_cmd and msg.command is not None)
    # -- triggers of the known findings, read off the message's own fields --------------------------
    strs = [a for a in own_args if isinstance(a, str)]
    if any('\r' in a for a in strs) or any(c in (own_cmd + (own_prefix or '')) for c in '\r\n'):
        res['triggers'].add(K_INJ)
    if any(a == '' or a.startswith(':') for a in strs):
        res['triggers'].add(K_COLON)
    if any(_is_ws(ch) for a in strs + [own_cmd] for ch in a):
        res['triggers'].add(K_WS)
    # -- 2. serialise, directly and through IRC.request -> write -------------------------------------
    data = text = None
    enc = case.get('encoding', 'utf-8')      # the encoding option of the IRC components at both ends
    if enc != 'utf-8':
        marks.add('irc_component_with_another_encoding')
    try:
        text = str(msg)
        # what a component configured with `enc` has to put on the wire (computed here from the text form, without touching the message)
        data = bytes(msg) if enc == 'utf-8' else text.encode(enc)
    except Exception as e:
        marks.add('irc_rejected_by_serialiser')
        res['rejected'] = type(e).__name__
        if irc_benign(case):
            problems.append(('ONE_LINE', {'problem': 'a message with harmless fields was rejected by bytes()/str()', 'error': repr(e)}, 'benign-rejected'))
    w = h['Rec']()
    (h['IRC']() if enc == 'utf-8' else h['IRC'](encoding=enc)).register(w)
    w.settle()
    w.take()
    w.inject(ev)
    writes = [x for x in w.out if x[0] == 'write']
    oblig['ONE_LINE'] += 1
    if data is None:
        if writes:
            problems.append(('ONE_LINE', {'problem': 'bytes(message) raised but IRC.request wrote', 'writes': [x[2] for x in writes]}, 'wire'))
        return res
    res['stage'] = 'serialised'
    marks.add('irc_serialised')
    if irc_benign(case):
        marks.add('irc_benign_call_serialised')
    if writes:
        marks.add('irc_write_event_observed')
    bad = one_line_problem(data, b'\n', b'\r', 'bytes(message)') or one_line_problem(text, '\n', '\r', 'str(message)')
    if bad is None and (len(writes) != 1 or writes[0][2] != data):
        bad = {'what': 'IRC.request', 'problem': 'write events differ from bytes(message)', 'writes': [x[2] for x in writes],
               'exceptions': [repr(e[1]) for e in w.exceptions[:2]], 'serialised': data}
    # -- 3. the receiving side: a real Line must see exactly this one line and keep nothing -------------
    r = h['Rec']()
    h['Line']().register(r)
    r.settle()
    r.inject(h['read'](data))
    got = [a[-1] for a in r.lines]
    r.inject(h['read'](b'\n'))
    rest = [a[-1] for a in r.lines[len(got):]]
    if got:
        marks.add('irc_line_event_observed')
    if bad is None and (got != [data[:-2]] or rest != [b'']):
        bad = {'what': 'Line', 'problem': 'the serialised message is not exactly one line for the receiver', 'serialised': data}
    if bad is not None:
        bad['lines_seen_by_a_receiving_Line'] = got + rest[:-1]
        bad['fields'] = {'prefix': own_prefix, 'command': msg.command, 'args': own_args}
        problems.append(('ONE_LINE', bad, 'crlf_in_body' if 'before' in bad['problem'] else 'other'))
    # -- 4. round trip ------------------------------------------------------------------------------
    cmd_ok = own_cmd != '' and ' ' not in own_cmd and not own_cmd.startswith(':')
    pfx_ok = own_prefix is None or (own_prefix != '' and ' ' not in own_prefix)
    if not (cmd_ok and pfx_ok):
        marks.add('irc_roundtrip_skipped_unrepresentable_command_or_prefix')
        return res
    if len(got) < 1:
        return res
    marks.add('irc_roundtrip_evaluated')
    res['stage'] = 'roundtrip'
    oblig['ROUNDTRIP'] += 1
    line = got[0]
    try:
        ptuple, pcmd, pargs = h['parsemsg'](line) if enc == 'utf-8' else h['parsemsg'](line, encoding=enc)
        pprefix = join_prefix_tuple(ptuple)
    except Exception as e:
        problems.append(('ROUNDTRIP', {'problem': 'parsemsg raised', 'error': repr(e), 'line': line}, 'raised'))
        return res
    first_parse = copy.deepcopy((ptuple, pcmd, pargs))
    # -- 5. parsing is a function of the line: the same line received again (by a real IRC component, then parsed directly once more)
    #       gives the same fields every time - whatever an earlier reception did with what it was handed
    try:
        rx = h['Rec']()
        nb = bool(case.get('neighbour'))
        if nb:
            # a second network in the same tree, on a channel of its own, with half a line pending while this one receives
            marks.add('irc_component_with_a_neighbour_on_another_channel')
            irc = (h['IRC'](channel='net1') if enc == 'utf-8' else h['IRC'](channel='net1', encoding=enc)).register(rx)
            h['IRC'](channel='net2').register(rx)
            rx.settle()
            rx.fire(h['read'](b':other NOTICE x :par'), 'net2')
            rx.settle()
        else:
            irc = (h['IRC']() if enc == 'utf-8' else h['IRC'](encoding=enc)).register(rx)
        rx.settle()
        seen = []
        for _ in range(2):
            n0 = len(rx.all)
            rx.fire(h['read'](data), irc.channel)
            rx.settle()
            seen.append([(n, repr(a)) for n, a in rx.all[n0:] if n not in ('read', 'line', 'exception') and not n.endswith(('_done', '_success', '_complete', '_failure'))])
        if nb:
            n0 = len(rx.all)
            rx.fire(h['read'](b'tial\r\n'), 'net2')
            rx.settle()
            theirs = [(n, repr(a)) for n, a in rx.all[n0:] if n not in ('read', 'line', 'exception') and not n.endswith(('_done', '_success', '_complete', '_failure'))]
            pt2, _pc2, pa2 = h['parsemsg'](b':other NOTICE x :partial')
            want2 = [('notice', repr((pt2,) + tuple(pa2)))]
            oblig['ROUNDTRIP'] += 1
            if theirs != want2:
                problems.append(('ROUNDTRIP', {'problem': 'a neighbouring IRC component on another channel, which held half a line while this message was received, '
                                               'does not deliver exactly its own message afterwards', 'neighbour_events': theirs[:4], 'expected': want2,
                                               'line_received_meanwhile_on_the_other_channel': line}, 'neighbour'))
        again = h['parsemsg'](line) if enc == 'utf-8' else h['parsemsg'](line, encoding=enc)
        # what the receiving component hands to the application is the direct parse of the line (numeric replies carry their number first)
        want_ev = None
        if pcmd and re.fullmatch(r'[A-Za-z]+|[0-9]{3}', pcmd):      # (ordinary commands only: what a component makes of others is not stated)
            if NUMERIC_CMD.match(pcmd):
                want_ev = ('numeric', repr((ptuple, int(pcmd)) + tuple(pargs)))
            else:
                want_ev = (pcmd.lower(), repr((ptuple,) + tuple(pargs)))
        if want_ev is not None and seen[0] and seen[0][0] != want_ev and len(seen[0]) == 1:
            problems.append(('ROUNDTRIP', {'problem': 'the event a receiving IRC component fires differs from the parse of the line', 'line': line,
                                           'event': list(seen[0][0]), 'expected': list(want_ev), 'encoding': enc}, 'component'))
        oblig['ROUNDTRIP'] += 1
        marks.add('irc_same_line_received_twice')
        if NUMERIC_CMD.match(pcmd or ''):
            marks.add('irc_numeric_line_received_twice')
        # (what an IRC component does with a line whose command cannot name an event is not this property's subject: exception events are ignored)
        if seen[0] != seen[1] or tuple(again) != first_parse or (ptuple, pcmd, pargs) != first_parse:
            problems.append(('ROUNDTRIP', {'problem': 'the same serialised line gives different results when it is received / parsed again',
                                           'line': line, 'events_first_reception': seen[0][:4], 'events_second_reception': seen[1][:4],
                                           'first_parse': list(first_parse), 'parse_after_the_receptions': list(again),
                                           'exceptions': [repr(e[1]) for e in rx.exceptions[:2]]}, 'stateful'))
    except Exception as e:  # noqa: BLE001
        problems.append(('ROUNDTRIP', {'problem': 'receiving the serialised line with a real IRC component raised', 'error': repr(e), 'line': line}, 'stateful-raised'))
    if ptuple != (None, None, None) and ptuple[1] is not None:
        marks.add('irc_prefix_nick_user_host')
    if (pprefix, pcmd, pargs) != (own_prefix, own_cmd, own_args):
        rp = ref_parse_irc(line.decode(enc, 'replace'))
        diff = [n for n, x, y in (('prefix', pprefix, own_prefix), ('command', pcmd, own_cmd), ('args', pargs, own_args)) if x != y]
        problems.append(('ROUNDTRIP', {
            'problem': 'parsemsg(serialised) differs from the message', 'differs_in': diff, 'line': line,
            'parsed': {'prefix': pprefix, 'command': pcmd, 'args': pargs},
            'message': {'prefix': own_prefix, 'command': own_cmd, 'args': own_args},
            'a_reference_RFC2812_parser_recovers_the_message': rp == (own_prefix, own_cmd, own_args)}, '+'.join(diff)))
    return res


def irc_marks(case, marks):
    allv = [a for a in list(case.get('args', [])) + list(case.get('late', []))]
    for a in allv:
        if a is None:
            marks.add('irc_arg_none')
            continue
        if isinstance(a, bytes):
            marks.add('irc_arg_bytes')
        s = _dec(a)
        if ' ' in s:
            marks.add('irc_arg_with_space')
        if ':' in s:
            marks.add('irc_arg_with_colon')
        if '\r' in s:
            marks.add('irc_arg_with_cr')
        if '\n' in s:
            marks.add('irc_arg_with_lf')
        if '\x00' in s:
            marks.add('irc_arg_with_nul')
        if s == '':
            marks.add('irc_arg_empty')
        if any(ord(ch) > 127 for ch in s):
            marks.add('irc_arg_non_ascii')
        if any(_is_ws(ch) for ch in s):
            marks.add('irc_arg_non_space_whitespace')
    if case['ctor'] == 'Message':
        if any(ch not in SAFE for ch in str(case['command'])) or case['command'] == '':
            marks.add('irc_hostile_command')
        if case.get('prefix') is not None and (case['prefix'] == '' or any(ch not in SAFE for ch in case['prefix'])):
            marks.add('irc_hostile_prefix')


def irc_benign(case):
    """nothing in the call that a serialiser could object to: non-empty arguments over SAFE (the last one may
    contain inner spaces and colons), command/prefix over SAFE."""
    if case['ctor'] != 'Message' and any(a is None for a in case.get('args', [])[:harness()['funcs'][case['ctor']][1]]):
        return False    # None for a required parameter
    vals = [a for a in list(case.get('args', [])) + list(case.get('late', [])) if a is not None]
    for i, a in enumerate(vals):
        a = _dec(a)
        ok = SAFE | ({' ', ':', ')'} if i == len(vals) - 1 else set())
        if a == '' or a[0] in ' :' or any(ch not in ok for ch in a):
            return False
    if case['ctor'] == 'Message':
        if case['command'] == '' or any(ch not in SAFE for ch in case['command']):
            return False
        if case.get('prefix') is not None and (case['prefix'] == '' or any(ch not in SAFE for ch in case['prefix'])):
            return False
    return True


def irc_nontrivial(case):
    vals = [_dec(a) for a in list(case.get('args', [])) + list(case.get('late', [])) if a is not None]
    if case['ctor'] == 'Message':
        vals.append(str(case['command']))
        if case.get('prefix') is not None:
            vals.append(case['prefix'])
    return any(v == '' or any(ch not in SAFE for ch in v) for v in vals)


def _passes(case):
    """twin verdict: the twin was really serialised and satisfied every obligation."""
    r = run_irc_case(case)
    return not r['problems'] and r['stage'] in ('serialised', 'roundtrip')


def evaluate_irc(b, case, top=True):
    res = run_irc_case(case)
    if top:
        b.case(case, nontrivial=irc_nontrivial(case))
        irc_marks(case, res['marks'])
        for m in res['marks']:
            b.reached(m)
    else:
        b.reached('irc_single_trigger_subcases')
    problems = res['problems']
    failing = {p[0] for p in problems}
    for c, n in res['oblig'].items():
        n -= 1 if c in failing else 0
        if n > 0:
            b.ok(c, n)
    if not problems:
        return set()
    T = [k for k in KEY_ORDER if k in res['triggers']]
    cmd_idx = res['cmd_idx']
    if len(T) <= 1:
        for clause, detail, dedup in problems:
            known = [(k, (lambda k=k: _passes(neutralise(case, {k}, cmd_idx)))) for k in T]
            b.fail(case, clause, detail, known=known, dedup=dedup)
        return failing
    # several known triggers in one call: judge each trigger alone (the others neutralised); a clause that
    # fails on the original but on none of the single-trigger sub-cases is reported unattributed
    explained = set()
    for k in T:
        sub = neutralise(case, set(T) - {k}, cmd_idx)
        explained |= evaluate_irc(b, sub, top=False)
    if not _passes(neutralise(case, set(T), cmd_idx)):
        evaluate_irc(b, neutralise(case, set(T), cmd_idx), top=False)
    for clause, detail, dedup in problems:
        if clause not in explained:
            b.fail(case, clause, detail, dedup='combination-' + str(dedup))
    return failing


# -- generation -----------------------------------------------------------------------------------
HOSTILE = ['', ' ', ':', '\r', '\n', '\r\n', '\x00', 'a b', ' a', 'a ', 'a  b', ':a', 'a:', 'a:b', '::', ':a b', 'a :b', ': a', ' :',
           'a\rb', 'a\nb', 'a\r\nb', 'a\r\nQUIT :bye', 'a\rQUIT :bye', '\rQUIT', 'a\r', 'a\n', '\ra', '\na', 'a b\rQUIT', ':a\rb',
           'a\x00b', 'a b\x00c', 'caf\xe9', '日本 語', '\U0001f600', 'a\xa0b', 'a\tb', 'a\u2028b', 'a\x0bb', 'a\x0cb',
           'a\x85b', 'a\x1cb', '\u3000', 'a\xa0b c', 'x' * 600]
BENIGN = ['nick', '#chan', 'irc.example.org', '+o', 'user', 'secret', '1', 'Hello', '#a,#b', 'n!u@h']
BENIGN_LAST = BENIGN + ['Hello World', 'a b c', 'x :y', 'what: ever', 'bye bye :)']
ATOMS = [' ', ' ', ':', ':', '\r', '\n', '\r\n', '\x00', 'a', 'b', '#c', 'Q', '\xe9', '日本', '\U0001f600', '\xa0', '\t', '\u2003',
         '!', '@', ',', '+o', '1', 'QUIT', 'x y', ' :']
COMMANDS = ['PRIVMSG', 'NOTICE', 'PING', '001', '433', 'X', 'mode']
PREFIXES = [None, None, 'nick', 'nick!user@host', 'irc.example.org', 'n!u@h.example', '\xe9!u@h']


def func_arities(name):
    _f, req, opt, var = harness()['funcs'][name]
    return list(range(req, req + opt + 1)) + ([req + opt + 1, req + opt + 2] if var else [])


def irc_matrix():
    """every constructor x every parameter position x every hostile string (the rest benign)."""
    h = harness()
    cases = []
    names = sorted(h['funcs'])
    for name in names:
        for n in func_arities(name):
            base = [BENIGN[(i * 3 + len(name)) % len(BENIGN)] for i in range(n)]
            cases.append({'kind': 'irc', 'ctor': name, 'args': list(base)})
            if n:
                cases.append({'kind': 'irc', 'ctor': name, 'args': base[:-1] + ['Hello World :) x']})
                cases.append({'kind': 'irc', 'ctor': name, 'args': [a.encode() for a in base]})
            for p in range(n):
                for hs in HOSTILE:
                    a = list(base)
                    a[p] = hs
                    cases.append({'kind': 'irc', 'ctor': name, 'args': a})
                a = list(base)
                a[p] = None
                cases.append({'kind': 'irc', 'ctor': name, 'args': a})
                for hs in ('a\rb', 'a\nb', ':a', '', 'caf\xe9 x', 'a\xa0b'):
                    a = list(base)
                    a[p] = hs.encode()
                    cases.append({'kind': 'irc', 'ctor': name, 'args': a})
    for prefix in (None, 'nick!user@host', 'irc.example.org'):
        for n in (0, 1, 2, 3):
            base = [BENIGN[i] for i in range(n)]
            cases.append({'kind': 'irc', 'ctor': 'Message', 'command': 'PRIVMSG', 'prefix': prefix, 'args': list(base)})
            for p in range(n):
                for hs in HOSTILE:
                    a = list(base)
                    a[p] = hs
                    cases.append({'kind': 'irc', 'ctor': 'Message', 'command': 'PRIVMSG', 'prefix': prefix, 'args': a})
            for hs in HOSTILE:
                # fields changed after construction: str()/bytes() re-validate
                cases.append({'kind': 'irc', 'ctor': 'Message', 'command': 'PRIVMSG', 'prefix': prefix, 'args': list(base), 'late': [hs]})
    for hs in HOSTILE + ['nick!user@host', 'irc.example.org']:
        cases.append({'kind': 'irc', 'ctor': 'Message', 'command': 'NOTICE', 'prefix': hs, 'prefix_obj': True, 'args': ['nick', 'Hello World']})
        cases.append({'kind': 'irc', 'ctor': 'Message', 'command': '001', 'prefix': hs, 'prefix_obj': True, 'args': []})
    for hs in HOSTILE:
        cases.append({'kind': 'irc', 'ctor': 'Message', 'command': hs, 'prefix': None, 'args': ['nick', 'Hello World']})
        cases.append({'kind': 'irc', 'ctor': 'Message', 'command': 'NOTICE', 'prefix': hs, 'args': ['nick', 'Hello World']})
        cases.append({'kind': 'irc', 'ctor': 'Message', 'command': hs, 'prefix': hs, 'args': []})
    # IRC components configured with another encoding at both ends: non-ASCII text survives the component path
    for enc in ('latin-1', 'cp1252', 'utf-8'):
        for args in (['#caf\xe9', 'caf\xe9 au lait'], ['nick', 'na\xefve \xfcber'], ['#chan', 'plain ascii'], ['\xe9']):
            for cmd in ('PRIVMSG', 'NOTICE', '372'):
                cases.append({'kind': 'irc', 'ctor': 'Message', 'command': cmd, 'prefix': 'n\xe9!u@h', 'args': list(args), 'encoding': enc})
        cases.append({'kind': 'irc', 'ctor': 'PRIVMSG', 'args': ['#caf\xe9', 'd\xe9j\xe0 vu'], 'encoding': enc})
        cases.append({'kind': 'irc', 'ctor': 'TOPIC', 'args': ['#chan', 'caf\xe9'], 'encoding': enc})
        # two networks in one tree, each IRC component on a channel of its own
        for cmd, args in (('PRIVMSG', ['#chan', 'hello there']), ('NOTICE', ['you', 'greetings from one']), ('001', ['nick', 'Welcome'])):
            cases.append({'kind': 'irc', 'ctor': 'Message', 'command': cmd, 'prefix': 'n!u@h', 'args': list(args), 'encoding': enc, 'neighbour': True})
    for cmd in COMMANDS:
        for prefix in PREFIXES:
            for last in BENIGN_LAST:
                cases.append({'kind': 'irc', 'ctor': 'Message', 'command': cmd, 'prefix': prefix, 'args': ['#chan', last]})
    return cases


def irc_pairs(part, of):
    """two hostile positions at once (thorough)."""
    h = harness()
    k = 0
    for name in sorted(h['funcs']) + ['Message']:
        n = 3 if name == 'Message' else max(func_arities(name))
        if n < 2:
            continue
        for p, q in itertools.combinations(range(n), 2):
            for h1 in HOSTILE[:-1]:
                for h2 in HOSTILE[:-1]:
                    k += 1
                    if k % of != part:
                        continue
                    a = [BENIGN[i] for i in range(n)]
                    a[p], a[q] = h1, h2
                    c = {'kind': 'irc', 'ctor': name, 'args': a}
                    if name == 'Message':
                        c.update(command='KICK', prefix='n!u@h' if k % 3 == 0 else None)
                    yield c


def gen_str(rng, last):
    r = rng.random()
    if r < 0.45:
        return rng.choice(BENIGN_LAST if last else BENIGN)
    if r < 0.6:
        return rng.choice(HOSTILE)
    n = rng.choice([0, 1, 1, 2, 2, 3, 4, 6])
    return ''.join(rng.choice(ATOMS) for _ in range(n))


def gen_irc_case(rng):
    h = harness()
    names = sorted(h['funcs'])
    if rng.random() < 0.4:
        ctor = 'Message'
        n = rng.choice([0, 1, 1, 2, 2, 3, 4])
    else:
        ctor = rng.choice(names)
        n = rng.choice(func_arities(ctor))
    args = []
    for i in range(n):
        s = gen_str(rng, last=(i == n - 1))
        r = rng.random()
        if r < 0.1:
            s = s.encode('utf-8')
        elif r < 0.15 and ctor != 'Message' and i >= h['funcs'][ctor][1]:
            s = None
        elif r < 0.13 and ctor == 'Message':
            s = None
        args.append(s)
    case = {'kind': 'irc', 'ctor': ctor, 'args': args}
    if ctor == 'Message':
        case['command'] = rng.choice(COMMANDS) if rng.random() < 0.8 else gen_str(rng, False)
        case['prefix'] = rng.choice(PREFIXES) if rng.random() < 0.85 else gen_str(rng, False)
        if case['prefix'] is not None and rng.random() < 0.25:
            case['prefix_obj'] = True
        if rng.random() < 0.15:
            case['late'] = [gen_str(rng, True) for _ in range(rng.choice([1, 1, 2]))]
    if rng.random() < 0.15:
        case['encoding'] = rng.choice(['latin-1', 'cp1252'])
    if rng.random() < 0.3:
        case['neighbour'] = True
    return case


# ------------------------------------------------------------------------------------------------
def plan(tier, seed):
    if tier == 'quick':
        return ([{'kind': 'corpus'}, {'kind': 'line_exh', 'L': 5, 'part': 0, 'of': 1}, {'kind': 'server_exh', 'L': 2, 'part': 0, 'of': 1}] +
                [{'kind': 'line_random', 'seed': seed * 1000 + i, 'n': 500} for i in range(6)] +
                [{'kind': 'irc_random', 'seed': seed * 1000 + 500 + i, 'n': 500} for i in range(6)])
    return ([{'kind': 'corpus'}] +
            [{'kind': 'line_exh', 'L': 8, 'part': i, 'of': 24} for i in range(24)] +
            [{'kind': 'server_exh', 'L': 3, 'part': i, 'of': 8} for i in range(8)] +
            [{'kind': 'irc_pairs', 'part': i, 'of': 8} for i in range(8)] +
            [{'kind': 'line_random', 'seed': seed * 100000 + i, 'n': 8000} for i in range(24)] +
            [{'kind': 'irc_random', 'seed': seed * 100000 + 50000 + i, 'n': 8000} for i in range(24)])


def evaluate(b, case):
    try:
        if case['kind'] == 'line':
            evaluate_line(b, case)
        else:
            evaluate_irc(b, case)
    except Exception as e:
        import traceback
        b.fail(case, 'HARNESS_RAISED', {'error': repr(e), 'tb': traceback.format_exc(limit=8)}, dedup=type(e).__name__)


def run_batch(spec):
    import circuits  # noqa: F401  (the real package under test)
    b = Batch(PROPERTY)
    kind = spec['kind']
    if kind == 'corpus':
        for case in line_corpus():
            evaluate(b, case)
        for case in irc_matrix():
            evaluate(b, case)
        h = harness()
        if all(b.counters.get('ctor_' + n) for n in h['funcs']):
            b.reached('irc_all_command_functions_called')
        b.extra['irc_command_functions_discovered'] = sorted(h['funcs'])
    elif kind == 'line_exh':
        line_exhaustive(b, spec['L'], spec['part'], spec['of'])
    elif kind == 'server_exh':
        server_exhaustive(b, spec['L'], spec['part'], spec['of'])
    elif kind == 'irc_pairs':
        for case in irc_pairs(spec['part'], spec['of']):
            evaluate(b, case)
    elif kind == 'line_random':
        rng = random.Random(spec['seed'])
        for _ in range(spec['n']):
            evaluate(b, gen_line_case(rng))
    elif kind == 'irc_random':
        rng = random.Random(spec['seed'])
        for _ in range(spec['n']):
            evaluate(b, gen_irc_case(rng))
    else:
        raise ValueError(kind)
    return b.result()


def run_replay(case):
    import circuits  # noqa: F401
    b = Batch(PROPERTY)
    evaluate(b, unjson(case))
    return b.result()


ENGINE = 'event-injection'
TECHNIQUE = ('runtime monitoring: read events injected into the real Line component under a recording root, line events compared per '
             'read with a reference split of the stream so far; real irc.commands constructors / Message serialised (bytes(), str(), '
             'IRC.request -> write), scanned for CR/LF, fed to a real Line and re-parsed with the real parsemsg')
LEVEL_TEXT = ('Part 1: for every executed case the line events emitted after each injected read equal, per socket, the new complete lines '
              'of a reference LF/CRLF split of that socket\'s whole stream so far (nothing emitted for the unterminated tail, the tail comes '
              'out whole when a later read terminates it, events carry the socket of the read). Exhaustive within bounds: all streams over '
              '{a,CR,LF} up to length 5 (quick) / 8 (thorough) x all segmentations; all interleavings of two byte-at-a-time sockets up to '
              'length 2 / 3 each; otherwise corpus + random sampling. Part 2: every function of irc.commands (discovered at run time) and '
              'Message directly, each parameter position x a fixed hostile-string list, plus random calls: the serialisation has no CR/LF '
              'before its final CRLF or the call was rejected, a real Line sees exactly one line, parsemsg gives the fields back. Held '
              'means no unexplained mismatch on the cases run; sampling outside the stated exhaustive bounds.')
LEVEL_NOTE = ('Trusted: vlib.ref_lines.ref_split as the meaning of "the lines contained in a byte stream"; the harness-owned per-socket '
              'buffer dict in server mode; IRC components with utf-8 (mostly), latin-1 and cp1252 at both ends. Failures caused by the three recorded IRC defects are attributed only when the same '
              'call with just that trigger replaced by "_" is serialised and satisfies every obligation.')

"""C13 - HTTP requests (server) and responses (client) are parsed identically however the stream is segmented.

Oracle (DESIGN.md section 4, C13): differential.  The real components are driven through the event-injection
harness; a probe handler captures the ``request`` event (method, path, qs, protocol, headers, body) and the
harness root captures the bytes written / close events.  The observation of a segmented delivery of byte string
``b`` must equal the observation of the one-piece delivery of ``b`` (Date header normalised).  The one-piece
delivery itself must yield exactly one event per well-formed message, whose fields are those an independent
reference parser (vlib/ref_http.py) reads from the bytes.  Client side: ``circuits.web.client.Client`` (which
contains ``circuits.protocols.http.HTTP``) is fed ``read`` events; the ``response`` events are the observation.
"""
import gzip
import zlib
import hashlib
import os
import random
import re

from vlib import ref_http
from vlib.batch import Batch, unjson

PROPERTY = 'C13'
LEVEL = 'exploration'
RULE = ('fixed corpus of well-formed requests/responses and keep-alive sequences (every single cut position, every pair of '
        'adjacent cuts, byte-at-a-time; thorough adds every pair of cuts within 2 bytes of a CRLF) + seeded grammar-generated '
        'messages and sequences (methods, targets with query, HTTP/1.0 and 1.1, 0-6 headers incl. continuation lines and '
        'duplicates, empty / Content-Length / chunked bodies with extensions and trailers; responses with Content-Length, '
        'chunked, 204/304, read-until-close) delivered with all single cuts, byte-at-a-time and random k-cuts; a case = '
        '(side, message bytes, cut offsets per message); non-trivial = the one-piece delivery yields an event for every '
        'message of the case and at least one cut lies strictly inside a message; distinct = hash of the case')
ASSUMPTIONS = [
    'event-injection harness: read events are injected and the tree settled after each; no kernel socket carries data',
    'no pipelining: message i+1 is injected only after the one-piece or segmented delivery of message i settled',
    'after a close event for the connection the harness injects disconnect and sends nothing further (as a transport would)',
    'HEAD appears only as the last request of a sequence (what follows a HEAD on a kept-alive connection is C15\'s subject)',
    'Date header values are normalised before comparing written bytes',
    'a failure showing several known triggers at once is attributed (to the first key) only if neutralising exactly those triggers makes it pass',
]
REQUIRED = [
    'server.another_connection_receives_its_own_messages_in_between', 'server.redirected_by_itself_for_a_target_not_in_normal_form',
    'server.cut_firstline', 'server.cut_firstline_crlf', 'server.cut_header', 'server.cut_header_crlf', 'server.cut_crlfcrlf',
    'server.cut_continuation_line', 'server.cut_head_body_boundary', 'server.cut_cl_body', 'server.cut_chunk_size_line',
    'server.cut_chunk_data', 'server.cut_chunk_data_crlf', 'server.cut_zero_line', 'server.cut_after_zero_line',
    'server.cut_trailers', 'server.byte_at_a_time', 'server.keepalive_later_message_delivered', 'server.cut_in_later_message',
    'server.request_events_compared', 'server.written_bytes_compared', 'server.one_piece_matches_reference',
    'client.cut_firstline', 'client.cut_firstline_crlf', 'client.cut_header', 'client.cut_crlfcrlf', 'client.cut_cl_body',
    'client.cut_chunk_size_line', 'client.cut_chunk_data', 'client.cut_chunk_data_crlf', 'client.cut_after_zero_line',
    'client.byte_at_a_time', 'client.keepalive_later_message_delivered', 'client.cut_in_later_message',
    'client.response_events_compared', 'client.one_piece_matches_reference', 'client.nobody_or_until_close_trivial',
    'ref_parser_selftest_checks',
]
REQUIRED_OBLIGATIONS = ['SAME_EVENTS', 'SAME_BYTES_WRITTEN', 'ONE_PIECE_SINGLE_EVENT_MATCHING_BYTES']
WORKER_TIMEOUT = {'quick': 300, 'thorough': 1500}

K_FIRSTLINE = 'http.firstline-crlf-split'
K_TAIL = 'http.chunked-tail-after-zero-chunk-split'
K_TECASE = 'http.chunked-coding-name-case-split'

NOT_NORMAL = re.compile(rb'//|/\./|/\.\./|%7[eE]|;|%41')
DATE_RE = re.compile(rb'(?im)^Date: [^\r\n]*')


class Unsettled(Exception):
    pass


# ------------------------------------------------------------------------------------------------
# harness
# ------------------------------------------------------------------------------------------------
_ENV = {}


def env():
    """circuits is imported here (inside the worker) and the probe classes are built once."""
    if _ENV:
        return _ENV
    from circuits import BaseComponent, handler
    from circuits.net.events import disconnect, read
    from circuits.web.client import Client
    from circuits.web.http import HTTP

    from vlib.inject import FakeSock, Wire, cuts_to_chunks

    class ServerProbe(BaseComponent):
        channel = 'web'

        def __init__(self):
            super().__init__()
            self.seen = []

        @handler('request', priority=10)
        def _v_on_request(self, event, req, res, *args):
            body = req.body.read()
            rec = [req.method, req.path, req.qs, list(req.protocol), sorted([k, v] for k, v in req.headers.items()), body]
            self.seen.append(rec)
            # the response depends on everything the handler saw
            answer = 'seen %s' % hashlib.sha1(repr(rec).encode()).hexdigest()
            if req.path.startswith('/stream'):
                # ... and is sent through the server's streaming path (a file-like body of several buffers)
                import io
                return io.BytesIO((answer + '\n').encode() * 700)
            return answer

    class ClientProbe(BaseComponent):
        channel = 'client'

        def __init__(self):
            super().__init__()
            self.seen = []
            self.closes = 0

        @handler('response', priority=10)
        def _v_on_response(self, res):
            self.seen.append([res.status, list(res.version), sorted([k, v] for k, v in res.headers.items()), res.body.getvalue()])

        @handler('close', channel='*', priority=10)
        def _v_on_close(self, *args):
            self.closes += 1

    _ENV.update(HTTP=HTTP, Client=Client, read=read, disconnect=disconnect, FakeSock=FakeSock, Wire=Wire,
                cuts_to_chunks=cuts_to_chunks, ServerProbe=ServerProbe, ClientProbe=ClientProbe)
    return _ENV


def _fds():
    try:
        return set(os.listdir('/proc/self/fd'))
    except OSError:
        return set()


def _inject(w, ev):
    try:
        w.inject(ev)
    except RuntimeError as e:
        if 'does not settle' in str(e):
            raise Unsettled(str(e))
        raise


NEIGHBOUR_MSGS = [b'POST /zz-neighbour/a HTTP/1.1\r\nHost: n\r\nContent-Length: 9\r\n\r\nNEIGHBOUR',
                  b'POST /zz-neighbour/b HTTP/1.1\r\nHost: n\r\nTransfer-Encoding: chunked\r\n\r\n4\r\nWXYZ\r\n3\r\nabc\r\n0\r\n\r\n',
                  b'GET /zz-neighbour/c?x=1 HTTP/1.1\r\nHost: n\r\nX-N: 1\r\n\r\n']


def _neighbour_pieces():
    """The traffic of ANOTHER connection of the same server: its messages arrive in pieces of their own (cut inside the request line, the
    header block and the body), one piece between any two reads of the connection under test."""
    while True:
        for m in NEIGHBOUR_MSGS:
            cuts = sorted({7, len(m) // 2, len(m) - 3})
            prev = 0
            for c in cuts + [len(m)]:
                yield m[prev:c]
                prev = c


def deliver_server(msgs, cutss, neighbour=False):
    """One connection; message i is delivered in the chunks given by cutss[i].  Returns the observation.  With ``neighbour`` a second
    connection of the same server receives messages of its own, piecemeal, in between: what the connection under test is told and is sent
    does not depend on it."""
    E = env()
    w = E['Wire']()
    E['HTTP'](w).register(w)
    probe = E['ServerProbe']().register(w)
    w.settle()
    s = E['FakeSock']()
    t = E['FakeSock'](('10.9.9.9', 999)) if neighbour else None
    pieces = _neighbour_pieces() if neighbour else None
    per = []
    alive = True

    def mine(lo_seen):
        return [rec for rec in probe.seen[lo_seen:] if not str(rec[1]).startswith('/zz-neighbour/')]
    try:
        for msg, cuts in zip(msgs, cutss):
            if not alive:
                per.append(None)
                continue
            m_out, m_seen, m_exc = len(w.out), len(probe.seen), len(w.exceptions)
            chunks = E['cuts_to_chunks'](msg, cuts)
            early = None
            for ci, chunk in enumerate(chunks):
                if neighbour:
                    _inject(w, E['read'](t, next(pieces)))
                    if any(x[0] == 'close' and x[1] is t for x in w.out[m_out:]):
                        raise Unsettled('the neighbour connection was closed by the server: %r' % b''.join(x[2] for x in w.out[m_out:] if x[0] == 'write' and x[1] is t)[:60])
                _inject(w, E['read'](s, chunk))
                out_s = [x for x in w.out[m_out:] if x[1] is s]
                if ci < len(chunks) - 1 and early is None and (out_s or mine(m_seen)):
                    # something was dispatched / written / closed before the last bytes of the message had arrived
                    early = {'after_bytes': sum(len(c) for c in chunks[:ci + 1]), 'of': len(msg), 'request_events': len(mine(m_seen)),
                             'written': b''.join(x[2] for x in out_s if x[0] == 'write')[:80], 'closes': sum(1 for x in out_s if x[0] == 'close')}
                if any(x[0] == 'close' for x in out_s):
                    alive = False
                    break
            out = w.out[m_out:]
            per.append({
                'early': early,
                'events': mine(m_seen),
                'written': DATE_RE.sub(b'Date: X', b''.join(x[2] for x in out if x[0] == 'write' and x[1] is s)),
                'closes': sum(1 for x in out if x[0] == 'close' and x[1] is s),
                'foreign_writes': sum(1 for x in out if x[0] == 'write' and x[1] is not s and x[1] is not t),
                'exceptions': [getattr(x[0], '__name__', repr(x[0])) for x in w.exceptions[m_exc:]],
            })
        if not alive:
            _inject(w, E['disconnect'](s))
    finally:
        s.close()
        if t is not None:
            t.close()
    return per


def deliver_client(msgs, cutss):
    E = env()
    before = _fds()
    w = E['Wire'](channel='client')
    c = E['Client']().register(w)
    probe = E['ClientProbe']().register(w)
    per = []
    alive = True
    try:
        w.settle()
        for msg, cuts in zip(msgs, cutss):
            if not alive:
                per.append(None)
                continue
            m_seen, m_cl, m_exc = len(probe.seen), probe.closes, len(w.exceptions)
            for chunk in E['cuts_to_chunks'](msg, cuts):
                _inject(w, E['read'](chunk))
                if probe.closes > m_cl:
                    alive = False
                    break
            last = c.response
            per.append({
                'events': probe.seen[m_seen:],
                'closes': probe.closes - m_cl,
                'client_response': None if last is None else [last.status, last.body.getvalue()],
                'exceptions': [getattr(x[0], '__name__', repr(x[0])) for x in w.exceptions[m_exc:]],
            })
    finally:
        # the transport's socket and its poller's pipe are real descriptors: release them
        try:
            c._transport._sock.close()
        except Exception:  # noqa: BLE001
            pass
        for fd in _fds() - before:
            try:
                os.close(int(fd))
            except OSError:
                pass
    return per


def deliver(side, msgs, cutss, neighbour=False):
    return deliver_server(msgs, cutss, neighbour) if side == 'server' else deliver_client(msgs, cutss)


# ------------------------------------------------------------------------------------------------
# what the bytes say (independent reference parser) and where a cut falls
# ------------------------------------------------------------------------------------------------
def structure(side, msg):
    """Reference parse of one message: dict with the parsed message (or None) and offsets used to classify cuts."""
    try:
        if side == 'server':
            r, end = ref_http.parse_request(msg, 0)
        else:
            r, end = ref_http.parse_response(msg, 0, 'GET', closed=True)
    except (ref_http.Incomplete, ref_http.Malformed) as e:
        return {'ok': False, 'why': str(e)}
    fl = msg.find(b'\r\n')
    te = r.get(b'Transfer-Encoding')
    return {'ok': end == len(msg), 'r': r, 'fl_cr': fl, 'head_end': r.head_end, 'framing': r.framing,
            'zero_end': r.zero_line[1] if r.zero_line else None, 'zero_start': r.zero_line[0] if r.zero_line else None,
            'chunks': r.chunk_marks, 'te_variant': bool(te is not None and te.lower() == b'chunked' and te != b'chunked')}


def classify_cut(msg, st, p):
    """Name of the region a cut at offset p (0 < p < len(msg)) falls in."""
    if p <= st['fl_cr']:
        return 'cut_firstline'
    if p == st['fl_cr'] + 1:
        return 'cut_firstline_crlf'
    he = st['head_end']
    if p < he:
        if p > he - 4:
            return 'cut_crlfcrlf'
        if msg[p - 1:p + 1] == b'\r\n':
            return 'cut_header_crlf'
        # inside a continuation line?
        ls = msg.rfind(b'\r\n', 0, p) + 2
        if msg[ls:ls + 1] in (b' ', b'\t'):
            return 'cut_continuation_line'
        return 'cut_header'
    if p == he:
        return 'cut_head_body_boundary'
    if st['framing'] == 'chunked':
        for ls, ds, de, ac in st['chunks']:
            if ls < p < ds:
                return 'cut_chunk_size_line'
            if p == ds:
                return 'cut_chunk_size_line_end'
            if ds < p < de:
                return 'cut_chunk_data'
            if p in (de, de + 1):
                return 'cut_chunk_data_crlf'
            if p == ac:
                return 'cut_chunk_boundary'
        if st['zero_start'] < p < st['zero_end']:
            return 'cut_zero_line'
        if p >= st['zero_end']:
            return 'cut_trailers' if len(msg) - st['zero_end'] > 2 else 'cut_after_zero_line'
        return 'cut_chunked_other'
    if st['framing'] == 'length':
        return 'cut_cl_body'
    return 'cut_body_other'


def collapse(s):
    return ' '.join(s.split())


def expected_event(side, st):
    """What the reference parser reads from the bytes, in the shape of the probe's record (None = no event owed)."""
    r = st['r']
    hm = {k: collapse(', '.join(v)) for k, v in r.header_map().items()}
    if side == 'server':
        return {'method': r.method.decode('latin-1'), 'path': r.path.decode('latin-1'), 'qs': r.query.decode('latin-1'),
                'version': list(r.version), 'headers': hm, 'body': r.body}
    if r.framing == 'close' or (r.framing == 'none' and r.get(b'Content-Length') is None):
        return None  # read-until-close / bodiless status without Content-Length: delivery is not owed by this property
    return {'status': r.status, 'version': list(r.version), 'headers': hm, 'body': r.body}


def event_matches(side, ev, exp, noabs_body=False):
    if side == 'server':
        got = {'method': ev[0], 'path': ev[1], 'qs': ev[2], 'version': ev[3], 'headers': {k.lower(): collapse(v) for k, v in ev[4]},
               'body': ev[5]}
    else:
        got = {'status': ev[0], 'version': ev[1], 'headers': {k.lower(): collapse(v) for k, v in ev[2]}, 'body': ev[3]}
    diffs = {}
    for k in exp:
        if k == 'body' and noabs_body:
            continue
        if got[k] != exp[k]:
            diffs[k] = {'observed': got[k], 'bytes_say': exp[k]}
    return diffs


# ------------------------------------------------------------------------------------------------
# evaluation of one case
# ------------------------------------------------------------------------------------------------
class Ctx:
    """Per-batch cache of one-piece observations and message structures."""

    def __init__(self, b):
        self.b = b
        self.ref = {}
        self.st = {}
        self.ref_checked = set()

    def structure(self, side, msg):
        k = (side, msg)
        if k not in self.st:
            self.st[k] = structure(side, msg)
        return self.st[k]

    def one_piece(self, side, msgs):
        k = (side, tuple(msgs))
        if k not in self.ref:
            self.ref[k] = deliver(side, msgs, [[] for _ in msgs])
        return self.ref[k]


def compare(side, ref, obs):
    """First difference between the one-piece observation and a segmented one: (clause, detail) or None."""
    for i, (a, o) in enumerate(zip(ref, obs)):
        if a is None and o is None:
            continue
        if a is None or o is None:
            return ('SAME_EVENTS', {'message': i, 'one_piece': 'delivered' if a else 'not sent (connection closed before)',
                                    'segmented': 'delivered' if o else 'not sent (connection closed before)'})
        if a['events'] != o['events']:
            return ('SAME_EVENTS', {'message': i, 'one_piece_events': a['events'], 'segmented_events': o['events'],
                                    'segmented_written': o.get('written', b'')[:200], 'segmented_exceptions': o['exceptions']})
        if side == 'server':
            if o.get('early'):
                # the answer to a well-formed message may depend on all of its bytes: nothing of it may go out (and nothing may be dispatched)
                # while some of them have not arrived yet
                return ('SAME_BYTES_WRITTEN', dict(o['early'], message=i, note='the server acted on a well-formed message before its last bytes had arrived',
                                                   one_piece_written=a['written'][:120]))
            if a['written'] != o['written'] or a['closes'] != o['closes'] or a['foreign_writes'] != o['foreign_writes']:
                return ('SAME_BYTES_WRITTEN', {'message': i, 'one_piece_written': a['written'][:300], 'segmented_written': o['written'][:300],
                                               'one_piece_closes': a['closes'], 'segmented_closes': o['closes'],
                                               'segmented_exceptions': o['exceptions']})
        else:
            if a['closes'] != o['closes'] or a['client_response'] != o['client_response']:
                return ('SAME_EVENTS', {'message': i, 'one_piece': [a['closes'], a['client_response']],
                                        'segmented': [o['closes'], o['client_response']]})
    return None


def check_one_piece(ctx, case):
    """ONE_PIECE_SINGLE_EVENT_MATCHING_BYTES, evaluated once per distinct message sequence."""
    side, msgs = case['side'], case['msgs']
    k = (side, tuple(msgs))
    if k in ctx.ref_checked:
        return
    ctx.ref_checked.add(k)
    b = ctx.b
    ref = ctx.one_piece(side, msgs)
    for i, msg in enumerate(msgs):
        st = ctx.structure(side, msg)
        exp = expected_event(side, st)
        if exp is None:
            b.reached(side + '.nobody_or_until_close_trivial')
            continue
        o = ref[i]
        one = dict(case, cuts=[[] for _ in msgs])
        if o is None:
            b.fail(one, 'ONE_PIECE_SINGLE_EVENT_MATCHING_BYTES', {'message': i, 'problem': 'connection was closed before this message of a keep-alive sequence'},
                   dedup=side + ':closed-early')
            return
        if side == 'server' and not o['events'] and NOT_NORMAL.search(msg.split(b' ', 2)[1] if msg.count(b' ') >= 2 else b'') and \
                re.match(rb'HTTP/1\.[01] 30[1278] ', o.get('written', b'')):
            # a target that is not in the server's normal form: it redirects by itself, the application is not asked (only the sameness
            # of that answer under segmentation is this property's business)
            b.reached('server.redirected_by_itself_for_a_target_not_in_normal_form')
            if o['closes']:
                return      # ... and it ends the connection with that answer: what followed in the sequence is never read
            continue
        if len(o['events']) != 1:
            b.fail(one, 'ONE_PIECE_SINGLE_EVENT_MATCHING_BYTES', {'message': i, 'problem': 'one-piece delivery yields %d events' % len(o['events']),
                                                                 'events': o['events'], 'written': o.get('written', b'')[:300],
                                                                 'exceptions': o['exceptions']},
                   dedup=side + ':count')
            return
        diffs = event_matches(side, o['events'][0], exp, noabs_body=bool(case.get('encoded_body')))
        if diffs:
            b.fail(one, 'ONE_PIECE_SINGLE_EVENT_MATCHING_BYTES', {'message': i, 'differences': diffs}, dedup=side + ':' + ','.join(sorted(diffs)))
            return
        b.ok('ONE_PIECE_SINGLE_EVENT_MATCHING_BYTES')
        b.reached(side + '.one_piece_matches_reference')


def known_triggers(ctx, case):
    """Which known mechanisms are structurally present in the case (DESIGN.md 3.3)."""
    side = case['side']
    present = []
    a = bt = c = False
    for msg, cuts in zip(case['msgs'], case['cuts']):
        st = ctx.structure(side, msg)
        if not st['ok'] or not cuts:
            continue
        if st['fl_cr'] + 1 in cuts:
            a = True
        if st['zero_end'] is not None and any(p >= st['zero_end'] for p in cuts):
            bt = True
        if side == 'server' and st['te_variant'] and any(p >= st['head_end'] for p in cuts):
            c = True
    # order matters for attribution: removing the cuts behind the zero-size chunk line (K_TAIL's twin) also removes cuts
    # that trigger K_TECASE, so the narrower neutralisation (respelling the coding name) is tried first
    if a:
        present.append(K_FIRSTLINE)
    if c:
        present.append(K_TECASE)
    if bt:
        present.append(K_TAIL)
    return present


def neutralise(ctx, case, keys):
    """The same case with ONLY the given known triggers removed."""
    side = case['side']
    msgs, cutss = [], []
    for msg, cuts in zip(case['msgs'], case['cuts']):
        st = ctx.structure(side, msg)
        cuts = list(cuts)
        if st['ok']:
            if K_FIRSTLINE in keys:
                cuts = [p for p in cuts if p != st['fl_cr'] + 1]            # CR and LF of the first line arrive together
            if K_TAIL in keys and st['zero_end'] is not None:
                cuts = [p for p in cuts if p < st['zero_end']]             # the tail arrives with the zero-size chunk line
            if K_TECASE in keys and st['te_variant']:
                te = st['r'].get(b'Transfer-Encoding')
                i = msg.find(te, 0, st['head_end'])
                msg = msg[:i] + te.lower() + msg[i + len(te):]             # same length: cuts keep their meaning
        msgs.append(msg)
        cutss.append(cuts)
    return dict(case, msgs=msgs, cuts=cutss)


def passes(ctx, case):
    ref = ctx.one_piece(case['side'], case['msgs'])
    obs = deliver(case['side'], case['msgs'], case['cuts'], bool(case.get('neighbour')))
    return compare(case['side'], ref, obs) is None


def subsets(keys):
    from itertools import combinations
    for n in range(1, len(keys) + 1):
        yield from combinations(keys, n)


def evaluate(ctx, case):
    b = ctx.b
    side, msgs, cutss = case['side'], case['msgs'], case['cuts']
    bad = [m for m in msgs if not ctx.structure(side, m)['ok']]
    if bad:
        b.inconclusive_because('corpus/generator produced a message the reference parser does not accept as exactly one message: %r (%s)'
                               % (bad[0][:120], ctx.structure(side, bad[0]).get('why', 'trailing bytes')))
        return
    try:
        check_one_piece(ctx, case)
        ref = ctx.one_piece(side, msgs)
        obs = deliver(side, msgs, cutss, bool(case.get('neighbour')))
        if case.get('neighbour') and side == 'server':
            b.reached('server.another_connection_receives_its_own_messages_in_between')
    except Unsettled as e:
        b.inconclusive_because('tree did not settle: %s' % e)
        return
    except Exception as e:  # noqa: BLE001
        import traceback
        b.fail(case, 'HARNESS_OR_COMPONENT_RAISED', {'error': repr(e), 'tb': traceback.format_exc(limit=8)}, dedup=type(e).__name__)
        return
    sts = [ctx.structure(side, m) for m in msgs]
    owed = [expected_event(side, st) is not None if st['ok'] else False for st in sts]
    produced = all(r is not None and len(r['events']) == 1 for r, ow in zip(ref, owed) if ow) and any(owed)
    inside = any(cutss)
    b.case(case, nontrivial=bool(produced and inside))
    # coverage: where the cuts fall
    classes = []
    for i, (msg, cuts, st) in enumerate(zip(msgs, cutss, sts)):
        if not st['ok']:
            continue
        for p in cuts:
            cl = classify_cut(msg, st, p)
            classes.append(cl)
            b.reached('%s.%s' % (side, cl))
        if cuts and len(cuts) == len(msg) - 1:
            b.reached(side + '.byte_at_a_time')
        if i > 0 and ref[i] is not None:
            b.reached(side + '.keepalive_later_message_delivered')
            if cuts:
                b.reached(side + '.cut_in_later_message')
    n_events = sum(len(r['events']) for r in ref if r)
    problem = compare(side, ref, obs)
    if problem is None:
        b.ok('SAME_EVENTS')
        b.reached(side + ('.request_events_compared' if side == 'server' else '.response_events_compared'), n_events)
        if side == 'server':
            b.ok('SAME_BYTES_WRITTEN')
            b.reached('server.written_bytes_compared', sum(len(r['written']) for r in ref if r))
        return
    clause, detail = problem
    present = known_triggers(ctx, case)
    known = []
    for sub in subsets(present):
        known.append((sub[0], (lambda sub=sub: passes(ctx, neutralise(ctx, case, sub)))))
    detail['known_triggers_present'] = present
    bad_class = sorted(set(classes))[:4]
    b.fail(case, clause, detail, known=known, dedup='%s:%s' % (side, '+'.join(bad_class)))


# ------------------------------------------------------------------------------------------------
# corpus
# ------------------------------------------------------------------------------------------------
def chunked(parts, trailers=b'', exts=None):
    out = []
    for i, p in enumerate(parts):
        ext = (exts or {}).get(i, b'')
        out.append(b'%x%s\r\n%s\r\n' % (len(p), ext, p))
    out.append(b'0%s\r\n%s\r\n' % ((exts or {}).get('last', b''), trailers))
    return b''.join(out)


SERVER_CORPUS = [
    b'GET / HTTP/1.1\r\nHost: h\r\n\r\n',
    b'GET /a/b?x=1&y=two HTTP/1.1\r\nHost: example.org:8000\r\nUser-Agent: probe/1.0\r\nAccept: */*\r\n\r\n',
    b'GET / HTTP/1.0\r\n\r\n',
    b'GET /old HTTP/1.0\r\nConnection: keep-alive\r\nX-A: 1\r\n\r\n',
    b'GET /fold HTTP/1.1\r\nHost: h\r\nX-Fold: first\r\n second\r\n\tthird\r\nX-After: z\r\n\r\n',
    b'GET /dup?q= HTTP/1.1\r\nHost: h\r\nX-Dup: a\r\nX-Dup: b\r\nX-Empty:\r\nX-Space:    v   \r\nX-NoSpace:v\r\n\r\n',
    b'POST /submit HTTP/1.1\r\nHost: h\r\nContent-Type: text/plain\r\nContent-Length: 11\r\n\r\nhello world',
    b'POST /crlf HTTP/1.1\r\nHost: h\r\nContent-Length: 15\r\n\r\n\r\n\r\n0\r\n\r\nGET / ',
    b'PUT /empty HTTP/1.1\r\nHost: h\r\nContent-Length: 0\r\n\r\n',
    b'POST /old HTTP/1.0\r\nContent-Length: 3\r\nConnection: keep-alive\r\n\r\nabc',
    b'POST /bin HTTP/1.1\r\nHost: h\r\nContent-Length: 8\r\n\r\n\x00\x01\xff\xfe\r\n\x80\x7f',
    b'POST /c HTTP/1.1\r\nHost: h\r\nTransfer-Encoding: chunked\r\n\r\n' + chunked([b'abc', b'de']),
    b'POST /c/ext HTTP/1.1\r\nHost: h\r\nTransfer-Encoding: chunked\r\n\r\n' + chunked([b'0123456789abcdef', b'\r\n'], exts={0: b';name=val', 'last': b';last'}),
    b'POST /c/tr HTTP/1.1\r\nHost: h\r\nTransfer-Encoding: chunked\r\n\r\n' + chunked([b'xyz'], trailers=b'X-Trailer: 1\r\nX-T2: 2\r\n'),
    b'POST /c/empty HTTP/1.1\r\nHost: h\r\nTransfer-Encoding: chunked\r\n\r\n' + chunked([]),
    b'POST /c/hex HTTP/1.1\r\nHost: h\r\nTransfer-Encoding: chunked\r\n\r\n00A\r\n0123456789\r\nb\r\n0\r\n\r\n0\r\n\r\nX\r\n0\r\n\r\n',
    b'POST /c/case HTTP/1.1\r\nHost: h\r\nTransfer-Encoding: Chunked\r\n\r\n' + chunked([b'abc']),
    b'DELETE /item/42?force=1 HTTP/1.1\r\nHost: h\r\nConnection: close\r\n\r\n',
    b'OPTIONS /any HTTP/1.1\r\nHost: h\r\nCookie: a=b; c=d\r\n\r\n',
    b'HEAD /head?x=y HTTP/1.1\r\nHost: h\r\n\r\n',
    b'PATCH /a.b/~c_d-e?k=%20v HTTP/1.1\r\nhost: MixedCase.Example\r\ncontent-length: 2\r\n\r\nok',
    # obs-text: bytes >= 0x80 in field values (raw UTF-8, Latin-1), also on a continuation line; every cut makes some read begin with one
    b'GET /obs HTTP/1.1\r\nHost: h\r\nX-Name: caf\xc3\xa9 \xe9t\xe9\r\nCookie: n=\xe2\x82\xac\r\nX-Fold: a\r\n \xfcber\r\n\r\n',
    b'POST /obs2 HTTP/1.1\r\nHost: h\r\nContent-Disposition: attachment; filename="\xe9t\xe9.txt"\r\nContent-Length: 4\r\n\r\n\xff\x80ok',
    # targets that are legal but not in the server's normal form (it answers them itself with a redirect), with bodies
    b'POST /%7Euser/upload?x=1 HTTP/1.1\r\nHost: h\r\nContent-Length: 11\r\n\r\nhello world',
    b'PUT /files//report.txt HTTP/1.0\r\nConnection: keep-alive\r\nContent-Length: 4\r\n\r\nabcd',
    b'POST /a/./b HTTP/1.1\r\nHost: h\r\nTransfer-Encoding: chunked\r\n\r\n' + chunked([b'abc', b'de']),
    b'POST /a/../b;p=1 HTTP/1.1\r\nHost: h\r\nContent-Length: 3\r\n\r\nxyz',
    # answered through the streaming path (what follows on the connection is a request of its own)
    b'GET /stream HTTP/1.1\r\nHost: localhost\r\n\r\n',
    b'POST /stream/up?k=v HTTP/1.1\r\nHost: h\r\nContent-Length: 5\r\n\r\n12345',
]
SERVER_SEQUENCES = [
    [0, 1, 0],
    [6, 0],
    [11, 6],
    [13, 1],
    [3, 9, 2],
    [12, 11, 17],
    [8, 14, 19],
    [4, 5, 7, 0],
    [16, 0],
    [15, 20],
    [21, 22, 0],
    [0, 23],
    [6, 25, 0],
    [27, 6, 0],
    [27, 28, 11],
    [0, 28, 27, 12],
]
# gzip-coded bodies exercise the parser's decompressor carry-over; the decoded body is not compared with the bytes
GZ = gzip.compress(b'hello world, hello world, hello world', mtime=0)
# a body that compresses well: while it arrives, the decompressed bytes so far exceed the (compressed) Content-Length early
GZ2 = gzip.compress(b''.join(b'line %03d: the quick brown fox jumps over the lazy dog\n' % i for i in range(40)), mtime=0)
DF = zlib.compress(b'deflate coded body, deflate coded body, deflate coded body')
SERVER_ENCODED = [
    b'POST /gz HTTP/1.1\r\nHost: h\r\nContent-Encoding: gzip\r\nContent-Length: %d\r\n\r\n%s' % (len(GZ), GZ),
    b'POST /gz2 HTTP/1.1\r\nHost: h\r\nContent-Encoding: gzip\r\nContent-Length: %d\r\n\r\n%s' % (len(GZ2), GZ2),
    # content coding AND chunked transfer coding together: the decompressor is fed chunk by chunk (one chunk, three chunks, deflate)
    b'POST /gzc1 HTTP/1.1\r\nHost: h\r\nContent-Encoding: gzip\r\nTransfer-Encoding: chunked\r\n\r\n' + chunked([GZ]),
    b'POST /gzc3 HTTP/1.1\r\nHost: h\r\nContent-Encoding: gzip\r\nTransfer-Encoding: chunked\r\n\r\n' + chunked([GZ[:7], GZ[7:20], GZ[20:]]),
    b'POST /dfc HTTP/1.1\r\nHost: h\r\nContent-Encoding: deflate\r\nTransfer-Encoding: chunked\r\n\r\n' + chunked([DF[:5], DF[5:]], trailers=b'X-T: 1\r\n'),
]

CLIENT_CORPUS = [
    b'HTTP/1.1 200 OK\r\nContent-Length: 5\r\nX-A: 1\r\n\r\nhello',
    b'HTTP/1.1 200 OK\r\nDate: Thu, 01 Jan 1970 00:00:00 GMT\r\nContent-Type: text/html; charset=utf-8\r\nContent-Length: 13\r\n\r\n<b>hi</b>\r\n\r\n',
    b'HTTP/1.1 200 OK\r\nContent-Length: 0\r\n\r\n',
    b'HTTP/1.0 200 OK\r\nContent-Length: 3\r\nConnection: keep-alive\r\n\r\nabc',
    b'HTTP/1.1 404 Not Found\r\nContent-Length: 9\r\nX-Dup: a\r\nX-Dup: b\r\n\r\nnot found',
    b'HTTP/1.1 201 Created\r\nLocation: /x/1\r\nContent-Length: 2\r\n\r\nok',
    b'HTTP/1.1 200 OK\r\nTransfer-Encoding: chunked\r\n\r\n' + chunked([b'abc', b'de']),
    b'HTTP/1.1 200 OK\r\nTransfer-Encoding: chunked\r\nX-B: 2\r\n\r\n' + chunked([b'0123456789abcdef', b'\r\n'], exts={0: b';name=val'}),
    b'HTTP/1.1 200 OK\r\nTransfer-Encoding: chunked\r\n\r\n' + chunked([b'xyz'], trailers=b'X-Trailer: 1\r\n'),
    b'HTTP/1.1 500 Internal Server Error\r\nConnection: close\r\nContent-Length: 4\r\n\r\noops',
    b'HTTP/1.1 204 No Content\r\nContent-Length: 0\r\n\r\n',
    b'HTTP/1.1 304 Not Modified\r\nContent-Length: 0\r\nETag: "v1"\r\n\r\n',
    b'HTTP/1.1 204 No Content\r\nX-Y: z\r\n\r\n',
    b'HTTP/1.1 304 Not Modified\r\nETag: "v1"\r\n\r\n',
    b'HTTP/1.0 200 OK\r\nContent-Type: text/plain\r\n\r\nread until close',
    b'HTTP/1.1 200 OK\r\nContent-Length: 8\r\n\r\n\x00\x01\xff\xfe\r\n\x80\x7f',
]
CLIENT_SEQUENCES = [
    [0, 1, 2],
    [6, 0],
    [8, 4],
    [7, 6, 9],
    [3, 5, 10, 0],
    [2, 11, 15],
]
CLIENT_ENCODED = [
    b'HTTP/1.1 200 OK\r\nContent-Encoding: gzip\r\nContent-Length: %d\r\n\r\n%s' % (len(GZ), GZ),
    b'HTTP/1.1 200 OK\r\nContent-Encoding: gzip\r\nContent-Length: %d\r\n\r\n%s' % (len(GZ2), GZ2),
    b'HTTP/1.1 200 OK\r\nContent-Encoding: gzip\r\nTransfer-Encoding: chunked\r\n\r\n' + chunked([GZ]),
    b'HTTP/1.1 200 OK\r\nContent-Encoding: gzip\r\nTransfer-Encoding: chunked\r\n\r\n' + chunked([GZ[:7], GZ[7:20], GZ[20:]]),
]


def near_crlf_pairs(msg, radius=2):
    """every pair of cuts both within ``radius`` bytes of some CRLF of the message"""
    near = set()
    i = msg.find(b'\r\n')
    while i >= 0:
        for p in range(i - radius, i + 2 + radius + 1):
            if 0 < p < len(msg):
                near.add(p)
        i = msg.find(b'\r\n', i + 1)
    near = sorted(near)
    return [[a, c] for k, a in enumerate(near) for c in near[k + 1:]]


def cut_patterns(msg, tier, rng=None, k_random=0):
    n = len(msg)
    pats = [[p] for p in range(1, n)]                       # every single cut
    pats.append(list(range(1, n)))                          # byte at a time
    pats.extend([p, p + 1] for p in range(1, n - 1))        # every pair of adjacent cuts (a one-byte middle read)
    if tier == 'thorough':
        seen = {tuple(x) for x in pats}
        for pr in near_crlf_pairs(msg):
            if tuple(pr) not in seen:
                pats.append(pr)
    if rng is not None:
        for _ in range(k_random):
            k = rng.randint(2, min(8, n - 1))
            pats.append(sorted(rng.sample(range(1, n), k)))
    return pats


def corpus_units():
    """The fixed corpus as (side, message list, flags) units; a unit expands to its cut patterns in the worker."""
    units = []
    for m in SERVER_CORPUS:
        units.append(('server', [m], {}))
    for m in SERVER_ENCODED:
        units.append(('server', [m], {'encoded_body': True}))
    for seq in SERVER_SEQUENCES:
        units.append(('server', [SERVER_CORPUS[i] for i in seq], {}))
    units.append(('server', [SERVER_ENCODED[1], SERVER_CORPUS[0]], {'encoded_body': True}))   # keep-alive request after a gzip body
    for m in CLIENT_CORPUS:
        units.append(('client', [m], {}))
    for m in CLIENT_ENCODED:
        units.append(('client', [m], {'encoded_body': True}))
    for seq in CLIENT_SEQUENCES:
        units.append(('client', [CLIENT_CORPUS[i] for i in seq], {}))
    return units


def expand(side, msgs, flags, tier, rng=None, k_random=0, all_at_once=True):
    """Cases of one unit: each message in turn is segmented (the others one piece); plus all messages at once."""
    cases = []
    for i, m in enumerate(msgs):
        for pat in cut_patterns(m, tier, rng, k_random):
            cuts = [[] for _ in msgs]
            cuts[i] = pat
            cases.append(dict(flags, side=side, msgs=list(msgs), cuts=cuts))
    if len(msgs) > 1 and all_at_once:
        cases.append(dict(flags, side=side, msgs=list(msgs), cuts=[list(range(1, len(m))) for m in msgs]))
        if rng is not None:
            for _ in range(max(2, k_random)):
                cases.append(dict(flags, side=side, msgs=list(msgs),
                                  cuts=[sorted(rng.sample(range(1, len(m)), rng.randint(1, min(5, len(m) - 1)))) for m in msgs]))
    if side == 'server':
        # every fifth segmentation once more while ANOTHER connection of the same server receives messages of its own, piecemeal, in between
        # (and the all-at-once ones): what this connection is told and sent does not depend on the neighbour
        again = cases[::5] + [c for c in cases[-3:] if sum(1 for x in c['cuts'] if x) > 1]
        cases += [dict(c, neighbour=True) for c in again]
    return cases


# ------------------------------------------------------------------------------------------------
# grammar
# ------------------------------------------------------------------------------------------------
SEG = 'abcdefghijklmnopqrstuvwxyzABCDEFXYZ0123456789-._~'
VAL = 'abcdefghijklmnopqrstuvwxyzABCXYZ0123456789-._~;=,/()*+ '


def rword(rng, alphabet, lo, hi):
    return ''.join(rng.choice(alphabet) for _ in range(rng.randint(lo, hi)))


def gen_headers(rng, n):
    out = []
    for i in range(n):
        r = rng.random()
        name = rng.choice(['X-A', 'X-B', 'x-lower', 'X-LONG-HEADER-NAME', 'Accept', 'User-Agent', 'X-Dup', 'X-Dup', 'Cookie', 'X-%d' % i])
        if name == 'Cookie':
            val = '%s=%s' % (rword(rng, SEG[:26], 1, 4), rword(rng, SEG[:36], 0, 6))
        else:
            val = rword(rng, VAL, 0, 24).strip()
            if rng.random() < 0.15:
                # obs-text (RFC 7230 3.2.6): bytes >= 0x80 are legal in field values (raw UTF-8 / Latin-1; encoded as latin-1 below)
                val = (val + ' ' + rng.choice(['caf\xe9', '\xc3\xa9t\xc3\xa9', '\xe2\x82\xac', '\xff', '\x80\x81'])).strip()
        sep = rng.choice([': ', ':', ':  ', ':\t'])
        line = name + sep + val
        if name == 'Cookie':
            pass       # the cookie jar has its own syntax; a folded or padded cookie is not what this grammar is about
        elif r < 0.25:  # obsolete line folding
            for _ in range(rng.randint(1, 2)):
                line += '\r\n' + rng.choice([' ', '\t', '  ']) + (rword(rng, VAL, 1, 12).strip() or 'x')
        elif r < 0.35:
            line += rng.choice([' ', '  ', '\t'])
        out.append(line)
    return out


def gen_body(rng):
    r = rng.random()
    if r < 0.15:
        return rng.choice([b'\r\n', b'\r\n\r\n', b'0\r\n\r\n', b'\r\n0\r\n\r\n', b'GET / HTTP/1.1\r\n\r\n', b'\n', b'\r'])
    n = rng.choice([1, 2, 3, 5, 8, 16, 31, 64])
    if r < 0.6:
        return rword(rng, VAL, n, n).encode()
    return bytes(rng.randrange(256) for _ in range(n))


def gen_chunked(rng):
    parts = [gen_body(rng) for _ in range(rng.randint(0, 4))]
    out = []
    for p in parts:
        size = '%x' % len(p)
        if rng.random() < 0.3:
            size = size.upper()
        if rng.random() < 0.2:
            size = '0' * rng.randint(1, 2) + size
        ext = rng.choice(['', '', '', ';a', ';a=b', ';a="q s"', ';x=1;y'])
        out.append(size.encode() + ext.encode() + b'\r\n' + p + b'\r\n')
    last = rng.choice(['0', '0', '00', '0;fin', '0;a=b'])
    trailers = ''
    if rng.random() < 0.3:
        trailers = ''.join('%s: %s\r\n' % (rng.choice(['X-T', 'X-Sum']), rword(rng, SEG, 1, 8)) for _ in range(rng.randint(1, 2)))
    out.append(last.encode() + b'\r\n' + trailers.encode() + b'\r\n')
    return b''.join(out)


def gen_request(rng, keepalive, allow_head=True):
    version = '1.1' if rng.random() < 0.75 else '1.0'
    r = rng.random()
    body_kind = 'none' if r < 0.4 else ('cl' if r < 0.7 else ('chunked' if version == '1.1' else 'cl'))
    if body_kind == 'none':
        method = rng.choice(['GET', 'GET', 'DELETE', 'OPTIONS', 'HEAD' if allow_head else 'GET', 'TRACE', 'M-SEARCH'])
    else:
        method = rng.choice(['POST', 'PUT', 'PATCH', 'POST', 'REPORT'])
    path = '/' + '/'.join(rword(rng, SEG, 1, 8).replace('..', 'x.').strip('.') or 'd' for _ in range(rng.randint(0, 3)))
    if rng.random() < 0.15 and path != '/':
        path += '/'
    if rng.random() < 0.1:
        path += '%20x'
    if rng.random() < 0.1 and version == '1.1':
        path = '/stream' + (path if path != '/' else '')      # answered through the streaming path (HTTP/1.0: delimited by close)
    elif rng.random() < 0.08:
        path = rng.choice(['/%7Eu', '/a//b', '/a/./b', '/a/../b', '/x;p=1', '/a%41']) + (path if path != '/' else '')     # not in the server's normal form
    target = path
    r = rng.random()
    if r < 0.45:
        target += '?' + '&'.join('%s=%s' % (rword(rng, SEG, 1, 5), rword(rng, SEG + '%', 0, 6).replace('%', '%41')) for _ in range(rng.randint(1, 3)))
    elif r < 0.5:
        target += '?'
    elif r < 0.55:
        target += '?' + rword(rng, SEG, 1, 6)
    hs = gen_headers(rng, rng.randint(0, 6))
    host = rng.choice(['Host: h', 'Host: example.org', 'host: h:8000', 'HOST: www.Example.org:81'])
    if version == '1.1' or rng.random() < 0.5:
        hs.insert(rng.randint(0, len(hs)), host)
    if version == '1.0' and keepalive:
        hs.insert(rng.randint(0, len(hs)), rng.choice(['Connection: keep-alive', 'Connection: Keep-Alive', 'connection: keep-alive']))
    elif version == '1.1' and not keepalive and rng.random() < 0.5:
        hs.insert(rng.randint(0, len(hs)), rng.choice(['Connection: close', 'connection: close']))
    body = b''
    if body_kind == 'cl':
        payload = gen_body(rng) if rng.random() < 0.9 else b''
        hs.insert(rng.randint(0, len(hs)), '%s: %d' % (rng.choice(['Content-Length', 'content-length', 'CONTENT-LENGTH']), len(payload)))
        body = payload
    elif body_kind == 'chunked':
        hs.insert(rng.randint(0, len(hs)), '%s: %s' % (rng.choice(['Transfer-Encoding', 'transfer-encoding']),
                                                       'chunked' if rng.random() < 0.93 else rng.choice(['Chunked', 'CHUNKED'])))
        body = gen_chunked(rng)
    head = '%s %s HTTP/%s\r\n' % (method, target, version) + ''.join(h + '\r\n' for h in hs) + '\r\n'
    return head.encode('latin-1') + body


STATUSES = [(200, 'OK'), (200, 'OK'), (201, 'Created'), (202, 'Accepted'), (301, 'Moved Permanently'), (400, 'Bad Request'),
            (404, 'Not Found'), (500, 'Internal Server Error'), (503, 'Service Unavailable')]


def gen_response(rng, keepalive):
    version = '1.1' if rng.random() < 0.8 else '1.0'
    r = rng.random()
    hs = gen_headers(rng, rng.randint(0, 5))
    hs = [h for h in hs if '\r\n' not in h and not h.lower().startswith('cookie')]   # a server must not fold
    body = b''
    if r < 0.08:
        code, reason = rng.choice([(204, 'No Content'), (304, 'Not Modified')])
        if keepalive or rng.random() < 0.6:   # without Content-Length the client never delivers it (and loses what follows)
            hs.insert(rng.randint(0, len(hs)), 'Content-Length: 0')
    elif r < 0.13 and not keepalive:
        code, reason = 200, 'OK'
        version = '1.0'
        body = gen_body(rng)   # read until close
    else:
        code, reason = rng.choice(STATUSES)
        if r < 0.6 or version == '1.0':
            payload = gen_body(rng) if rng.random() < 0.9 else b''
            hs.insert(rng.randint(0, len(hs)), '%s: %d' % (rng.choice(['Content-Length', 'content-length']), len(payload)))
            body = payload
        else:
            hs.insert(rng.randint(0, len(hs)), 'Transfer-Encoding: chunked')
            body = gen_chunked(rng)
    if version == '1.0' and keepalive:
        hs.insert(rng.randint(0, len(hs)), 'Connection: keep-alive')
    elif not keepalive and rng.random() < 0.4:
        hs.insert(rng.randint(0, len(hs)), 'Connection: close')
    head = 'HTTP/%s %d %s\r\n' % (version, code, reason) + ''.join(h + '\r\n' for h in hs) + '\r\n'
    return head.encode('latin-1') + body


def gen_unit(rng):
    side = 'server' if rng.random() < 0.6 else 'client'
    n = rng.choice([1, 1, 1, 2, 2, 3])
    gen = gen_request if side == 'server' else gen_response
    msgs = []
    for i in range(n):
        last = i == n - 1
        if side == 'server':
            msgs.append(gen(rng, keepalive=not last or rng.random() < 0.5, allow_head=last))
        else:
            msgs.append(gen(rng, keepalive=not last or rng.random() < 0.5))
    return side, msgs, {}


# ------------------------------------------------------------------------------------------------
def plan(tier, seed):
    n_units = len(corpus_units())
    if tier == 'quick':
        parts = 10
        specs = [{'kind': 'corpus', 'part': i, 'of': parts, 'tier': tier} for i in range(parts)]
        specs += [{'kind': 'random', 'seed': seed * 1000 + i, 'units': 4, 'k_random': 6, 'tier': tier} for i in range(10)]
        return specs
    parts = 16
    specs = [{'kind': 'corpus', 'part': i, 'of': parts, 'tier': tier} for i in range(parts)]
    specs += [{'kind': 'random', 'seed': seed * 100000 + i, 'units': 48, 'k_random': 30, 'tier': tier} for i in range(48)]
    assert n_units
    return specs


def run_batch(spec):
    import circuits  # noqa: F401  (the real package under test)
    b = Batch(PROPERTY)
    ctx = Ctx(b)
    tier = spec.get('tier', 'quick')
    if spec['kind'] == 'corpus':
        if spec['part'] == 0:
            n, problems = ref_http.selftest()
            b.reached('ref_parser_selftest_checks', n)
            for p in problems:
                b.inconclusive_because('reference parser self-test: ' + p)
        units = corpus_units()
        for i, (side, msgs, flags) in enumerate(units):
            if i % spec['of'] != spec['part']:
                continue
            for case in expand(side, msgs, flags, tier):
                evaluate(ctx, case)
            ctx.ref.clear()
    else:
        rng = random.Random(spec['seed'])
        for _ in range(spec['units']):
            side, msgs, flags = gen_unit(rng)
            for case in expand(side, msgs, flags, 'quick', rng, spec['k_random']):
                evaluate(ctx, case)
            ctx.ref.clear()
            ctx.st.clear()
    return b.result()


def run_replay(case):
    import circuits  # noqa: F401
    b = Batch(PROPERTY)
    evaluate(Ctx(b), unjson(case))
    return b.result()


ENGINE = 'event-injection'
TECHNIQUE = ('runtime monitoring, differential: request/response events captured by probe handlers and bytes written to a socket double, '
             'segmented vs. one-piece delivery of the same bytes through the real web.http.HTTP / web.client.Client components; '
             'one-piece observation cross-checked against an independent reference HTTP parser')
LEVEL_TEXT = ('Every delivery executes the real parser and protocol components; for each message sequence the segmented observation '
              '(request/response event fields, bytes written, closes) is compared with the one-piece observation, over every single cut, '
              'every adjacent pair, byte-at-a-time and random multi-cuts of a fixed corpus and of grammar-generated messages and keep-alive '
              'sequences, server and client side. Held means no difference on the segmentations run (all single cuts of the messages run, '
              'bounded multi-cuts); it is not a proof over all messages.')
LEVEL_NOTE = ('Trusted: the injection harness stands in for the socket layer (one read event per segment, settle in between, stop after close); '
              'the reference parser (self-tested against http.client in every run) for what a well-formed message says. Pipelining, TLS and '
              'real-socket timing are outside what is asserted.')

"""C03 - fire() from other threads: nothing lost or duplicated, the loop always wakes.

Real threads (loop, firers, stopper) serialised by the cooperative scheduler of vlib/sched.py:
sys.monitoring LINE events under circuits/core/ are the pre-emption points, RLock / Event / select
are scheduler-aware doubles bound by the repository at import.  The lost-wake-up predicate is
evaluated logically (no clock): the loop thread blocked in its idle wait while an event whose
fire() already returned is still undispatched (DESIGN.md 2.2 and section 4, C03).
"""
import os
import random

from vlib.batch import Batch, unjson

PROPERTY = 'C03'
LEVEL = 'exploration'
RULE = ('scenario grid {fallback generator, Select, Poll, EPoll} x {1,2 firing threads} x {1-3 events each} x {Timer present} x {generator '
        'task present}; schedules: every placement of one pre-emption of the loop thread (stride 1 inside the idle-approach window, '
        'coarser outside) x bursts of the firing thread {1,2,3,5,8,13,21,34,all}, two pre-emptions with both switch points in the window '
        '(thorough), and seeded random switching; non-trivial = a context switch happened inside the idle-approach window; distinct = '
        'hash of the sequence of (thread, file:line) at context switches')
ASSUMPTIONS = [
    'pre-emption at source-line granularity of circuits/core (sub-line bytecode races are invisible)',
    'RLock, Event and select/poll/epoll doubles are what the repository bound at import (asserted per worker, else inconclusive)',
    'a finite idle wait with nothing pending is ordinary idling and is released by the scheduler (virtual passage of time)',
    'systematic exploration is bounded to two pre-emptions; beyond that schedules are random',
]
REQUIRED = ['descriptors_came_and_went_before_the_loop_started', 'schedules_run', 'preemptions_inside_window', 'loop_blocked_in_idle_wait', 'foreign_fire_woke_loop', 'rlock_double_instances',
            'event_double_instances', 'mechanism_fallback', 'mechanism_Select', 'mechanism_EPoll', 'timer_present', 'generator_task_present',
            'two_firers', 'second_manager_idling', 'poller_cleaned_up_a_descriptor_closed_behind_its_back', 'event_fired_on_a_component_that_joins_leaves_and_joins_again']
REQUIRED_OBLIGATIONS = ['NO_LOST_WAKEUP', 'EXACTLY_ONCE', 'THREAD_FIFO', 'LOOP_ENDS_AFTER_STOP']
WORKER_TIMEOUT = {'quick': 600, 'thorough': 2400}
ENGINE = 'controlled-scheduler'
TECHNIQUE = 'runtime monitoring under a controlled thread scheduler (sys.monitoring LINE pre-emption points, lock/event/select doubles): systematic 1-2 pre-emption schedules + random schedules'
LEVEL_TEXT = ('The real loop, firing threads and a stopper run as real threads but one at a time under a scheduler that may switch at every source '
              'line of circuits/core; all one-pre-emption schedules around the idle approach (and two-pre-emption ones in the thorough tier) plus '
              'random schedules are executed for the fallback idle wait and each poller; a logical predicate (loop blocked in its wait while an '
              'event whose fire() returned is undispatched) decides lost wake-ups without any clock, and the dispatch log decides exactly-once and '
              'per-thread FIFO. Held = no schedule explored violated a clause.')
LEVEL_NOTE = ('Trusted: the scheduler and doubles (vlib/sched.py); interleavings finer than a source line and more than two systematic '
              'pre-emptions are not explored; the real-thread stress complement only decides exactly-once/FIFO.')

BURSTS = [1, 2, 3, 5, 8, 13, 21, 34, 10 ** 6]
INF = 10 ** 6


def build(scn, S):
    """Build the app for one scenario.  Returns (app, state)."""
    from circuits import BaseComponent, Event, Timer, handler
    from circuits.core import pollers
    st = {'dispatched': [], 'fired': {}, 'done': False, 'stop_dispatched': False}

    class App(BaseComponent):
        @handler('ext')
        def _on_ext(self, tid, seq):
            st['dispatched'].append((tid, seq))

        @handler('stopped')
        def _on_stopped(self, *a):
            st['stop_dispatched'] = True

        @handler('spin')
        def _on_spin(self, *a):
            # scenario option 'busy' (C08's scheduler batch): a loop that never goes to sleep - this handler keeps an event pending until
            # the stopper is about to call stop() - so the loop thread is runnable at whatever point the stopper is pre-empted
            if scn.get('busy') and not st['done'] and st.get('spins', 0) < 4000:
                st['spins'] = st.get('spins', 0) + 1
                self.fire(Event.create('spin'))

        @handler('unregistered')
        def _on_unregistered(self, comp, parent):
            st.setdefault('unregistered', set()).add(id(comp))

    if scn.get('task'):
        class Tasker(BaseComponent):
            @handler('started')
            def _on_started(self, *a):
                while not st['done']:
                    yield None
        app = App()
        Tasker().register(app)
    else:
        app = App()
    mech = scn['mech']
    if mech != 'fallback':
        getattr(pollers, mech)().register(app)
    if scn.get('stale_fd') and mech != 'fallback':
        # descriptors of the application next to the poller's own wake-up pipe: one that stays open and silent, and one that its owner
        # closed without telling the poller (the poller has to clean that up by itself - and must keep hearing the wake-up pipe afterwards)
        import socket as _socket
        holder = BaseComponent(channel='holder').register(app)
        a, b_ = _socket.socketpair()
        c, d = _socket.socketpair()
        st['socks'] = [a, b_, c, d]
        poller = [x for x in app.components if isinstance(x, pollers.BasePoller)][0]
        poller.addReader(holder, a)
        poller.addReader(holder, c)
        c.close()
    if scn.get('gone_fd') and mech != 'fallback':
        # descriptors of the application that came and WENT before the loop starts, leaving the poller's wake-up pipe alone again: closed by their
        # owner and then taken off / discarded (for good measure, twice), discarded while open, closed and discarded without having been
        # taken off.  (Taking ONE role off a closed descriptor that still has the other makes Poll and EPoll raise ValueError on this tree - an
        # observation outside this property, see DESIGN 8.19 - so those sequences are not part of the set-up.)  Every one of these calls is legal; the wake-up pipe must still be heard afterwards
        import socket as _socket
        holder = BaseComponent(channel='holder').register(app)
        poller = [x for x in app.components if isinstance(x, pollers.BasePoller)][0]
        st['socks'] = []
        for how in scn['gone_fd']:
            a, b_ = _socket.socketpair()
            st['socks'] += [a, b_]
            if how == 'w-close-remove-discard':
                poller.addWriter(holder, a)
                a.close()
                poller.removeWriter(a)
                poller.discard(a)
            elif how == 'rw-close-discard-discard':
                poller.addReader(holder, a)
                poller.addWriter(holder, a)
                a.close()
                poller.discard(a)
                poller.discard(a)
            elif how == 'r-close-remove-discard':
                poller.addReader(holder, a)
                a.close()
                poller.removeReader(a)
                poller.discard(a)
            elif how == 'r-discard-open':
                poller.addReader(holder, a)
                poller.discard(a)
                poller.discard(a)
            elif how == 'r-close-discard':
                poller.addReader(holder, a)
                a.close()
                poller.discard(a)
            else:
                raise ValueError(how)
    if scn.get('busy'):
        app.fire(Event.create('spin'))
    if scn.get('timer'):
        Timer(1000.0, Event.create('tmr'), persist=True).register(app)
    if scn.get('second_manager'):
        # a second, independent manager idling in the same process: its idle machinery must not interfere with the first one's
        st['app2'] = BaseComponent()
    return app, st


def predicate(S, st, who, where):
    """Lost wake-up: the loop thread is blocked in its idle wait (flag unset / nothing readable) while an event whose
    fire() already returned is undispatched."""
    L = S.threads['L']
    if L.state != 'blocked' or L.block[0] not in ('event', 'poll'):
        return
    if L.block[0] == 'poll' and L.block[1]():
        return  # the control pipe is readable: it will wake
    pending = [k for k, v in st['fired'].items() if v == 'returned' and k not in st['seen']]
    if pending and st.get('bounded_wait_is_fine') and L.block[2] is not None:
        return      # a Timer is pending, not an event: the loop may sleep, but not without limit
    if pending:
        S.violate('LOST_WAKEUP', {'loop_blocked_in': L.block[0], 'wait_timeout': L.block[2], 'undispatched_events_whose_fire_returned': pending[:5],
                                  'detected_at': where, 'by': who})


def run_schedule(scn, plan=(), seed=None, switch_prob=0.0, record=False):
    from circuits import Event
    from vlib import sched
    S = sched.new_sched()
    app, st = build(scn, S)
    st['seen'] = set()
    st['bounded_wait_is_fine'] = scn.get('via') == 'timer'
    nf, k = scn['firers'], scn['events']

    def loop():
        app.run()
        st['stop_dispatched_when_run_returned'] = st['stop_dispatched']

    def firer(i):
        def f():
            try:
                g()
            finally:
                st.setdefault('firers_finished', set()).add(i)

        def g():
            for seq in range(k):
                st['fired'][(i, seq)] = 'called'
                if scn.get('via') == 'detached':
                    # the event is fired on a component that is not part of the running tree yet; the component then joins (its queue is
                    # handed over), leaves again once the event has been dispatched, and joins a second time
                    from circuits import BaseComponent
                    c = BaseComponent()
                    c.fire(Event.create('ext', i, seq))
                    c.register(app)
                    st['fired'][(i, seq)] = 'returned'
                    st['seen'] = set(st['dispatched'])
                    predicate(S, st, 'F%d' % i, 'register-return')
                    S.block(('cond', lambda: (i, seq) in st['dispatched']), 'firer-waits-for-dispatch')
                    c.unregister()
                    # (the announcement is the only sign another thread has that the loop thread is through with the unregistration)
                    S.block(('cond', lambda: id(c) in st.get('unregistered', ())), 'firer-waits-for-unregistration')
                    c.register(app)
                    S.block(('cond', lambda: not len(app) and not len(c)), 'firer-waits-for-queue')
                    continue
                if scn.get('via') == 'timer':
                    # the event is not fired: a Timer that will fire it is created and registered from this thread (C09)
                    from circuits import Timer
                    Timer(scn.get('interval', 0.01), Event.create('ext', i, seq)).register(app)
                else:
                    app.fire(Event.create('ext', i, seq))
                st['fired'][(i, seq)] = 'returned'
                st['seen'] = set(st['dispatched'])
                predicate(S, st, 'F%d' % i, 'fire-return')
        return f

    def all_done():
        st['seen'] = set(st['dispatched'])
        return all(v == 'returned' for v in st['fired'].values()) and len(st['fired']) == nf * k and \
            all(key in st['seen'] for key in st['fired']) and (scn.get('via') != 'detached' or len(st.get('firers_finished', ())) == nf)

    def stopper():
        if scn.get('stop_any_time'):
            # (used by C08's scheduler batch) stop() comes whenever the schedule says so, once the manager is running and the firers have
            # returned - whatever they fired is still pending or being dispatched
            S.block(('cond', lambda: bool(app.running) and len(st['fired']) == nf * k and all(v == 'returned' for v in st['fired'].values())), 'stopper-wait')
        else:
            S.block(('cond', all_done), 'stopper-wait')
        st['done'] = True
        if 'app2' in st:
            st['app2'].stop()
        st['fired']['stop'] = 'called'
        app.stop()
        st['fired']['stop'] = 'returned'
        st['seen'] = set(st['dispatched']) | ({'stop'} if st['stop_dispatched'] else set())
        predicate(S, st, 'S', 'stop-return')

    def on_block(S_, t):
        if t.name == 'L':
            st['seen'] = set(st['dispatched']) | ({'stop'} if st['stop_dispatched'] else set())
            if t.block[0] in ('event', 'poll'):
                st['loop_blocked'] = st.get('loop_blocked', 0) + 1
            predicate(S_, st, 'L', 'loop-blocks')

    S.on_block = on_block
    S.spawn('L', loop)
    if 'app2' in st:
        S.spawn('L2', lambda: st['app2'].run())
    for i in range(nf):
        S.spawn('F%d' % i, firer(i))
    S.spawn('S', stopper)
    if record:
        S.record_points = {'L': [], 'F0': []}
    if seed is not None:
        S.random = random.Random(seed)
        S.switch_prob = switch_prob
    finished = S.run('L', plan=plan, timeout=120)
    for sk in st.get('socks', ()):
        try:
            sk.close()
        except OSError:
            pass
    if finished and not S.deadlock:
        # the wake-up pipes of this schedule's pollers (plain descriptor numbers, nobody closes them): thousands of schedules run in one process
        import os as _os
        from circuits.core.pollers import BasePoller as _BP
        for m in (app, st.get('app2')):
            for c in ([m] + list(getattr(m, 'components', ()))) if m is not None else ():
                if isinstance(c, _BP):
                    for fd in (getattr(c, '_ctrl_recv', None), getattr(c, '_ctrl_send', None)):
                        try:
                            if isinstance(fd, int):
                                _os.close(fd)
                            elif fd is not None:
                                fd.close()
                        except OSError:
                            pass
    res = {'finished': finished, 'violation': S.violation, 'deadlock': S.deadlock, 'dispatched': list(st['dispatched']),
           'switches': list(S.switches), 'points': S.n_points, 'loop_blocked': st.get('loop_blocked', 0),
           'virtual_timeouts': S.virtual_timeouts, 'errors': {t.name: t.error for t in S.threads.values() if t.error},
           'record': S.record_points, 'stop_dispatched': st['stop_dispatched'], 'stop_dispatched_when_run_returned': st.get('stop_dispatched_when_run_returned'), 'nf': nf, 'k': k, 'fired': {str(a): v for a, v in st['fired'].items()}}
    return res


def judge(scn, res):
    """Returns list of (clause, detail)."""
    problems = []
    if res['violation']:
        problems.append(('NO_LOST_WAKEUP', res['violation']))
        return problems
    if res['deadlock']:
        problems.append(('LOOP_ENDS_AFTER_STOP' if 'returned' == dict(res.get('fired', {})).get('stop') else 'NO_LOST_WAKEUP',
                         dict(res['deadlock'], note='no thread can run any more', dispatched=res['dispatched'])))
        return problems
    if not res['finished']:
        return None
    if res['errors']:
        problems.append(('THREAD_RAISED', res['errors']))
    d = res['dispatched']
    want = [(i, s) for i in range(res['nf']) for s in range(res['k'])]
    if sorted(d) != sorted(want):
        problems.append(('EXACTLY_ONCE', {'dispatched': d, 'expected_set': want}))
    else:
        for i in range(res['nf']):
            seqs = [s for t, s in d if t == i]
            if seqs != sorted(seqs):
                problems.append(('THREAD_FIFO', {'thread': i, 'dispatch_order': seqs}))
    # (run() returning without having dispatched `stopped` after a stop() from another thread is C08's subject - see
    # known finding runstop.foreign-stop-races-loop-exit - and only counted here)
    return problems


def window_of(points):
    """(start, end) indices of the idle-approach window in the loop thread's recorded points: from the entry into the
    dispatcher for the last event dispatched before the loop first blocks (its generate_events) up to the block."""
    n = len(points)
    start = 0
    for i in range(n - 1, 0, -1):
        # entry into the dispatcher for the last event dispatched before the block (the generate_events event)
        if points[i][2] == '_dispatcher' and points[i - 1][2] == 'dispatchEvents':
            start = i
            break
    first_tick = next((i for i, p in enumerate(points) if p[2] == 'tick'), 0)
    return start, n, first_tick


def scenarios(tier):
    if tier == 'quick':
        return [{'mech': 'fallback', 'firers': 1, 'events': 1}, {'mech': 'fallback', 'firers': 1, 'events': 2, 'timer': True},
                {'mech': 'fallback', 'firers': 1, 'events': 1, 'task': True}, {'mech': 'fallback', 'firers': 2, 'events': 2},
                {'mech': 'Select', 'firers': 1, 'events': 1}, {'mech': 'EPoll', 'firers': 1, 'events': 2, 'timer': True},
                {'mech': 'fallback', 'firers': 1, 'events': 1, 'second_manager': True},
                {'mech': 'Select', 'firers': 1, 'events': 2, 'stale_fd': True}, {'mech': 'Poll', 'firers': 1, 'events': 1, 'stale_fd': True},
                {'mech': 'Poll', 'firers': 1, 'events': 1, 'gone_fd': ['w-close-remove-discard']},
                {'mech': 'EPoll', 'firers': 1, 'events': 1, 'gone_fd': ['r-discard-open', 'rw-close-discard-discard', 'r-close-remove-discard']},
                {'mech': 'fallback', 'firers': 1, 'events': 2, 'via': 'detached'}]
    out = []
    for mech in ['fallback', 'Select', 'Poll', 'EPoll']:
        out.append({'mech': mech, 'firers': 1, 'events': 1})
        out.append({'mech': mech, 'firers': 1, 'events': 2, 'timer': True})
        out.append({'mech': mech, 'firers': 1, 'events': 1, 'task': True})
        out.append({'mech': mech, 'firers': 2, 'events': 2})
        out.append({'mech': mech, 'firers': 2, 'events': 3, 'timer': True, 'task': True})
        out.append({'mech': mech, 'firers': 1, 'events': 2, 'second_manager': True})
        out.append({'mech': mech, 'firers': 2, 'events': 2, 'via': 'detached'})
        if mech != 'fallback':
            out.append({'mech': mech, 'firers': 1, 'events': 2, 'stale_fd': True})
            out.append({'mech': mech, 'firers': 2, 'events': 2, 'stale_fd': True, 'task': True})
            for gone in (['w-close-remove-discard'], ['rw-close-discard-discard', 'r-discard-open'],
                         ['r-discard-open', 'w-close-remove-discard', 'r-close-discard', 'rw-close-discard-discard', 'r-close-remove-discard']):
                out.append({'mech': mech, 'firers': 1, 'events': 1, 'gone_fd': gone})
    return out


def plan(tier, seed):
    specs = []
    for scn in scenarios(tier):
        nparts = 3 if tier == 'quick' else 8
        heavy = scn.get('via') == 'detached'      # (its schedules are about ten times as long: join, leave and join again)
        for part in range(nparts):
            specs.append({'kind': 'one', 'scn': scn, 'part': part, 'parts': nparts, 'stride_out': 5 if tier == 'quick' or heavy else 1})
        light = bool(scn.get('gone_fd'))          # (the set-up differs, the schedule space does not: every single preemption point, few random ones)
        if tier != 'quick' and not heavy and not light:
            for part in range(8):
                specs.append({'kind': 'two', 'scn': scn, 'part': part, 'parts': 8})
        nrand = 2 if tier == 'quick' or light else 8
        for r in range(nrand):
            specs.append({'kind': 'random', 'scn': scn, 'seed': seed * 10007 + r, 'n': (40 if tier == 'quick' else 300) // (5 if heavy else 1)})
    if tier != 'quick':
        for r in range(6):
            specs.append({'kind': 'stress', 'seed': seed * 31 + r, 'mechs': ['fallback', 'Select', 'Poll', 'EPoll'], 'firers': 4 + r % 5, 'events': 500,
                          'p': [0.002, 0.01, 0.05][r % 3]})
    else:
        specs.append({'kind': 'stress', 'seed': seed, 'mechs': ['fallback', 'EPoll'], 'firers': 4, 'events': 150, 'p': 0.01})
    return specs


def signature(res):
    return [list(s[:3]) for s in res['switches']]


def explore(b, scn, plans_iter, S, in_window):
    nviol = 0
    for meta, pl, kw in plans_iter:
        if nviol >= 2:
            break
        res = run_schedule(scn, plan=pl, **kw)
        case = {'scn': scn, 'plan': [list(p) for p in pl], 'kw': kw}
        problems = judge(scn, res)
        if problems is None:
            b.inconclusive_because('schedule did not finish within the watchdog: %r' % (case,))
            nviol += 1
            continue
        inside = in_window(res)
        b.case(case, nontrivial=inside, distinct_key=signature(res))
        b.reached('schedules_run')
        b.reached('yield_points', res['points'])
        if inside:
            b.reached('preemptions_inside_window')
        if res['loop_blocked']:
            b.reached('loop_blocked_in_idle_wait')
        if res['loop_blocked'] and len(res['dispatched']) > 0:
            b.reached('foreign_fire_woke_loop')
        b.reached('mechanism_' + scn['mech'])
        if scn.get('timer'):
            b.reached('timer_present')
        if scn.get('task'):
            b.reached('generator_task_present')
        if scn['firers'] >= 2:
            b.reached('two_firers')
        if scn.get('second_manager'):
            b.reached('second_manager_idling')
        if scn.get('via') == 'detached':
            b.reached('event_fired_on_a_component_that_joins_leaves_and_joins_again')
        if scn.get('gone_fd') and res['loop_blocked']:
            b.reached('descriptors_came_and_went_before_the_loop_started')
        if scn.get('stale_fd') and res['loop_blocked']:
            b.reached('poller_cleaned_up_a_descriptor_closed_behind_its_back')
        b.reached('virtual_timeouts', res['virtual_timeouts'])
        if not res['stop_dispatched_when_run_returned']:
            b.reached('observed_run_returned_before_stopped_dispatched_after_foreign_stop')
        bad = {c for c, _ in problems}
        for clause in REQUIRED_OBLIGATIONS:
            if clause not in bad:
                b.ok(clause)
        for clause, detail in problems:
            nviol += 1
            b.fail(case, clause, detail, dedup=str(detail.get('kind', '')) if isinstance(detail, dict) else '')


def run_stress(spec):
    """Complement with real OS threads (no scheduler): several firing threads against a manager running in its own
    thread, with sleep(0) injected at random source lines of circuits/core.  Decides exactly-once and per-thread FIFO
    only; its watchdog makes the batch inconclusive, never a violation."""
    import sys
    import threading
    import time

    import circuits
    from circuits import BaseComponent, Event, handler
    from circuits.core import pollers
    core_dir = os.path.join(os.path.dirname(circuits.__file__), 'core') + os.sep
    rng = random.Random(spec['seed'])
    mon = sys.monitoring
    mon.use_tool_id(4, 'verif-stress')
    inj = {'n': 0}

    def on_line(code, line):
        if not code.co_filename.startswith(core_dir):
            return mon.DISABLE
        if rng.random() < spec.get('p', 0.01):
            inj['n'] += 1
            time.sleep(0)
        return None
    mon.register_callback(4, mon.events.LINE, on_line)
    mon.set_events(4, mon.events.LINE)
    b = Batch(PROPERTY)
    for mech in spec['mechs']:
        got = []

        class App(BaseComponent):
            @handler('ext')
            def _on_ext(self, tid, seq):
                got.append((tid, seq))
        app = App()
        if mech != 'fallback':
            getattr(pollers, mech)().register(app)
        loop_thread, _ = app.start()
        nf, k = spec['firers'], spec['events']

        def firer(i):
            for seq in range(k):
                app.fire(Event.create('ext', i, seq))
        ths = [threading.Thread(target=firer, args=(i,), daemon=True) for i in range(nf)]
        for t in ths:
            t.start()
        deadline = time.time() + 120
        while len(got) < nf * k and time.time() < deadline:
            time.sleep(0.01)
        for t in ths:
            t.join(5)
        time.sleep(0.05)
        app.stop()
        loop_thread.join(30)   # (Manager.join() itself races with the end of run(): it may find its thread attribute already None)
        case = {'stress': mech, 'firers': nf, 'events': k, 'seed': spec['seed']}
        if len(got) < nf * k and time.time() >= deadline:
            b.inconclusive_because('stress run on %s: %d of %d events dispatched within the 120 s watchdog' % (mech, len(got), nf * k))
            continue
        b.case(case, nontrivial=True)
        b.reached('stress_events_dispatched', len(got))
        b.reached('stress_yields_injected', inj['n'])
        want = sorted((i, s_) for i in range(nf) for s_ in range(k))
        if sorted(got) != want:
            dup = len(got) - len(set(got))
            b.fail(case, 'EXACTLY_ONCE', {'dispatched': len(got), 'expected': len(want), 'duplicates': dup, 'missing': len(set(want) - set(got))}, dedup='stress')
        else:
            b.ok('EXACTLY_ONCE')
            bad = [i for i in range(nf) if [s_ for t_, s_ in got if t_ == i] != list(range(k))]
            if bad:
                b.fail(case, 'THREAD_FIFO', {'threads_out_of_order': bad}, dedup='stress')
            else:
                b.ok('THREAD_FIFO')
    mon.set_events(4, 0)
    return b.result()


def run_batch(spec):
    if spec.get('kind') == 'stress':
        return run_stress(spec)
    from vlib import sched
    S = sched.install_and_import()
    import circuits
    core_dir = os.path.join(os.path.dirname(circuits.__file__), 'core') + os.sep
    sched.start_monitoring(core_dir)
    b = Batch(PROPERTY)
    if '_one' in spec:
        return b.result()
    scn = spec['scn']
    # baseline: no pre-emption; records the loop thread's yield points up to its first idle block
    base = run_schedule(scn, record=True)
    pb = judge(scn, base)
    if pb is None or base['record'] is None:
        b.inconclusive_because('baseline schedule did not finish')
        return b.result()
    for clause, detail in pb:
        b.fail({'scn': scn, 'plan': []}, clause, detail, dedup='baseline')
    lpoints = base['record']['L']
    # points the loop thread passed before it first blocked in its idle wait = its count at the first switch away from it
    nL = next((sw[3] for sw in base['switches'] if sw[0] == 'L'), None)
    if nL is None:
        b.inconclusive_because('loop thread never blocked in the baseline schedule')
        return b.result()
    ws, we, first_tick = window_of(lpoints[:nL])
    fpoints = len(base['record']['F0'])
    b.extra['baseline'] = {'scenario': scn, 'loop_points_to_first_block': nL, 'window': [ws, we], 'firer_points_total': fpoints}

    def in_window(res):
        # some switch away from the loop thread happened at a yield point inside the idle-approach window
        return any(sw[0] == 'L' and ws <= sw[3] <= we and ':' in sw[2] for sw in res['switches'])

    if spec['kind'] == 'one':
        fine = max(ws, we - 80)       # lock region of the dispatcher .. entry of the idle wait: always stride 1, every burst
        cands = [(p, BURSTS) for p in range(fine, we + 1)]
        cands += [(p, BURSTS if spec['stride_out'] == 1 else [1, 3, 8, 21, INF]) for p in range(ws, fine, 1 if spec['stride_out'] == 1 else 4)]
        cands += [(p, BURSTS if spec['stride_out'] == 1 else [1, 5, INF]) for p in range(max(first_tick, 1), ws, 1 if spec['stride_out'] == 1 else 10)]
        cands = [c for i, c in enumerate(sorted(cands)) if i % spec['parts'] == spec['part']]
        if scn.get('via') == 'detached':
            cands = [(p, [1, 8, INF]) for p, _b in cands[::4]]

        def plans():
            for p, bursts in cands:
                for bu in bursts:
                    pl = [('L', p), ('F0', bu)]
                    if scn['firers'] > 1:
                        pl.append(('F1', bu))
                    if scn.get('second_manager'):
                        pl.append(('L2', INF))   # the other manager goes through its own idle approach in between
                    pl.append(('L', INF))
                    yield None, pl, {}
        explore(b, scn, plans(), S, in_window)
    elif spec['kind'] == 'two':
        pairs = []
        for p1 in range(ws, we + 1):
            for gap in (1, 2, 3, 5, 8, 13, 21):
                pairs.append((p1, gap))
        pairs = [x for i, x in enumerate(pairs) if i % spec['parts'] == spec['part']]

        def plans2():
            for p1, gap in pairs:
                for b1 in (1, 3, 8, 21):
                    second = 'F1' if scn['firers'] > 1 else 'F0'
                    yield None, [('L', p1), ('F0', b1), ('L', gap), (second, INF), ('L', INF)], {}
        explore(b, scn, plans2(), S, in_window)
    else:
        rng = random.Random(spec['seed'])

        def plansr():
            for _ in range(spec['n']):
                # let the loop run close to its idle approach, then switch randomly
                p = rng.randint(max(first_tick, 1), we)
                yield None, [('L', p)], {'seed': rng.randrange(1 << 30), 'switch_prob': rng.choice([0.02, 0.05, 0.1, 0.3])}
        explore(b, scn, plansr(), S, in_window)
    b.reached('rlock_double_instances', sched.SCHED.double_instances['rlock'])
    b.reached('event_double_instances', sched.SCHED.double_instances['event'])
    return b.result()


def run_replay(case):
    from vlib import sched
    S = sched.install_and_import()
    import circuits
    sched.start_monitoring(os.path.join(os.path.dirname(circuits.__file__), 'core') + os.sep)
    case = unjson(case)
    b = Batch(PROPERTY)
    pl = [tuple(p) for p in case.get('plan', [])]
    explore(b, case['scn'], [(None, pl, case.get('kw', {}))], S, lambda res: True)
    return b.result()

"""C08 - run()/stop(): started once, everything queued is drained, stopped once.

Oracle: the dispatch log of a real run() executed in the checking thread (stop from a handler, a
generator step, SystemExit/KeyboardInterrupt raised in a handler, or a second thread), what run()
returned/raised, and what was left undispatched when it returned (DESIGN.md section 4, C08).
"""
import random
import threading

from vlib.batch import Batch, BudgetExceeded, cpu_budget, unjson

PROPERTY = 'C08'
LEVEL = 'exploration'
RULE = ('fixed corpus (stop in `started`, mid-chain, in a generator step, via SystemExit / KeyboardInterrupt, from a second thread, with '
        'exit codes None/0/3/"msg", events fired after stop() in the same handler and by `stopped` handlers, events queued before run(), '
        'stop() on a non-running manager - idle between runs, and a registered child component stopped from a handler while its root runs -, 1-3 run/stop cycles) + seeded random programs of the same ingredients; non-trivial = >= 3 events '
        'still undispatched (queued or yet to be fired as a consequence) when stop() is called; distinct = hash of the program')
ASSUMPTIONS = [
    'no generator task has more than two steps left when stop() happens (the loop\'s fade-out is bounded; longer coroutines are not "queued events")',
    'an exit code reaches the caller of run() as SystemExit(code); code None means run() returns normally',
    'stop() from a second thread is given no exit code (SystemExit would be raised in that thread, not in run()\'s caller)',
    'a harness generate_events handler keeps the idle wait from blocking and ends a run that ignores stop() after 400 further iterations',
]
REQUIRED = ['sched_stop_at_any_point_with_events_still_pending', 'systemexit_with_a_code_after_the_manager_had_been_stopped', 'sched_stop_runs_to_completion_at_a_loop_preemption_point', 'sched_stopper_preempted_while_loop_sleeps', 'stop_in_started', 'stop_mid_chain', 'stop_in_generator_step', 'stop_via_systemexit', 'stop_via_keyboardinterrupt',
            'stop_from_second_thread', 'exit_code_given', 'events_fired_after_stop', 'stopped_handler_fires', 'queued_before_run',
            'second_cycle', 'stop_when_not_running', 'stop_of_registered_child_while_root_runs', 'systemexit_while_not_running',
            'several_exits_in_one_run', 'codeless_exit_next_to_a_coded_one', 'loop_iteration_with_events_still_queued', 'handler_failed_before_the_stop',
            'loop_iteration_with_a_later_priority_event_behind_generate_events']
REQUIRED_OBLIGATIONS = ['STARTED_ONCE', 'STOPPED_ONCE', 'DRAINED', 'EXIT_CODE', 'RUN_ENDS', 'STOP_NOT_RUNNING_NOOP', 'KEEPS_PROCESSING']
WORKER_TIMEOUT = {'quick': 300, 'thorough': 1500}
ENGINE = 'stepping-driver'
TECHNIQUE = 'runtime monitoring: dispatch log and return value of real run() calls in the checking thread, compared with the ghost set of fired events'
LEVEL_TEXT = ('Generated programs place stop() (or SystemExit/KeyboardInterrupt, or a stop from a second thread) at every kind of point of a chain '
              'of handlers; for every run() the log must show one `started`, one `stopped`, every fired event dispatched exactly once before '
              'run() returned, the given exit code at the caller, and no effect of stop() on a manager that is not running; repeated for up to '
              'three run/stop cycles of the same manager. Held = no clause failed on the programs run.')
LEVEL_NOTE = ('Trusted: ghost log, the harness idle handler; the second-thread stop uses a real thread released from inside a handler (the verdict '
              'is on the final log, never on timing; a thread that does not finish makes the case inconclusive).')

CODES = [None, 0, 3, 'msg']


def run_case(case):
    from circuits import BaseComponent, handler
    from vlib.prog import World
    w = World({'handlers': case['handlers'], 'mk': case.get('mk')})
    problems = []
    counts = dict.fromkeys(REQUIRED_OBLIGATIONS, 0)
    marks = set()
    st = {'iters': 0, 'after_stop': 0, 'forced': False}
    release = threading.Event()
    stopped_done = threading.Event()
    thread_err = []

    class Idle(BaseComponent):
        @handler('generate_events', priority=-50)
        def _on_ge(self, event):
            # "keeps processing": the loop has just decided how long its event sources may wait.  Everything here happens in the loop
            # thread; an event that was fired and is neither dispatched nor cancelled sits in the queue (or in the batch being flushed
            # behind this very event), and nobody else will wake the loop for it - an unlimited wait would leave it there for ever
            pending = [u for u, inf in w.events.items() if not inf.get('system') and not inf['cancelled'] and inf['dispatched'] == 0]
            if pending:
                counts['KEEPS_PROCESSING'] += 1
                marks.add('loop_iteration_with_events_still_queued')
                if any(w.events[u].get('prio', 0) > 0 for u in pending):
                    marks.add('loop_iteration_with_a_later_priority_event_behind_generate_events')
                tl = event.time_left
                if (tl is None or tl < 0) and not any(p[0] == 'KEEPS_PROCESSING' for p in problems):
                    problems.append(('KEEPS_PROCESSING', {'note': 'the loop allowed its event sources to wait without limit while events fired by '
                                                          'handlers were still queued', 'time_left': tl, 'loop_iteration': st['iters'],
                                                          'queued': [[u, w.events[u]['name'], w.events[u].get('prio', 0)] for u in pending][:6]}))
            event.reduce_time_left(0)
            st['iters'] += 1
            w.tick_no += 1
            if any(e[0] in ('STOPCALL', 'SYSEXIT', 'KBINT', 'THREADSTOP') for e in w.log[st['mark']:]):
                st['after_stop'] += 1
            if (st['after_stop'] > 400 or st['iters'] > 3000) and not st['forced']:
                st['forced'] = True
                w.app.stop()

        @handler('release_stopper')
        def _on_release(self, *args):
            # The loop thread waits here (inside a handler) until the second thread has *returned* from stop():
            # stop() clears the running flag before it queues `stopped`, and a loop that runs its last ticks between
            # those two statements returns without dispatching `stopped` (seen once under load, see DESIGN.md C08);
            # that window is a matter for a controlled scheduler, this check keeps the cross-thread stop deterministic.
            release.set()
            if not stopped_done.wait(30):
                thread_err.append('stopper thread did not return from stop() within 30 s')

    Idle().register(w.app)
    while len(w.app):
        w.app.flush()

    def stop_noop_probe(tag):
        # stop() on a manager that is not running has no effect
        before = (len(w.app), len(w.log), w.app.running)
        err = None
        for code in (None, 3):
            try:
                w.app.stop(code) if code is not None else w.app.stop()
            except BaseException as e:
                err = repr(e)
        w.app.flush() if len(w.app) else None
        after = (len(w.app), len(w.log), w.app.running)
        counts['STOP_NOT_RUNNING_NOOP'] += 1
        marks.add('stop_when_not_running')
        if err or before != after:
            problems.append(('STOP_NOT_RUNNING_NOOP', {'when': tag, 'raised': err, 'queue_log_running_before': before, 'after': after}))

    stop_noop_probe('before first run')
    info_nontrivial = False
    for cyc, cycle in enumerate(case['cycles']):
        if problems:
            break
        if cyc >= 1:
            marks.add('second_cycle')
        st.update({'iters': 0, 'after_stop': 0, 'forced': False, 'mark': len(w.log)})
        release.clear()
        stopped_done.clear()
        for spec in cycle.get('pre_fires', []):
            w.fire(spec)
            marks.add('queued_before_run')
        th = None
        if cycle.get('thread_stop'):
            def stopper():
                if not release.wait(20):
                    thread_err.append('never released')
                    return
                w.L('THREADSTOP')
                try:
                    w.app.stop()
                except BaseException as e:
                    thread_err.append(repr(e))
                stopped_done.set()
            th = threading.Thread(target=stopper, daemon=True)
            th.start()
        if cycle.get('pre_sysexit') is not None:
            # a handler raises SystemExit(code) while the manager is NOT running (driven by flush()): stopping is a no-op then, and
            # the code must not surface at the caller of a later run()
            marks.add('systemexit_while_not_running')
            try:
                w.fire({'name': 'presys'})
                while len(w.app):
                    w.app.flush()
            except BaseException as e:  # noqa: BLE001
                problems.append(('STOP_NOT_RUNNING_NOOP', {'cycle': cyc, 'when': 'SystemExit(%r) raised by a handler during a manual flush()' % (cycle['pre_sysexit'],),
                                                           'flush_raised': repr(e)}))
                break
        start = len(w.log)
        w.L('RUN')
        raised = None
        try:
            w.app.run()
        except BaseException as e:
            raised = e
        end = w.L('RUNRET')
        if th is not None:
            th.join(20)
            if th.is_alive() or thread_err:
                return None, {'inconclusive': 'stopper thread: %s' % (thread_err or 'did not finish')}, w
            marks.add('stop_from_second_thread')
        seg = w.log[start:end]
        # what was given
        given = None
        stop_seen = False
        codes = [e[3] for e in seg if e[0] in ('STOPCALL', 'SYSEXIT') and e[3] is not None]
        for e in seg:
            if e[0] == 'STOPCALL' and not stop_seen:
                stop_seen, given = True, e[3]
                hd = next(h for h in case['handlers'] if h['hid'] == e[2])
                marks.add('stop_in_generator_step' if hd['gen'] else ('stop_in_started' if hd['name'] == 'started' else 'stop_mid_chain'))
            elif e[0] == 'SYSEXIT' and not stop_seen:
                stop_seen, given = True, e[3]
                marks.add('stop_via_systemexit')
            elif e[0] == 'KBINT' and not stop_seen:
                stop_seen = True
                marks.add('stop_via_keyboardinterrupt')
            elif e[0] == 'PX' and not stop_seen:
                marks.add('handler_failed_before_the_stop')
            elif e[0] == 'THREADSTOP' and not stop_seen:
                stop_seen = True
        n_exits = sum(1 for e in seg if e[0] in ('STOPCALL', 'SYSEXIT'))
        if n_exits >= 2:
            # several exits in one run (programs give at most one code): the code that was given is what the caller gets, wherever the
            # code-less exits come
            marks.add('several_exits_in_one_run')
            first = next(e for e in seg if e[0] in ('STOPCALL', 'SYSEXIT'))
            if first[3] is None and codes:
                coded = next(e for e in seg if e[0] in ('STOPCALL', 'SYSEXIT') and e[3] is not None)
                if coded[0] == 'SYSEXIT':
                    # a SystemExit(code) raised by a step that runs after the manager has been stopped (the `stopped` handler, the next step
                    # of the generator that called stop(), what they fire): its code is carried to the caller of run() like any other
                    given = coded[3]
                    marks.add('systemexit_with_a_code_after_the_manager_had_been_stopped')
                else:
                    given = 'n/a'  # a code offered to stop() after the manager had already been stopped: stop() has no effect then - not asserted
            else:
                given = codes[0] if codes else None
            if codes and any(e[0] in ('STOPCALL', 'SYSEXIT') and e[3] is None for e in seg):
                marks.add('codeless_exit_next_to_a_coded_one')
        if given is not None:
            marks.add('exit_code_given')
        detail0 = {'cycle': cyc, 'given_code': given, 'run_raised': repr(raised) if raised is not None else None}
        counts['RUN_ENDS'] += 1
        if st['forced']:
            problems.append(('RUN_ENDS', dict(detail0, note='run() kept going for 400 iterations after stop was requested' if stop_seen
                                              else 'the program never reached its stop (harness ended the run)')))
            break
        n_started = sum(1 for e in seg if e[0] == 'SYS' and e[1] == 'started')
        n_stopped = sum(1 for e in seg if e[0] == 'SYS' and e[1] == 'stopped')
        counts['STARTED_ONCE'] += 1
        if n_started != 1:
            problems.append(('STARTED_ONCE', dict(detail0, started_events=n_started)))
        counts['STOPPED_ONCE'] += 1
        if n_stopped != 1:
            problems.append(('STOPPED_ONCE', dict(detail0, stopped_events=n_stopped)))
        # drained: every event fired so far (and not cancelled) has been dispatched exactly once before run() returned
        counts['DRAINED'] += 1
        undisp = [u for u, inf in w.events.items() if not inf.get('system') and not inf['cancelled'] and inf['dispatched'] != 1]
        left_q, left_t = len(w.app), len(w.app._tasks)
        if undisp or left_q or left_t:
            problems.append(('DRAINED', dict(detail0, not_dispatched_exactly_once=[[u, w.events[u]['name'], w.events[u]['dispatched']] for u in undisp][:8],
                                             queue_left=left_q, tasks_left=left_t)))
        for e in seg:
            if e[0] == 'CHILDSTOP':
                counts['STOP_NOT_RUNNING_NOOP'] += 1
                marks.add('stop_of_registered_child_while_root_runs')
                if e[4] != e[5] or e[6] is not None:
                    problems.append(('STOP_NOT_RUNNING_NOOP', dict(detail0, when='stop(%r) of a registered component from a handler while its root runs' % (e[3],),
                                                                   root_running_queue_child_running_before=e[4], after=e[5], raised=e[6])))
        counts['EXIT_CODE'] += 0 if given == 'n/a' else 1
        observed = raised.code if isinstance(raised, SystemExit) else ('EXC:' + repr(raised) if raised is not None else None)
        if observed != given and given != 'n/a':
            problems.append(('EXIT_CODE', dict(detail0, observed_code=observed)))
        # coverage of "consequences of stopping"
        stop_idx = next((i for i, e in enumerate(seg) if e[0] in ('STOPCALL', 'SYSEXIT', 'KBINT', 'THREADSTOP')), None)
        if stop_idx is not None:
            after = [e for e in seg[stop_idx:] if e[0] == 'F']
            if after:
                marks.add('events_fired_after_stop')
            if any(e[0] == 'F' and e[2] is not None and w.events[e[2]]['name'] == 'stopped' for e in seg):
                marks.add('stopped_handler_fires')
            disp_after = sum(1 for e in seg[stop_idx:] if e[0] == 'D')
            if disp_after >= 3:
                info_nontrivial = True
        if not problems:
            stop_noop_probe('after cycle %d' % cyc)
    return problems[:4], {'marks': marks, 'counts': counts, 'nontrivial': info_nontrivial}, w


# ------------------------------------------------------------------------------------------------
def HD(hid, name, body, gen=False, prio=0):
    return {'hid': hid, 'name': name, 'prio': prio, 'gen': gen, 'body': body}


def E(n):
    return {'name': n}


def chain(hid0, stop_action, where, code_unused=None, gen_stop=False, after=2, stopped_fires=True, length=4, childstop=(), prios=None, lone=()):
    """started -> a0 -> a1 -> ... ; `where` = -1 for the started handler, k for handler of a_k.
    childstop: (position, code) pairs - the handler at that position first calls stop(code) of a registered child component."""
    hs = _chain(hid0, stop_action, where, gen_stop, after, stopped_fires, length)
    # prios: chain position -> priority with which a_<position> is fired (numerically larger = later in its batch, behind the loop's own
    # generate_events event); lone: positions whose handler fires nothing but the next link
    for h in hs:
        for a in h['body']:
            if a[0] == 'fire' and prios and a[1]['name'][:1] == 'a' and a[1]['name'][1:].isdigit() and int(a[1]['name'][1:]) in prios:
                a[1] = dict(a[1], prio=prios[int(a[1]['name'][1:])])
    for pos in lone:
        h = hs[pos + 1] if -1 <= pos < length else hs[0]
        h['body'] = [a for a in h['body'] if not (a[0] == 'fire' and a[1]['name'] == 'x')]
    for pos, code in childstop:
        h = hs[pos + 1] if -1 <= pos < length else hs[0]
        at = 1 if h['gen'] else 0
        h['body'] = h['body'][:at] + [['stopchild', code]] + h['body'][at:]
    return hs


def _chain(hid0, stop_action, where, gen_stop, after, stopped_fires, length):
    hs = []
    body = [['fire', E('a0')], ['fire', E('x')]]
    if where == -1:
        body = body + [stop_action] + [['fire', E('x')]] * after
    hs.append(HD(hid0, 'started', body))
    for k in range(length):
        b = [['fire', E('x')]]
        if k + 1 < length:
            b.append(['fire', E('a%d' % (k + 1))])
        gen = False
        if k == where:
            if gen_stop:
                gen = True
                b = [['yield', None]] + b + [stop_action] + [['fire', E('x')]] * after + [['yield', 'v']]
            else:
                b = b + [stop_action] + [['fire', E('x')]] * after
        hs.append(HD(hid0 + 1 + k, 'a%d' % k, b, gen=gen))
    hs.append(HD(hid0 + 20, 'x', [['fire', E('y')]]))
    hs.append(HD(hid0 + 21, 'y', []))
    if stopped_fires:
        hs.append(HD(hid0 + 22, 'stopped', [['fire', E('x')], ['fire', E('z')]]))
        hs.append(HD(hid0 + 23, 'z', [['fire', E('y')]]))
    return hs


def corpus():
    cs = []
    for code in CODES:
        for where in (-1, 1, 3):
            cs.append({'name': 'stop-%r-at-%d' % (code, where), 'handlers': chain(1, ['stopmgr', code], where),
                       'cycles': [{'pre_fires': [E('x'), E('y')]}, {}]})
        cs.append({'name': 'genstop-%r' % (code,), 'handlers': chain(1, ['stopmgr', code], 1, gen_stop=True), 'cycles': [{}, {'pre_fires': [E('x')]}]})
        cs.append({'name': 'sysexit-%r' % (code,), 'handlers': chain(1, ['sysexit', code], 1), 'cycles': [{'pre_fires': [E('x')]}, {}]})
        cs.append({'name': 'sysexit-started-%r' % (code,), 'handlers': chain(1, ['sysexit', code], -1), 'cycles': [{}]})
    for code in (None, 3):
        cs.append({'name': 'childstop-%r-before-stop' % (code,), 'handlers': chain(1, ['stopmgr', None], 2, childstop=[(0, code)]), 'cycles': [{'pre_fires': [E('x')]}, {}]})
        cs.append({'name': 'childstop-%r-in-started-and-gen' % (code,), 'handlers': chain(1, ['stopmgr', 3], 1, gen_stop=True, childstop=[(-1, code), (1, code)]), 'cycles': [{}, {}]})
        cs.append({'name': 'childstop-%r-after-stop' % (code,), 'handlers': chain(1, ['stopmgr', None], 0, childstop=[(2, code)]), 'cycles': [{}]})
    # a second, code-less exit later in the same run (in `stopped`, later in the chain, in a generator step) next to the one that gives a code
    for first in (['stopmgr', 3], ['sysexit', 7], ['sysexit', 'fatal']):
        for gen_stop in (False, True):
            hs = chain(1, first, 1, gen_stop=gen_stop)
            for h in hs:
                if h['name'] == 'stopped':
                    h['body'] = h['body'] + [['sysexit', None]]
            cs.append({'name': 'coded-then-bare-exit-in-stopped-%r-%s' % (first[1], gen_stop), 'handlers': hs, 'cycles': [{}, {'pre_fires': [E('x')]}]})
            hs = chain(1, first, 0, gen_stop=gen_stop)
            for h in hs:
                if h['name'] == 'a2':
                    h['body'] = h['body'] + [['sysexit', None]]
            cs.append({'name': 'coded-then-bare-exit-in-chain-%r-%s' % (first[1], gen_stop), 'handlers': hs, 'cycles': [{}, {}]})
    hs = chain(1, ['sysexit', None], 0)
    for h in hs:
        if h['name'] == 'stopped':
            h['body'] = h['body'] + [['sysexit', 9]]
    cs.append({'name': 'bare-then-coded-exit', 'handlers': hs, 'cycles': [{}, {}]})
    # a coded SystemExit from steps that only run once the manager has been stopped and its queue is empty: the next step of the generator
    # that called stop(), a generator `stopped` handler after a yield, a handler of what such a late step fires
    # (how many iterations after the stop the step comes is swept: the steps that run while the queue is still draining, and the ones that
    # run in the few iterations run() grants after that - programs that need more than those are not generated, see DESIGN section 4, C08)
    late_codes = (5, 0, 'late')
    for k in range(0, 6):
        code = late_codes[k % 3]
        hs = chain(1, ['stopmgr', None], 1, gen_stop=True)
        for h in hs:
            if h['gen']:
                h['body'] = h['body'] + [['yield', None]] * k + [['sysexit', code]]
        cs.append({'name': 'stop-then-coded-exit-%d-steps-later-%r' % (k, code), 'handlers': hs, 'cycles': [{}, {'pre_fires': [E('x')]}]})
    for k in range(0, 7):
        code = late_codes[k % 3]
        hs = chain(1, ['stopmgr', None], 0)
        for h in hs:
            if h['name'] == 'stopped':
                h['gen'] = True
                h['body'] = h['body'] + [['yield', None]] * k + [['sysexit', code]]
        cs.append({'name': 'coded-exit-in-step-%d-of-stopped-%r' % (k, code), 'handlers': hs, 'cycles': [{}, {}]})
    for k in range(0, 5):
        code = late_codes[k % 3]
        hs = chain(1, ['sysexit', None], 2)
        for h in hs:
            if h['name'] == 'stopped':
                h['gen'] = True
                h['body'] = [['yield', None]] * k + [['fire', E('lastwords')]] + h['body']
        cs.append({'name': 'coded-exit-by-a-handler-of-an-event-fired-%d-steps-late-%r' % (k, code), 'handlers': hs + [HD(95, 'lastwords', [['sysexit', code]])],
                   'cycles': [{}, {}]})
    for code in (5, 'early'):
        cs.append({'name': 'sysexit-while-not-running-%r' % (code,), 'handlers': chain(1, ['stopmgr', None], 1) + [HD(90, 'presys', [['fire', E('x')], ['sysexit', code]])],
                   'cycles': [{'pre_sysexit': code}, {}, {'pre_sysexit': code, 'pre_fires': [E('x')]}]})
    # links fired with a priority that puts them behind the loop's own generate_events event, alone in the queue
    for pr in (1, 2.5, -1):
        for act in (['stopmgr', 3], ['sysexit', None], ['kbint']):
            cs.append({'name': 'lone-link-prio-%r-%s' % (pr, act[0]), 'handlers': chain(1, act, 3, prios={0: pr, 1: pr, 2: 0, 3: pr}, lone=(-1, 0, 1, 2)),
                       'cycles': [{}, {'pre_fires': [E('y')]}]})
    cs.append({'name': 'lone-link-prio-gen', 'handlers': chain(1, ['stopmgr', None], 2, gen_stop=True, prios={0: 1, 1: 1, 2: 1}, lone=(-1, 0, 1)), 'cycles': [{}, {}]})
    # failing handlers on the way (ordinary exceptions and ones that do not derive from Exception, in plain handlers and generator steps)
    for kind in (['raise'], ['raise', 'base']):
        for act in (['stopmgr', 3], ['sysexit', None], ['stopmgr', None]):
            cs.append({'name': 'failing-handlers-%s-%s' % (len(kind), act[0]), 'handlers': chain(1, act, 2) + [HD(43, 'x', [list(kind)], prio=2), HD(44, 'y', [['yield', None], list(kind)], gen=True)],
                       'cycles': [{'pre_fires': [E('x')]}, {}]})
    cs.append({'name': 'kbint', 'handlers': chain(1, ['kbint'], 2), 'cycles': [{}, {}, {}]})
    cs.append({'name': 'kbint-gen', 'handlers': chain(1, ['kbint'], 0, gen_stop=True), 'cycles': [{}, {}]})
    cs.append({'name': 'thread', 'handlers': chain(1, ['fire', E('release_stopper')], 1), 'cycles': [{'thread_stop': True}, {'thread_stop': True, 'pre_fires': [E('x')]}]})
    return cs


def gen_case(rng):
    length = rng.randint(1, 5)
    where = rng.randint(-1, length - 1)
    kind = rng.choice(['stopmgr', 'stopmgr', 'sysexit', 'kbint', 'thread'])
    code = rng.choice(CODES)
    gen_stop = where >= 0 and rng.random() < 0.3
    if kind == 'stopmgr':
        act = ['stopmgr', code]
    elif kind == 'sysexit':
        act = ['sysexit', code]
    elif kind == 'kbint':
        act = ['kbint']
    else:
        act = ['fire', E('release_stopper')]
        gen_stop = False
    childstop = [(rng.randint(-1, length - 1), rng.choice([None, None, 0, 3])) for _ in range(rng.choice([0, 0, 0, 1, 1, 2]))]
    prios = {k: rng.choice([1, 1, 2.5, -1, 0.5]) for k in range(length) if rng.random() < 0.35}
    lone = [k for k in range(-1, length - 1) if rng.random() < 0.4]
    hs = chain(1, act, where, gen_stop=gen_stop, after=rng.randint(0, 3), stopped_fires=rng.random() < 0.7, length=length, childstop=childstop,
               prios=prios, lone=lone)
    # some extra handlers with priorities / second handlers
    if rng.random() < 0.5:
        hs.append(HD(40, 'x', [['fire', E('y')]] * rng.randint(0, 2), prio=1))
    if rng.random() < 0.3:
        hs.append(HD(41, 'y', [['yield', None], ['ret', 'v']], gen=True))
    if rng.random() < 0.25:
        # handlers that fail - with an ordinary exception or one that does not derive from Exception: nobody has called stop(), the loop goes on
        hs.append(HD(43, rng.choice(['x', 'y']), [rng.choice([['raise'], ['raise', 'base']])], prio=rng.choice([0, 2])))
        if rng.random() < 0.4:
            hs.append(HD(44, rng.choice(['x', 'y']), [['yield', None], rng.choice([['raise'], ['raise', 'base']])], gen=True))
    cycles = []
    for _ in range(rng.randint(1, 3)):
        c = {'pre_fires': [E(rng.choice(['x', 'y'])) for _ in range(rng.randint(0, 3))]}
        if kind == 'thread':
            c['thread_stop'] = True
        cycles.append(c)
    if kind in ('stopmgr', 'sysexit') and rng.random() < 0.3:
        # one more exit without a code, somewhere else (the program gives at most one code)
        # (after the coded one: in `stopped`, or in a chain handler behind the stop position)
        later = [h for h in hs if h['name'] == 'stopped' or (h['name'].startswith('a') and h['name'][1:].isdigit() and int(h['name'][1:]) > where and not h['gen'])]
        if later:
            tgt = rng.choice(later)
            tgt['body'] = tgt['body'] + [['sysexit', None]]
    if rng.random() < 0.2:
        pcode = rng.choice([0, 5, 'early'])
        hs.append(HD(90, 'presys', [['fire', E('x')]] * rng.randint(0, 1) + [['sysexit', pcode]]))
        for c in cycles:
            if rng.random() < 0.6:
                c['pre_sysexit'] = pcode
    case = {'handlers': hs, 'cycles': cycles, 'kind': kind, 'code': code}
    if rng.random() < 0.15:
        case['mk'] = rng.choice(['attr', 'renamed'])
    return case


def plan(tier, seed):
    sched = [{'kind': 'sched', 'lo': lo, 'hi': lo + 400, 'step': 10 if tier == 'quick' else 3, 'ks': [4, 6, 8] if tier == 'quick' else list(range(2, 16))}
             for lo in (40, 440, 840, 1240)]
    # the loop thread pre-empted at EVERY yield point of its way into the idle wait (nothing else to do: no task), the second thread's
    # stop() then runs to completion (and, thorough, is itself pre-empted): run() must still end
    for mech in ('fallback', 'Select') if tier == 'quick' else ('fallback', 'Select', 'Poll', 'EPoll'):
        scn = {'mech': mech, 'firers': 1, 'events': 1, 'task': False}
        sched += [{'kind': 'sched', 'scn': scn, 'lo': lo, 'hi': lo + 250, 'step': 1, 'ks': ['INF']} for lo in (0, 250, 500, 750)]
        # ... the stopper pre-empted after each of the first yield points of stop() (before / between / after its two steps) with the loop
        # thread somewhere in its iteration
        sched += [{'kind': 'sched', 'scn': scn, 'lo': lo, 'hi': lo + 500, 'step': 7 if tier == 'quick' else 2, 'ks': list(range(3, 11))} for lo in (0, 500)]
        # ... and the other way round: the loop sleeps in its idle wait, the second thread's stop() is pre-empted after EVERY one of its
        # yield points (in particular between queueing `stopped` and clearing the running flag), the loop runs until it blocks again
        sched += [{'kind': 'sched', 'scn': scn, 'lo': 0, 'hi': 0, 'step': 1, 'a1s': ['INF'], 'ks': list(range(k0, k0 + 40))} for k0 in (1, 41, 81, 121)]
    # stop() whenever the schedule says so (the stopper does not wait for the fired events to be dispatched first: they are still pending or
    # being dispatched): it runs to completion at EVERY yield point of the loop thread's iterations - in particular inside the hand-over of
    # the pending events to the dispatch pass; `stopped` and the pending events are dispatched all the same
    for mech in ('fallback',) if tier == 'quick' else ('fallback', 'Select', 'EPoll'):
        scn = {'mech': mech, 'firers': 1, 'events': 2, 'task': True, 'stop_any_time': True}
        sched += [{'kind': 'sched', 'scn': scn, 'lo': lo, 'hi': lo + 200, 'step': 1, 'ks': ['INF']} for lo in (0, 200, 400, 600, 800, 1000)]
    # a loop that never sleeps (a handler keeps an event pending until the stopper is about to call stop()): the loop thread is runnable
    # wherever the stopper is pre-empted inside stop() - in particular between its two steps - and passes the `while running or queued`
    # test of run() on its own; `stopped` must have been dispatched when run() returns all the same
    for mech in ('fallback',) if tier == 'quick' else ('fallback', 'Select'):
        scn = {'mech': mech, 'firers': 1, 'events': 1, 'busy': True}
        sched += [{'kind': 'sched', 'scn': scn, 'lo': lo, 'hi': lo + 500, 'step': 7 if tier == 'quick' else 3, 'ks': [6, 8, 10] if tier == 'quick' else list(range(4, 13))}
                  for lo in (800, 1300)]
    if tier == 'quick':
        return [{'kind': 'corpus'}] + [{'kind': 'random', 'seed': seed * 1000 + i, 'n': 40} for i in range(15)] + sched
    return [{'kind': 'corpus'}] + [{'kind': 'random', 'seed': seed * 100000 + i, 'n': 700} for i in range(32)] + sched


# known findings: twin = the same program with every exit code replaced by None ----------------------------
def twin_no_code(case):
    import copy
    c = copy.deepcopy(case)
    for h in c['handlers']:
        for a in h['body']:
            if a[0] in ('stopmgr', 'sysexit'):
                a[1] = None
    return c


def passes(case):
    problems, info, w = run_case(case)
    return problems is not None and not problems


def stop_kind(case):
    for h in case['handlers']:
        for a in h['body']:
            if a[0] in ('stopmgr', 'sysexit') and a[1] is not None:
                return a[0]
    return None


def evaluate_case(b, case):
    try:
        with cpu_budget(60):
            problems, info, w = run_case(case)
    except BudgetExceeded as e:
        b.fail(case, 'NO_PROGRESS', {'error': str(e)}, dedup='')
        return
    except Exception as e:
        import traceback
        b.fail(case, 'HARNESS_RAISED', {'error': repr(e), 'tb': traceback.format_exc(limit=8)}, dedup=type(e).__name__)
        return
    if problems is None:
        b.inconclusive_because(info['inconclusive'])
        return
    b.case(case, nontrivial=info.get('nontrivial', False))
    for m in info.get('marks', ()):
        b.reached(m)
    first = {}
    for clause, detail in problems:
        first.setdefault(clause, detail)
    for clause, n in info.get('counts', {}).items():
        good = n - sum(1 for c, _ in problems if c == clause)
        if good > 0:
            b.ok(clause, good)
    kind = stop_kind(case)
    for clause, detail in first.items():
        known = []
        if kind == 'stopmgr' and clause == 'EXIT_CODE' and detail.get('given_code') is not None and detail.get('observed_code') is None:
            known.append(('runstop.exitcode-from-handler-stop', lambda: passes(twin_no_code(case))))
        if kind == 'sysexit' and clause in ('DRAINED', 'STOPPED_ONCE') and detail.get('given_code') is not None:
            known.append(('runstop.systemexit-code-aborts-drain', lambda: passes(twin_no_code(case))))
        b.fail(case, clause, detail, known=known, dedup='')


def run_sched_batch(spec):
    """stop() from a second thread under the controlled scheduler of C03 (vlib/sched.py): the stopper thread is
    pre-empted after k yield points of stop() while the loop thread is busy.  stop() clears the running flag before it
    queues `stopped`; if the loop runs its last ticks in between, run() returns with `stopped` undispatched."""
    from checks import c03
    from vlib import sched
    sched.install_and_import()
    import os

    import circuits
    sched.start_monitoring(os.path.join(os.path.dirname(circuits.__file__), 'core') + os.sep)
    b = Batch(PROPERTY)
    scn = spec.get('scn') or {'mech': 'fallback', 'firers': 1, 'events': 1, 'task': True}
    base = c03.run_schedule(scn, record=True)
    if not base['finished'] or base['record'] is None:
        b.inconclusive_because('scheduler baseline did not finish')
        return b.result()
    first_tick = next((i for i, p in enumerate(base['record']['L']) if p[2] == 'tick'), 1)

    def one(a1, k):
        plan = [('L', first_tick + 5), ('F0', c03.INF), ('L', a1), ('S', k), ('L', c03.INF)]
        res = c03.run_schedule(scn, plan=plan)
        preempted = any(sw[0] == 'S' and sw[1] == 'L' and ':' in sw[2] and not sw[2].startswith('finish:') for sw in res['switches'])
        return plan, res, preempted
    shown = 0
    hi = min(spec['hi'], len(base['record']['L']) + 5)
    a1s = [c03.INF if x == 'INF' else x for x in spec['a1s']] if spec.get('a1s') else range(spec['lo'], hi, spec['step'])
    for a1 in a1s:
        for k in spec['ks']:
            k = c03.INF if k == 'INF' else k
            plan, res, preempted = one(a1, k)
            case = {'sched': scn, 'plan': [list(x) for x in plan]}
            if (res['violation'] or res['deadlock']) and dict(res.get('fired', {})).get('stop') == 'returned':
                # stop() returned to the second thread, yet the loop thread sleeps without limit (or can never run again): run() does
                # not return and `stopped` stays queued
                b.case(case, nontrivial=True, distinct_key=[list(x[:3]) for x in res['switches']])
                b.reached('sched_foreign_stop_schedules')
                b.fail(case, 'RUN_ENDS', {'note': 'stop() returned in the second thread but run() never returns: the loop sleeps with `stopped` queued',
                                          'scheduler_report': res['violation'] or res['deadlock'], 'switches': [list(x) for x in res['switches'][-6:]]},
                       dedup='sched-lost')
                shown += 1
                continue
            if not res['finished'] or res['violation'] or res['deadlock']:
                b.inconclusive_because('scheduled foreign stop did not finish: %r' % (res['violation'] or res['deadlock'],))
                continue
            if k == c03.INF:
                b.reached('sched_stop_runs_to_completion_at_a_loop_preemption_point')
            if a1 == c03.INF and preempted:
                b.reached('sched_stopper_preempted_while_loop_sleeps')
            b.ok('RUN_ENDS')
            b.case(case, nontrivial=preempted, distinct_key=[list(x[:3]) for x in res['switches']])
            b.reached('stop_from_second_thread')
            b.reached('sched_foreign_stop_schedules')
            if preempted:
                b.reached('sched_stopper_preempted_inside_stop')
            undisp = [kk for kk in res.get('fired', {}) if kk != 'stop' and kk not in {str(tuple(d)) if not isinstance(d, str) else d for d in res['dispatched']}]
            if scn.get('stop_any_time'):
                b.reached('sched_stop_at_any_point_with_events_still_pending')
            if res['stop_dispatched_when_run_returned'] and scn.get('stop_any_time') and undisp:
                # `stopped` was dispatched, but an event whose fire() had returned before stop() was called never was
                shown += 1
                b.fail(case, 'DRAINED', {'note': 'run() returned although events fired (from another thread) before the foreign stop() were never dispatched',
                                         'never_dispatched': undisp[:4], 'switches': [list(x) for x in res['switches'][-6:]]}, dedup='sched-drained')
            elif res['stop_dispatched_when_run_returned']:
                b.ok('STOPPED_ONCE')
                b.ok('DRAINED')
            else:
                shown += 1
                def twin(a1=a1):
                    _, r2, _ = one(a1, c03.INF)   # same schedule, stopper not pre-empted inside stop()
                    return r2['finished'] and bool(r2['stop_dispatched_when_run_returned'])
                b.fail(case, 'STOPPED_ONCE', {'note': 'run() returned before `stopped` (queued by the foreign stop()) was dispatched',
                                              'switches': [list(x) for x in res['switches'][-6:]]},
                       known=[('runstop.foreign-stop-races-loop-exit', twin)] if preempted else [], dedup='sched')
        if shown >= 3:
            break
    return b.result()


def run_batch(spec):
    if spec.get('kind') == 'sched':
        return run_sched_batch(spec)
    import circuits  # noqa: F401
    b = Batch(PROPERTY)
    if spec['kind'] == 'corpus':
        for case in corpus():
            evaluate_case(b, case)
    else:
        rng = random.Random(spec['seed'])
        for _ in range(spec['n']):
            evaluate_case(b, gen_case(rng))
    return b.result()


def run_replay(case):
    if 'sched' in case:
        # a schedule of the controlled-scheduler batch: the same scenario, loop quota and stopper quota again
        return run_sched_batch({'kind': 'sched', 'scn': case['sched'], 'a1s': [case['plan'][2][1]], 'ks': [case['plan'][3][1]], 'lo': 0, 'hi': 0, 'step': 1})
    b = Batch(PROPERTY)
    evaluate_case(b, unjson(case))
    return b.result()

"""C04 - handler results, success/failure/exception feedback and error isolation.

Oracle: per event, the production log (unique value per return/yield, unique exception per raise)
written by generated handlers vs. the Value returned by fire() and the feedback events seen by a
probe, evaluated at quiescence (DESIGN.md section 4, C04).
"""
import copy
import itertools
import random

from vlib.batch import Batch, BudgetExceeded, cpu_budget, unjson

PROPERTY = 'C04'
LEVEL = 'exploration'
RULE = ('exhaustive over ordered pairs and triples of handler shapes {return v, return None, raise, generator yielding <= 2 values '
        '(None / non-None mixed), generator raising at step 0..2} with all feedback flags on, plus flag combinations on a corpus and seeded '
        'random 1-5 handler sets with child events fired from handlers (nesting <= 3); a part of the programs fires the same event OBJECT again '
        '(1-2 more times, as a persistent Timer does) once it has been handled, every firing judged like a fresh event; non-trivial = the event has >= 2 handlers of '
        'different shapes or a generator handler; distinct = hash of the program')
ASSUMPTIONS = [
    'generator `return v` is not generated; a handler may return the Value of an event it fired (nested-value idiom): for such events only the '
    'feedback clauses (exception / failure / success iff, ordering) and the errors flag are evaluated, not the content of the chained Value',
    'the number of *_value_changed notifications is not asserted (not stated); notify is only exercised',
    'evaluated at quiescence of a manager stepped by tick() from the checking thread',
]
REQUIRED = ['handler_suspended_by_sleep', 'event_without_any_handler_asks_for_success_feedback', 'awaited_event_due_its_own_success_feedback', 'awaited_event_due_its_own_failure_feedback', 'handler_of_an_exception_event_raised', 'falsy_result', 'handler_resumed_from_call', 'base_exception_raised', 'raise_plus_generator', 'generator_raises_at_step', 'multi_value_list', 'single_value_scalar', 'success_requested',
            'failure_requested', 'notify_requested', 'success_channels_override', 'child_event_from_handler', 'two_raises_one_event',
            'same_event_object_fired_again', 'event_object_fired_again_after_a_handler_raised', 'handler_returned_nested_value',
            'nested_value_next_to_a_raising_handler', 'handler_call_timed_out', 'handler_called_again_right_after_timeout']
REQUIRED_OBLIGATIONS = ['VALUE', 'ERRORS_FLAG', 'EXCEPTION_EVENTS', 'FAILURE_EVENTS', 'SUCCESS_ONCE_IFF', 'SUCCESS_AFTER_HANDLERS',
                        'ALL_HANDLERS_RAN', 'LATER_EVENTS_RUN']
WORKER_TIMEOUT = {'quick': 300, 'thorough': 1500}
ENGINE = 'stepping-driver'
TECHNIQUE = 'runtime monitoring: production/feedback ghost log of generated handlers checked against the returned Value and feedback events at quiescence'
LEVEL_TEXT = ('Every generated handler logs each value it returns/yields and each exception it raises (all unique); at quiescence the Value '
              'returned by fire(), its errors flag, and the exception/_failure/_success events seen by a probe are compared with that log, '
              'for all ordered pairs/triples of handler shapes and random larger sets with nested events. Held = no mismatch on the programs run.')
LEVEL_NOTE = 'Trusted: the ghost log and the evaluator; sampling beyond triples; handlers returning Value objects are outside the workload.'

SHAPES = {
    'R': (False, [['ret', 'r']]),
    'N': (False, []),
    'X': (False, [['raise']]),
    'G0': (True, []),
    'G1v': (True, [['yield', 'a']]),
    'G1n': (True, [['yield', None]]),
    'G2vn': (True, [['yield', 'a'], ['yield', None]]),
    'G2nv': (True, [['yield', None], ['yield', 'b']]),
    'G2vv': (True, [['yield', 'a'], ['yield', 'b']]),
    'GX0': (True, [['raise']]),
    'GX1': (True, [['yield', 'a'], ['raise']]),
    'GX2': (True, [['yield', None], ['yield', 'b'], ['raise']]),
    # falsy but non-None results are results
    'R0': (False, [['retlit', 0]]),
    'G1f': (True, [['yieldlit', ''], ['yield', 'b']]),
    # handlers suspended in call()/wait() on another event ('k' has one plain handler), resumed, then yielding None / a value / a falsy value
    'GCn': (True, [['call', {'name': 'k'}], ['yield', None], ['yield', 'a']]),
    'GCv': (True, [['call', {'name': 'k'}], ['yieldlit', False]]),
    'GWn': (True, [['wait', {'name': 'k'}], ['yield', None]]),
    # the nested-value idiom: the handler returns the Value of an event it fires ('n' has one plain handler returning a value)
    'RV': (False, [['retfire', {'name': 'n'}]]),
    # exceptions that derive from BaseException only (GeneratorExit-like): still "a handler that raised"
    'XB': (False, [['raise', 'base']]),
    'GXB1': (True, [['yield', 'a'], ['raise', 'base']]),
}
# handlers whose call()/wait() TIMES OUT (the callee 'slow' outlasts it); only meaningful under run(), where timeouts count loop iterations:
# the TimeoutError is caught and the handler goes on with plain yields, or at once with another call()/wait()
TIMEOUT_SHAPES = {
    'GTy': (True, [['call', {'name': 'slow'}, {'timeout': 1}], ['yield', 'a'], ['yield', 'b']]),
    'GTC': (True, [['call', {'name': 'slow'}, {'timeout': 1}], ['call', {'name': 'k'}, {}], ['yield', 'a'], ['yield', 'b']]),
    'GTW': (True, [['wait', {'name': 'slow'}, {'timeout': 2}], ['wait', {'name': 'k'}, {}], ['yield', None], ['yieldlit', 0]]),
    'GTCT': (True, [['call', {'name': 'slow'}, {'timeout': 1}], ['call', {'name': 'slow'}, {'timeout': 1}], ['call', {'name': 'k'}, {'timeout': 9}], ['yield', 'a']]),
    'GTX': (True, [['call', {'name': 'slow'}, {'timeout': 1}], ['call', {'name': 'k'}, {}], ['raise']]),
}
# ... and a sweep of timeouts across the time the awaited event takes: one of them expires in the very iteration in which the event finishes
for _k in range(2, 13):
    TIMEOUT_SHAPES['GT%d' % _k] = (True, [['call', {'name': 'slow'}, {'timeout': _k}], ['yield', 'a']])
    TIMEOUT_SHAPES['GW%d' % _k] = (True, [['wait', {'name': 'slow'}, {'timeout': _k}], ['yield', 'b']])
ALLF = {'success': True, 'failure': True, 'notify': True}
# handlers suspended in call()/wait() on an event that ITSELF asks for feedback ('k' has one plain handler, every handler of 'kx' raises,
# 'kg' has a generator handler and a plain one): somebody waiting for an event changes nothing about the feedback that event is due.
# (kept out of SHAPES: the exhaustive products are over SHAPES only)
AWAIT_SHAPES = {
    'GCs': (True, [['call', {'name': 'k', 'flags': ALLF}], ['yield', 'a']]),
    'GCs1': (True, [['call', {'name': 'k', 'flags': {'success': True}}], ['yield', None]]),
    'GWs': (True, [['wait', {'name': 'k', 'flags': ALLF}], ['yield', None]]),
    'GWNs': (True, [['waitname', {'name': 'k', 'flags': {'success': True}}], ['yield', 'b']]),
    'GCg': (True, [['call', {'name': 'kg', 'flags': ALLF}], ['yield', 'a']]),
    'GWg': (True, [['wait', {'name': 'kg', 'flags': ALLF}], ['yield', 'a']]),
    'GCx': (True, [['call', {'name': 'kx', 'flags': ALLF}], ['yield', 'a']]),
    # handlers suspended by the other coroutine primitive, `yield sleep(0)` (resumed in the next iteration): suspended handlers like any other
    'GS0': (True, [['sleep', 0], ['yield', 'a']]),
    'GSS': (True, [['yield', 'a'], ['sleep', 0], ['sleep', 0], ['yield', 'b']]),
    'GSX': (True, [['sleep', 0], ['raise']]),
    'GSn': (True, [['sleep', 0]]),
    'GWx': (True, [['wait', {'name': 'kx', 'flags': ALLF}], ['yield', None]]),
}


def run_case(case):
    from vlib.prog import World, norm
    hs = case['handlers']
    if not any(h['name'] == 'k' for h in hs):
        hs = case['handlers'] = hs + [dict(K_HANDLER)]
    for extra_h in (KX_HANDLER, KG_HANDLER, KG2_HANDLER):
        if any(a[0] in ('call', 'wait', 'waitname') and a[1].get('name') == extra_h['name'] for h in hs for a in h['body']) and \
                not any(h['hid'] == extra_h['hid'] for h in hs):
            hs = case['handlers'] = hs + [copy.deepcopy(extra_h)]
    if not any(h['name'] == 'n' for h in hs):
        hs = case['handlers'] = hs + [dict(N_HANDLER)]
    if case.get('under_run') and not any(h['name'] == 'slow' for h in hs):
        hs = case['handlers'] = hs + [copy.deepcopy(SLOW_HANDLER)]
    w = World({'handlers': hs, 'mk': case.get('mk'), 'unprobed': case.get('unprobed'), 'probe_names': [f['name'] for f in case['fires']]})
    problems = []
    subjects = []
    for spec in case['fires']:
        e, uid = w.fire(spec)
        subjects.append(uid)
    try:
        # under_run: the real run() in the checking thread (call/wait timeouts count its iterations); otherwise stepped with tick()
        ok = w.run(max_iters=600) if case.get('under_run') else w.settle(max_ticks=400)
        if case.get('under_run') and w.run_raised is not None:
            raise w.run_raised
    except BaseException as ex:  # the loop itself raised
        import traceback
        return [('LOOP_RAISED', {'error': repr(ex), 'tb': traceback.format_exc(limit=6)})], {'marks': set(), 'counts': {}}, w
    if not ok:
        return None, {'inconclusive': 'does not settle'}, w
    # the same event OBJECT fired again once it has been fully handled (what a persistent Timer does with its event): every
    # firing is judged like a fresh event
    for _ in range(case.get('refire', 0)):
        for uid in list(subjects):
            _, nu = w.refire(uid)
            subjects[subjects.index(uid)] = nu
        try:
            ok = w.settle(max_ticks=400)
        except BaseException as ex:
            import traceback
            return [('LOOP_RAISED', {'error': repr(ex), 'tb': traceback.format_exc(limit=6)})], {'marks': set(), 'counts': {}}, w
        if not ok:
            return None, {'inconclusive': 'does not settle'}, w
    # canary: later events still run
    _, canary = w.fire({'name': 'canary'})
    try:
        w.settle(max_ticks=50)
    except BaseException as ex:
        problems.append(('LOOP_RAISED', {'error': repr(ex)}))
    return evaluate(case, w, problems, canary, norm)


def evaluate(case, w, problems, canary, norm):
    marks = set()
    counts = dict.fromkeys(REQUIRED_OBLIGATIONS, 0)
    declared = {}
    for hd in case['handlers']:
        declared.setdefault(hd['name'], []).append(hd)
    per = {}
    for i, entry in enumerate(w.log):
        k = entry[0]
        if k in ('P', 'PX', 'PV', 'HS', 'HE', 'GY', 'GR', 'D'):
            per.setdefault(entry[1], []).append((i, entry))
        elif k == 'FB':
            per.setdefault(entry[2], []).append((i, entry))
        elif k == 'EXC':
            per.setdefault(entry[1], []).append((i, entry))
    nontrivial = False
    for uid, info in w.events.items():
        if uid == canary:
            counts['LATER_EVENTS_RUN'] += 1
            if info['dispatched'] != 1:
                problems.append(('LATER_EVENTS_RUN', {'canary_dispatched': info['dispatched']}))
            continue
        ents = per.get(uid, [])
        decl = declared.get(info['name'], [])
        flags = info['flags']
        prods = [(i, e) for i, e in ents if e[0] in ('P', 'PX')]
        raises = [e[3] for _, e in prods if e[0] == 'PX']
        exp_items = [e[3] if e[0] == 'P' else ['ERR', e[3]] for _, e in prods]
        expected = None if not exp_items else (exp_items[0] if len(exp_items) == 1 else exp_items)
        v = getattr(w, 'final_value', {}).get(uid) or w.objs[uid].value   # (for call() the Value exists only once the call generator has started)
        if info.get('refire_of') is not None:
            marks.add('same_event_object_fired_again')
            if raises or any(e[0] == 'PX' for _, e in per.get(info['refire_of'], [])):
                marks.add('event_object_fired_again_after_a_handler_raised')
        observed = norm(v.value)
        nested = any(e[0] == 'PV' for _, e in ents)
        if nested:
            # what the event's Value holds and flags while a nested Value is chained into it is not spelled out by the statement:
            # only the feedback clauses are evaluated for such events
            marks.add('handler_returned_nested_value')
            if raises:
                marks.add('nested_value_next_to_a_raising_handler')
        counts['VALUE'] += 0 if nested else 1
        if observed != expected and not nested:
            problems.append(('VALUE', {'event': uid, 'name': info['name'], 'expected': expected, 'observed': observed}))
        counts['ERRORS_FLAG'] += 1
        if bool(v.errors) != bool(raises):      # (the nested events of this workload never fail themselves)
            problems.append(('ERRORS_FLAG', {'event': uid, 'errors': v.errors, 'raises': raises}))
        excs = [e[2] for _, e in ents if e[0] == 'EXC']
        counts['EXCEPTION_EVENTS'] += 1
        if sorted(excs) != sorted(raises):
            problems.append(('EXCEPTION_EVENTS', {'event': uid, 'exception_events': excs, 'raises': raises}))
        fails = [e[3] for _, e in ents if e[0] == 'FB' and e[1] == 'failure']
        counts['FAILURE_EVENTS'] += 1
        want_f = sorted(raises) if flags.get('failure') else []
        if sorted(fails) != want_f:
            problems.append(('FAILURE_EVENTS', {'event': uid, 'failure_events': fails, 'expected': want_f}))
        succ = [i for i, e in ents if e[0] == 'FB' and e[1] == 'success']
        counts['SUCCESS_ONCE_IFF'] += 1
        want_s = 1 if (flags.get('success') and not raises) else 0
        if len(succ) != want_s:
            problems.append(('SUCCESS_ONCE_IFF', {'event': uid, 'success_events': len(succ), 'expected': want_s, 'raises': raises,
                                                  'shapes': [h.get('shape') for h in decl]}))
        steps = [i for i, e in ents if e[0] in ('HS', 'HE', 'GY', 'GR', 'P', 'PX')]
        if succ:
            counts['SUCCESS_AFTER_HANDLERS'] += 1
            if steps and succ[0] < max(steps):
                problems.append(('SUCCESS_AFTER_HANDLERS', {'event': uid, 'success_at': succ[0], 'last_handler_step_at': max(steps)}))
        counts['ALL_HANDLERS_RAN'] += 1
        started = sorted(e[2] for _, e in ents if e[0] == 'HS')
        finished = sorted(e[2] for _, e in ents if e[0] == 'HE')
        want = sorted(h['hid'] for h in decl)
        if started != want or finished != want:
            problems.append(('ALL_HANDLERS_RAN', {'event': uid, 'started': started, 'finished': finished, 'declared': want}))
        # coverage marks
        shapes = {h.get('shape') for h in decl}
        gens = [h for h in decl if h.get('gen')]
        if gens or len(shapes) > 1:
            nontrivial = True
        if any(h.get('shape') in ('R0', 'G1f', 'GCv') for h in decl):
            marks.add('falsy_result')
        if any(h.get('shape') in ('GCn', 'GCv', 'GWn') for h in decl):
            marks.add('handler_resumed_from_call')
        if any(h.get('shape') in TIMEOUT_SHAPES for h in decl):
            marks.add('handler_call_timed_out')
            if any(h.get('shape') in ('GTC', 'GTW', 'GTCT', 'GTX') for h in decl):
                marks.add('handler_called_again_right_after_timeout')
        if any(h.get('shape') in ('XB', 'GXB1') for h in decl):
            marks.add('base_exception_raised')
        if any(h.get('shape') in ('GS0', 'GSS', 'GSX', 'GSn') for h in decl):
            marks.add('handler_suspended_by_sleep')
        if info['name'] == 'exception' and raises:
            marks.add('handler_of_an_exception_event_raised')
        if any(h.get('shape') == 'X' for h in decl) and any(h.get('gen') and not h['shape'].startswith('GX') for h in decl):
            marks.add('raise_plus_generator')
        if any((h.get('shape') or '').startswith('GX') for h in decl):
            marks.add('generator_raises_at_step')
        if len(exp_items) > 1:
            marks.add('multi_value_list')
        if len(exp_items) == 1:
            marks.add('single_value_scalar')
        if len(raises) >= 2:
            marks.add('two_raises_one_event')
        for f in ('success', 'failure', 'notify'):
            if flags.get(f):
                marks.add(f + '_requested')
        if info['spec'].get('success_channels'):
            marks.add('success_channels_override')
        if info['parent'] is not None:
            marks.add('child_event_from_handler')
        if info['name'] in (case.get('unprobed') or ()) and flags.get('success'):
            marks.add('event_without_any_handler_asks_for_success_feedback')
        if info.get('via') in ('call', 'wait', 'waitname') and info['dispatched']:
            if flags.get('success') and not raises:
                marks.add('awaited_event_due_its_own_success_feedback')
            if flags.get('failure') and raises:
                marks.add('awaited_event_due_its_own_failure_feedback')
    return problems, {'marks': marks, 'counts': counts, 'nontrivial': nontrivial}, w


# ------------------------------------------------------------------------------------------------
K_HANDLER = {'hid': 900, 'name': 'k', 'prio': 0, 'gen': False, 'body': [['ret', 'k']], 'shape': 'R'}
SLOW_HANDLER = {'hid': 902, 'name': 'slow', 'prio': 0, 'gen': True, 'body': [['yield', None]] * 6 + [['yield', 'slow']], 'shape': 'G'}
KX_HANDLER = {'hid': 903, 'name': 'kx', 'prio': 0, 'gen': False, 'body': [['raise']], 'shape': 'X'}
KG_HANDLER = {'hid': 904, 'name': 'kg', 'prio': 1, 'gen': True, 'body': [['yield', None], ['yield', 'kg']], 'shape': 'G2nv'}
KG2_HANDLER = {'hid': 905, 'name': 'kg', 'prio': 0, 'gen': False, 'body': [['ret', 'kg2']], 'shape': 'R'}
N_HANDLER = {'hid': 901, 'name': 'n', 'prio': 0, 'gen': False, 'body': [['ret', 'n']], 'shape': 'R'}


def mk_handlers(name, shapes, hid0=1, extra=None):
    hs = []
    n = len(shapes)
    for i, sh in enumerate(shapes):
        gen, body = SHAPES[sh] if sh in SHAPES else AWAIT_SHAPES[sh] if sh in AWAIT_SHAPES else TIMEOUT_SHAPES[sh]
        body = [list(a) for a in body]
        if extra and i in extra:
            body = extra[i] + body
        hs.append({'hid': hid0 + i, 'name': name, 'prio': n - i, 'gen': gen, 'body': body, 'shape': sh})
    return hs


def corpus():
    cs = []
    # the design-review combination and its relatives, each flag combination
    for shapes in (['X', 'G1v'], ['G1v', 'X'], ['X', 'G0'], ['GX1', 'G2vv'], ['X', 'X', 'R'], ['R', 'GX0', 'N'], ['G2vn', 'G2nv', 'R'],
                   ['R'], ['N'], ['X'], ['G0'], ['GX2'], ['R', 'R', 'R'], ['G1n', 'G1n']):
        for fl in ({}, {'success': True}, {'failure': True}, ALLF, {'success': True, 'notify': True}):
            cs.append({'handlers': mk_handlers('e', shapes), 'fires': [{'name': 'e', 'flags': fl}]})
    # the same event object fired two more times after it has been handled (generator handlers that raise, mixed with others)
    for shapes in (['GX0'], ['GX1'], ['GX2', 'R'], ['X', 'G2vv'], ['GXB1', 'G1v'], ['G2vn', 'R'], ['R'], ['GCn', 'GX1'], ['X']):
        cs.append({'handlers': mk_handlers('e', shapes), 'fires': [{'name': 'e', 'flags': ALLF}], 'refire': 2})
        cs.append({'handlers': mk_handlers('e', shapes), 'fires': [{'name': 'e', 'flags': {'success': True}}, {'name': 'e', 'flags': ALLF}], 'refire': 1})
    # timeouts that expire inside a handler (under run()): caught, then plain yields / another call at once / a raise; next to other handlers
    for shapes in (['GTy'], ['GTC'], ['GTW'], ['GTCT'], ['GTX'], ['GTC', 'R'], ['G2vv', 'GTC'], ['GTC', 'GX1'], ['GTW', 'GTC'], ['X', 'GTC'], ['GTC', 'RV']):
        for fl in (ALLF, {'success': True}):
            cs.append({'handlers': mk_handlers('e', shapes), 'fires': [{'name': 'e', 'flags': fl}], 'under_run': True})
    # events nobody handles at all (no handler of that name, no catch-all anywhere - the harness's own probe listens by name in these
    # cases): "no handler of the event raised" holds for them, so a requested <name>_success is due, once; fired from outside, from a
    # handler, twice (the second time with the handler cache warm), with success_channels, next to handled events
    for fl in (ALLF, {'success': True}):
        cs.append({'handlers': mk_handlers('e', ['R']), 'fires': [{'name': 'u', 'flags': fl}], 'unprobed': ['u']})
        cs.append({'handlers': mk_handlers('e', ['R']), 'fires': [{'name': 'u', 'flags': fl}, {'name': 'e', 'flags': fl}, {'name': 'u', 'flags': fl}], 'unprobed': ['u']})
        cs.append({'handlers': mk_handlers('e', ['R', 'G1v'], extra={0: [['fire', {'name': 'u', 'flags': fl}]], 1: [['fire', {'name': 'u', 'flags': fl}]]}),
                   'fires': [{'name': 'e', 'flags': ALLF}], 'unprobed': ['u']})
        cs.append({'handlers': mk_handlers('e', ['X']), 'fires': [{'name': 'u', 'flags': fl, 'success_channels': ['other']}, {'name': 'e', 'flags': fl}], 'unprobed': ['u']})
        cs.append({'handlers': mk_handlers('e', ['R']), 'fires': [{'name': 'u', 'flags': fl}], 'unprobed': ['u'], 'under_run': True})
        cs.append({'handlers': mk_handlers('e', ['R']), 'fires': [{'name': 'u', 'flags': fl}], 'unprobed': ['u'], 'mk': 'attr', 'refire': 1})
    for sh in ('GS0', 'GSS', 'GSX', 'GSn'):
        for shapes in ([sh], [sh, 'R'], ['X', sh], [sh, 'G1v'], ['GX1', sh], [sh, sh]):
            for fl in (ALLF, {'success': True}):
                cs.append({'handlers': mk_handlers('e', shapes), 'fires': [{'name': 'e', 'flags': fl}]})
        cs.append({'handlers': mk_handlers('e', [sh, 'R']), 'fires': [{'name': 'e', 'flags': ALLF}], 'under_run': True})
        cs.append({'handlers': mk_handlers('e', [sh, 'X']), 'fires': [{'name': 'e', 'flags': ALLF}], 'refire': 1})
    # awaited events that ask for feedback themselves (fired by call(), waited for by object and by name; handlers plain / generator / raising)
    for sh in sorted(AWAIT_SHAPES):
        for shapes in ([sh], [sh, 'R'], ['X', sh], [sh, sh]):
            cs.append({'handlers': mk_handlers('e', shapes), 'fires': [{'name': 'e', 'flags': ALLF}]})
        cs.append({'handlers': mk_handlers('e', [sh, 'G1v']), 'fires': [{'name': 'e', 'flags': {'success': True}}], 'under_run': True})
        cs.append({'handlers': mk_handlers('e', [sh]), 'fires': [{'name': 'e', 'flags': ALLF}], 'mk': 'attr'})
    # the application's own handlers of `exception` events - which may fail themselves: an `exception` event is an event like any other
    EH = [{'hid': 90, 'name': 'exception', 'prio': 10, 'gen': False, 'body': [['raise_first_level']], 'shape': 'EX1'},
          {'hid': 91, 'name': 'exception', 'prio': 5, 'gen': False, 'body': [['ret', 'noted']], 'shape': 'R'}]
    for shapes in (['X'], ['X', 'R'], ['GX1', 'R'], ['R', 'X', 'G1v'], ['X', 'X'], ['R']):
        for fl in (ALLF, {'failure': True}, {}):
            cs.append({'handlers': mk_handlers('e', shapes) + [dict(h) for h in EH], 'fires': [{'name': 'e', 'flags': fl}]})
            cs.append({'handlers': mk_handlers('e', shapes) + [dict(EH[0])], 'fires': [{'name': 'e', 'flags': fl}, {'name': 'e', 'flags': fl}]})
    for k in range(2, 13):
        for sh in ('GT%d' % k, 'GW%d' % k):
            cs.append({'handlers': mk_handlers('e', [sh]), 'fires': [{'name': 'e', 'flags': ALLF}], 'under_run': True})
            cs.append({'handlers': mk_handlers('e', [sh, 'R']), 'fires': [{'name': 'e', 'flags': {'success': True}}], 'under_run': True})
    # events whose name is not the name of their class (a class with a name attribute; an instance renamed after construction)
    for mk in ('attr', 'renamed'):
        for shapes in (['R'], ['X', 'G1v'], ['G2vv', 'R'], ['GX1'], ['N'], ['RV', 'R'], ['G1v', 'X', 'R']):
            for fl in (ALLF, {'success': True}, {'failure': True}, {}):
                cs.append({'handlers': mk_handlers('e', shapes), 'fires': [{'name': 'e', 'flags': fl}], 'mk': mk})
        cs.append({'handlers': mk_handlers('e', ['GCn', 'R']), 'fires': [{'name': 'e', 'flags': ALLF}], 'mk': mk, 'refire': 1})
        cs.append({'handlers': mk_handlers('e', ['GTC', 'R']), 'fires': [{'name': 'e', 'flags': ALLF}], 'mk': mk, 'under_run': True})
    # success_channels override
    cs.append({'handlers': mk_handlers('e', ['R', 'G1v']), 'fires': [{'name': 'e', 'flags': ALLF, 'success_channels': ['other']}]})
    cs.append({'handlers': mk_handlers('e', ['X', 'G1v']), 'fires': [{'name': 'e', 'flags': ALLF, 'success_channels': ['other']}]})
    # child events fired from handlers, parent raising after firing
    child = {'name': 'c', 'flags': ALLF}
    hs = mk_handlers('e', ['R', 'X', 'G1v'], extra={0: [['fire', child]], 1: [['fire', child]], 2: [['fire', child]]}) + \
        mk_handlers('c', ['X', 'G2vv', 'R'], hid0=10, extra={1: [['fire', {'name': 'd', 'flags': ALLF}]]}) + mk_handlers('d', ['GX1', 'N'], hid0=20)
    cs.append({'handlers': hs, 'fires': [{'name': 'e', 'flags': ALLF}, {'name': 'c', 'flags': {'success': True}}]})
    return cs


def exhaustive(k):
    names = sorted(SHAPES)
    for shapes in itertools.product(names, repeat=k):
        yield {'handlers': mk_handlers('e', list(shapes)), 'fires': [{'name': 'e', 'flags': ALLF}]}
        if k <= 2:
            yield {'handlers': mk_handlers('e', list(shapes)), 'fires': [{'name': 'e', 'flags': ALLF}], 'refire': 1}


def gen_case(rng):
    names = ['e', 'c', 'd', 'f']
    depth = {n: i for i, n in enumerate(names)}
    handlers = []
    hid = 1
    for nm in names:
        shapes = [rng.choice(sorted(SHAPES)) if rng.random() < 0.88 else rng.choice(sorted(AWAIT_SHAPES)) for _ in range(rng.randint(1, 5))]
        extra = {}
        for i in range(len(shapes)):
            if depth[nm] < 3 and rng.random() < 0.35:
                tgt = rng.choice(names[depth[nm] + 1:])
                fl = {f: rng.random() < 0.5 for f in ('success', 'failure', 'notify')}
                extra[i] = [['fire', {'name': tgt, 'flags': fl}]]
                if rng.random() < 0.2:
                    extra[i].append(['flush'])      # ... and flushes the queue itself before it goes on (the fired event is handled inside this handler)
        handlers += mk_handlers(nm, shapes, hid0=hid, extra=extra)
        hid += len(shapes)
    fires = []
    for _ in range(rng.randint(1, 3)):
        fl = {f: rng.random() < 0.6 for f in ('success', 'failure', 'notify')}
        spec = {'name': rng.choice(names[:2]), 'flags': fl}
        if rng.random() < 0.2:
            spec['success_channels'] = ['other']
        fires.append(spec)
    if rng.random() < 0.2:
        # the application handles `exception` events itself, and one of those handlers may fail when it is told about an ordinary failure
        handlers.append({'hid': hid, 'name': 'exception', 'prio': rng.choice([10, 0, -3]), 'gen': False, 'body': [['raise_first_level']], 'shape': 'EX1'})
        if rng.random() < 0.6:
            handlers.append({'hid': hid + 1, 'name': 'exception', 'prio': rng.choice([5, 0, -5]), 'gen': False, 'body': [['ret', 'noted']], 'shape': 'R'})
    case = {'handlers': handlers, 'fires': fires}
    if rng.random() < 0.15:
        # some events go to a name nobody handles at all
        case['unprobed'] = ['u']
        for h in handlers:
            for a in h['body']:
                if a[0] == 'fire' and rng.random() < 0.3:
                    a[1] = dict(a[1], name='u')
        if rng.random() < 0.6:
            fires.insert(rng.randint(0, len(fires)), {'name': 'u', 'flags': {f: rng.random() < 0.7 for f in ('success', 'failure', 'notify')}})
    if rng.random() < 0.3:
        case['mk'] = rng.choice(['attr', 'renamed'])
    if rng.random() < 0.3:
        case['refire'] = rng.choice([1, 1, 2])
    elif rng.random() < 0.2:
        # under run(), some handlers replaced by ones whose call()/wait() times out
        case['under_run'] = True
        for h in handlers:
            if h['name'] != 'exception' and rng.random() < 0.3:
                sh = rng.choice(sorted(TIMEOUT_SHAPES))
                gen, body = TIMEOUT_SHAPES[sh]
                h.update(gen=gen, body=[list(a) for a in body], shape=sh)
    return case


def plan(tier, seed):
    if tier == 'quick':
        return ([{'kind': 'corpus'}, {'kind': 'exh', 'k': 2, 'part': 0, 'parts': 1}] +
                [{'kind': 'exh', 'k': 3, 'part': i, 'parts': 6} for i in range(6)] +
                [{'kind': 'random', 'seed': seed * 1000 + i, 'n': 150} for i in range(8)])
    return ([{'kind': 'corpus'}, {'kind': 'exh', 'k': 2, 'part': 0, 'parts': 1}] +
            [{'kind': 'exh', 'k': 3, 'part': i, 'parts': 8} for i in range(8)] +
            [{'kind': 'exh', 'k': 4, 'part': i, 'parts': 24} for i in range(24)] +
            [{'kind': 'random', 'seed': seed * 100000 + i, 'n': 2500} for i in range(24)])


def evaluate_case(b, case):
    try:
        with cpu_budget(30):
            problems, info, w = run_case(case)
    except BudgetExceeded as e:
        b.fail(case, 'NO_PROGRESS', {'error': str(e), 'note': 'the dispatcher/loop did not terminate on a finite program'}, dedup='')
        return
    except Exception as e:
        import traceback
        b.fail(case, 'HARNESS_RAISED', {'error': repr(e), 'tb': traceback.format_exc(limit=8)}, dedup=type(e).__name__)
        return
    if problems is None:
        b.inconclusive_because(info['inconclusive'])
        return
    b.case(case, nontrivial=info.get('nontrivial', False))
    for m in info.get('marks', ()):
        b.reached(m)
    first = {}
    for clause, detail in problems:
        first.setdefault(clause, detail)
    for clause, n in info.get('counts', {}).items():
        good = n - sum(1 for c, _ in problems if c == clause)
        if good > 0:
            b.ok(clause, good)
    for clause, detail in first.items():
        b.fail(case, clause, detail, dedup='')


def run_batch(spec):
    import circuits  # noqa: F401
    b = Batch(PROPERTY)
    if spec['kind'] == 'corpus':
        for case in corpus():
            evaluate_case(b, case)
    elif spec['kind'] == 'exh':
        for i, case in enumerate(exhaustive(spec['k'])):
            if i % spec['parts'] == spec['part']:
                evaluate_case(b, case)
    else:
        rng = random.Random(spec['seed'])
        for _ in range(spec['n']):
            evaluate_case(b, gen_case(rng))
    return b.result()


def run_replay(case):
    b = Batch(PROPERTY)
    evaluate_case(b, unjson(case))
    return b.result()

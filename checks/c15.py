"""C15 - every HTTP response the server writes is a well-formed, self-delimiting message with the
exact body; HEAD/1xx/204/304 carry no body; the connection is closed iff that was announced; on a
kept-alive connection every further request gets its own correct response.

Technique (DESIGN.md 2.6, section 4 C15): the real ``circuits.web.http.HTTP`` + ``Dispatcher`` + a
``Controller`` class generated from a declarative case are driven through ``vlib.inject.Wire``.  The
bytes/close events each request produced are decoded by two independent decoders - the strict
RFC 7230 parser of ``vlib.ref_http15`` and ``http.client.HTTPResponse`` - and compared with what the
generated application produced (status, explicitly set headers, body bytes: the ghost is the
declarative case itself).  The next request of a sequence is injected only after the previous
response is complete; the harness plays an honest client (it reconnects when the response announced
a close or the server closed).
"""
import copy
import os
import random
import re
import shutil
import tempfile

from vlib.batch import Batch, unjson

PROPERTY = 'C15'
LEVEL = 'exploration'
RULE = ('full product of single requests {str (ascii / non-ascii / >64 KiB), bytes (binary / >64 KiB), empty str/bytes, list, '
        'empty list, generator handler (yield), response.body = generator (mixed str/bytes/empty items, first item empty, no '
        'items, only empty items, >64 KiB, one 19-byte item), io.BytesIO, empty BytesIO, real temp file of 70000 bytes, raw streams whose read(n) returns fewer than n bytes before the end, real file '
        'with application-set Content-Length, pushed stream events} x {returned / assigned to response.body} x response.stream '
        '{off, on} x status {200, 201, 204, 304, 404, 500} x {HTTP/1.0, HTTP/1.1} x Connection {keep-alive, close, absent} x '
        '{GET, HEAD, POST}, plus error responses (notfound(), raise, httperror), plus seeded random sequences of 1-4 such requests '
        'on one connection (thorough: all sequences of length <= 3 over a 24-letter alphabet); a fixed corpus reaches every anchored '
        'mechanism. non-trivial = at least one response of the case was decoded by BOTH decoders and compared with the '
        'application ghost while it carried body bytes, fell under a no-body rule (HEAD/1xx/204/304) or answered a further request '
        'on a kept-alive connection; distinct = hash of the declarative case without its echo tag')
ASSUMPTIONS = [
    'requests are delivered in one read each (segmentation is C13); the next request is injected only after the previous response settled (no pipelining)',
    'the harness plays an honest client: it abandons the connection (disconnect + fresh socket) when the response announced close, the server closed, or the response did not decode',
    'write events carry whole bodies (no kernel socket buffer): ">64 KiB" exercises the framing decisions, not TCPServer buffering (C11); '
    'a sample of the failure-free cases is replayed against a real TCPServer over 127.0.0.1 (stepped, no thread) and must carry the same bytes and closes',
    'response.stream = True with an EMPTY sized body and no stream events is an application that never finishes its response; it is not generated',
    'pushed stream events (the application fires stream(response, data) itself) are only combined with body-bearing statuses, GET/POST and non-empty chunks: '
    'an application that pushes body data for a HEAD/204/304 response is taken to be at fault itself; 1xx is exercised with status 101 in the corpus only',
    'a failure is attributed to an open known finding only if (a) the request structurally carries that trigger, (b) the failing clauses are within the finding\'s '
    'signature and (c) a twin with only that trigger neutralised no longer shows those failures; remaining/new failures are explained recursively the same way or stay violations',
]
REQUIRED = ['another_connection_mid_request_meanwhile', 'connection_option_not_in_lower_case', 'redirect_for_a_target_not_in_normal_form', 'request_following_such_a_redirect', 'framing_length', 'framing_chunked', 'framing_close', 'framing_none_head', 'framing_none_status', 'chunked_multi_chunk',
            'stream_events', 'body_gt_64k', 'nonascii_str_body', 'generator_empty_item', 'file_body_bytesio', 'file_body_real', 'file_body_short_reads',
            'keepalive_further_request', 'keepalive_http10', 'close_announced_and_closed', 'kept_open_unannounced',
            'reconnect_after_close', 'head_requests', 'post_requests', 'error_page_response', 'app_content_length',
            'both_decoders_compared', 'ref_selfcheck_vectors', 'sequence_len_ge_3', 'loopback_crosschecked']
REQUIRED_OBLIGATIONS = ['WELL_FORMED', 'HTTPCLIENT_DECODES', 'DECODERS_AGREE', 'SELF_DELIMITING', 'NO_BODY', 'STATUS_EXACT',
                        'HEADERS_EXACT', 'BODY_EXACT', 'FRAMING_LEGAL', 'CLOSE_IFF_ANNOUNCED', 'CLOSE_WISH',
                        'NOTHING_AFTER_CLOSE', 'KEEPALIVE_NEXT', 'ONE_RESPONSE', 'RIGHT_CONNECTION', 'LOOPBACK_AGREES']
WORKER_TIMEOUT = {'quick': 300, 'thorough': 1500}

STATUSES = [200, 201, 204, 304, 404, 500]
NOBODY = (204, 304)
SIZED = ('str', 'bytes', 'list', 'yield')
RAISES = ('raise', 'raise-request')     # a Controller method raises / a handler of the request event itself raises
MAX_TICKS = 100
GUARDS = ('/./', '/a/../', '//', '/a//', '/%2e/', '/../')

K_HEAD = 'http.head-skips-cleanup'
K_NOBODY = 'http.nobody-status-sends-body'
K_CHUNKED_EMPTY = 'http.chunked-empty-body-no-terminator'
K_EMPTY_FIRST = 'http.stream-empty-first-chunk'
K_PUSH = 'http.push-stream-content-length-zero'
K_STREAM_SIZED = 'http.stream-flag-sized-body'
K_RAISE = 'http.handler-exception-double-response'

# clauses a failure attributed to the finding may consist of (its signature)
SIGNATURE = {
    K_HEAD: {'CLOSE_IFF_ANNOUNCED'},            # at the HEAD request; {'KEEPALIVE_NEXT'} at the request after it
    K_NOBODY: {'NO_BODY'},
    K_CHUNKED_EMPTY: {'WELL_FORMED', 'HTTPCLIENT_DECODES'},
    K_EMPTY_FIRST: {'SELF_DELIMITING', 'BODY_EXACT'},
    K_PUSH: {'SELF_DELIMITING', 'BODY_EXACT'},
    # endless 500 loop on the pinned tree; once a failed request is answered only once (the proposed fix of
    # K_RAISE) the loop ends after the first response's header block + two 500 responses - same mechanism
    K_STREAM_SIZED: {'ONE_RESPONSE', 'BODY_EXACT', 'SELF_DELIMITING', 'NO_BODY', 'NOTHING_AFTER_CLOSE', 'CLOSE_IFF_ANNOUNCED'},
    K_RAISE: {'SELF_DELIMITING', 'NOTHING_AFTER_CLOSE'},
}


# ------------------------------------------------------------------------------------------------
# declarative values
# ------------------------------------------------------------------------------------------------
def mat(x):
    """materialise an item: str | bytes | {'rep': str|bytes, 'n': int}"""
    if isinstance(x, dict):
        return x['rep'] * x['n']
    return x


def enc(x):
    x = mat(x)
    return x if isinstance(x, bytes) else x.encode('utf-8')


class ShortReader:
    """A raw stream (pipe, socket file, io.RawIOBase): read(n) may return fewer than n bytes although more follow; only b'' is the end."""

    def __init__(self, data, sizes):
        self.data, self.sizes, self.pos, self.calls, self.closed = data, list(sizes), 0, 0, False

    def read(self, n=-1):
        if self.pos >= len(self.data):
            return b''
        k = self.sizes[self.calls % len(self.sizes)]
        self.calls += 1
        if n is not None and n >= 0:
            k = min(k, n)
        chunk = self.data[self.pos:self.pos + k]
        self.pos += k
        return chunk

    def close(self):
        self.closed = True


def body_items(body):
    if body is None:
        return []
    if body['kind'] in ('str', 'bytes', 'file'):
        return [body['v']]
    return body['items']


def expected_body(body):
    return b''.join(enc(i) for i in body_items(body))


def echo_of(case, idx):
    return '%s-q%d' % (case['tag'], idx)


def explicit_headers(case, idx, r):
    if r.get('guard'):
        return []        # the server answers by itself, the application is never asked
    return [['X-Case', echo_of(case, idx)]] + [list(h) for h in r.get('hdrs', [])]


def expected_status(r):
    return 301 if r.get('guard') else r['status']


def R(method='GET', proto='1.1', conn=None, status=200, how='ret', body=None, stream=False, cl=False, hdrs=(), stale_cl=None):
    r = {'method': method, 'proto': proto, 'conn': conn, 'status': status, 'how': how, 'body': body,
         'stream': stream, 'cl': cl, 'hdrs': [list(h) for h in hdrs]}
    if stale_cl is not None:
        r['stale_cl'] = stale_cl
    return r


def B(kind, v=None, items=None, real=False, short=None):
    b = {'kind': kind}
    if kind in ('str', 'bytes', 'file'):
        b['v'] = v
        if kind == 'file':
            b['real'] = real
            if short:
                b['short'] = list(short)     # a raw stream: read(n) hands out these many bytes at a time (fewer than asked for, yet not the end)
    else:
        b['items'] = list(items or [])
    return b


def request_bytes(idx, r):
    # guard: a request target that is not in normal form (/./r3, /a/../r3, //r3): the server answers with a redirect to the normal form
    head = '%s %sr%d HTTP/%s\r\nHost: c15.test\r\n' % (r['method'], r.get('guard') or '/', idx, r['proto'])
    if r['conn']:
        head += 'Connection: %s\r\n' % r['conn']
    body = b''
    if r['method'] == 'POST':
        body = b'payload-of-request-%d' % idx
        head += 'Content-Type: application/octet-stream\r\nContent-Length: %d\r\n' % len(body)
    return head.encode('ascii') + b'\r\n' + body


# ------------------------------------------------------------------------------------------------
# the harness: real HTTP + Dispatcher + a Controller generated from the case
# ------------------------------------------------------------------------------------------------
_H = {}
_TMP = {'dir': None}


def tmpdir():
    if _TMP['dir'] is None:
        _TMP['dir'] = tempfile.mkdtemp(prefix='c15-', dir='/var/tmp')
    return _TMP['dir']


def cleanup_tmp():
    if _TMP['dir'] is not None:
        shutil.rmtree(_TMP['dir'], ignore_errors=True)
        _TMP['dir'] = None


def harness():
    """import circuits lazily (worker side only) and build the harness classes once."""
    if _H:
        return _H
    from circuits import BaseComponent, handler
    from circuits.net.events import disconnect, read
    from circuits.web import Controller
    from circuits.web.dispatchers import Dispatcher
    from circuits.web.errors import httperror
    from circuits.web.events import stream
    from circuits.web.http import HTTP
    from vlib.inject import FakeSock, Wire

    class Probe(BaseComponent):
        """counts the framework's own stream/response events (coverage only)"""
        channel = 'web'

        def __init__(self):
            super().__init__()
            self.streams = 0
            self.responses = 0

        @handler('stream', priority=50)
        def _c15_on_stream(self, res, data):
            self.streams += 1

        @handler('response', priority=50)
        def _c15_on_response(self, res):
            self.responses += 1

    class RequestLevel(BaseComponent):
        """a handler of the ``request`` event itself (the way Static / tools are written) that fails"""
        channel = 'web'

        def __init__(self, table):
            super().__init__()
            self.table = table      # path -> prelude(response)

        @handler('request', priority=1.0)
        def _c15_on_request(self, event, req, res, *args):
            if req.path in self.table:
                event.stop()
                self.table[req.path](res)
                raise RuntimeError('c15 request-level failure')

    _H.update(RequestLevel=RequestLevel, Controller=Controller, Dispatcher=Dispatcher, HTTP=HTTP, Wire=Wire, FakeSock=FakeSock, Probe=Probe,
              httperror=httperror, stream=stream, disconnect=disconnect, read=read)
    return _H


def _gen(items):
    for it in items:
        yield mat(it)


def make_handler(world, case, idx, r):
    H = harness()
    body = r['body']
    kind = body['kind'] if body else None
    how = r['how']
    hdrs = explicit_headers(case, idx, r)
    exp_len = len(expected_body(body)) if body else 0

    def prelude(res):
        if r['status'] != 200:
            res.status = r['status']
        for k, v in hdrs:
            res.headers[k] = v
        if r.get('stream'):
            res.stream = True
        if r.get('cl'):
            res.headers['Content-Length'] = str(exp_len)
        if r.get('stale_cl') is not None:
            # the application announces the length of the payload it is ABOUT to send - and then the request ends in an error page instead
            res.headers['Content-Length'] = str(r['stale_cl'])

    def produce():
        if kind in ('str', 'bytes'):
            return mat(body['v'])
        if kind == 'list':
            return [mat(i) for i in body['items']]
        if kind == 'gen':
            return _gen(body['items'])
        if kind == 'file':
            data = enc(body['v'])
            if body.get('real'):
                path = os.path.join(tmpdir(), 'body-%d-%d.bin' % (world.serial, idx))
                with open(path, 'wb') as f:
                    f.write(data)
                return open(path, 'rb')
            if body.get('short'):
                return ShortReader(data, body['short'])
            import io
            return io.BytesIO(data)
        raise AssertionError(kind)

    if kind == 'yield':
        # the handler itself is a generator (tests/web/test_yield.py style); request/response are only
        # reachable through the event there
        def h(self, event):
            prelude(event.args[1])
            for it in body['items']:
                yield mat(it)
    elif how == 'notfound':
        def h(self):
            prelude(self.response)
            return self.notfound()
    elif how == 'raise':
        def h(self):
            prelude(self.response)
            raise RuntimeError('c15 application failure')
    elif how == 'raise-request':
        world.request_level['/r%d' % idx] = prelude

        def h(self):
            raise AssertionError('the request-level handler stops the event before the dispatcher sees it')
    elif how == 'httperror':
        def h(self):
            prelude(self.response)
            return H['httperror'](self.request, self.response, r['status'])
    elif kind == 'push':
        def h(self):
            prelude(self.response)
            self.response.stream = True
            world.pushed[idx] = self.response
            return self.response
    elif how == 'set':
        def h(self):
            prelude(self.response)
            self.response.body = produce()
            return self.response
    else:
        def h(self):
            prelude(self.response)
            return produce()
    h.__name__ = 'r%d' % idx
    return h


class World:
    serial = 0

    def __init__(self, case):
        H = harness()
        World.serial += 1
        self.serial = World.serial
        self.case = case
        self.pushed = {}
        self.request_level = {}
        self.w = w = H['Wire']()
        self.http = H['HTTP'](w).register(w)
        H['Dispatcher']().register(w)
        self.probe = H['Probe']().register(w)
        self.register_app(w)
        w.settle()
        w.take()

    def register_app(self, root):
        """generate the Controller class of this case (one exposed method per request) and register it"""
        H = harness()
        dct = {'channel': '/'}
        for idx, r in enumerate(self.case['reqs']):
            dct['r%d' % idx] = make_handler(self, self.case, idx, r)
        App = type(H['Controller'])('C15App', (H['Controller'],), dct)
        App().register(root)
        if self.request_level:
            H['RequestLevel'](self.request_level).register(root)

    def _settle(self):
        try:
            self.w.settle(MAX_TICKS)
            return True
        except RuntimeError:
            return False

    def run(self):
        H = harness()
        w = self.w
        obs = []
        sock = None
        conn_no = -1
        # case option 'neighbour': ANOTHER connection of the same server is in the middle of a request of its own while each request of the
        # case is received, answered and (perhaps) streamed; it completes afterwards.  Nothing of it shows on the connection under test.
        nsock = H['FakeSock'](('10.9.9.9', 999)) if self.case.get('neighbour') else None
        NB = b'GET /zz-neighbour HTTP/1.1\r\nHost: n\r\nX-N: 1\r\n\r\n'
        for idx, r in enumerate(self.case['reqs']):
            fresh = sock is None
            if fresh:
                conn_no += 1
                sock = H['FakeSock'](('127.0.0.1', 40000 + conn_no))
            w.exceptions.clear()
            s0 = self.probe.streams
            if nsock is not None:
                w.fire(H['read'](nsock, NB[:len(NB) // 2]), 'web')
                self._settle()
            w.fire(H['read'](sock, request_bytes(idx, r)), 'web')
            settled = self._settle()
            if settled and idx in self.pushed:
                res = self.pushed.pop(idx)
                for it in list(r['body']['items']) + [None]:
                    w.fire(H['stream'](res, None if it is None else mat(it)), 'web')
                    settled = self._settle()
                    if not settled:
                        break
            taken = w.take()
            if nsock is not None and settled:
                self.neighbour_cycles = getattr(self, 'neighbour_cycles', 0) + 1
                w.fire(H['read'](nsock, NB[len(NB) // 2:]), 'web')
                self._settle()
                late = w.take()
                taken += [e for e in late if e[1] is not nsock]       # (anything the neighbour's completion puts on OUR connection counts)
                if any(e[0] == 'close' and e[1] is nsock for e in late) or not any(e[0] == 'write' and e[1] is nsock for e in late):
                    w.fire(H['disconnect'](nsock), 'web')
                    self._settle()
                    w.take()
                    nsock.close()
                    nsock = H['FakeSock'](('10.9.9.9', 999))
            events = [(e[0], e[2] if e[0] == 'write' else None) for e in taken if e[1] is sock]
            o = {'idx': idx, 'conn': conn_no, 'fresh': fresh, 'events': events, 'unsettled': not settled,
                 'elsewhere': sum(1 for e in taken if e[1] is not sock and e[1] is not nsock),
                 'exceptions': len(w.exceptions), 'stream_events': self.probe.streams - s0}
            obs.append(o)
            if not settled:
                break
            keeps = self.client_keeps_connection(r, o)
            o['kept'] = keeps
            if not keeps:
                # what a socket server does once the connection is gone
                w.fire(H['disconnect'](sock), 'web')
                self._settle()
                w.take()
                try:
                    sock.close()
                except OSError:
                    pass
                sock = None
        if sock is not None:
            try:
                sock.close()
            except OSError:
                pass
        if nsock is not None:
            nsock.close()
        return obs

    @staticmethod
    def client_keeps_connection(r, o):
        from vlib import ref_http15 as ref
        raw = b''.join(d for k, d in o['events'] if k == 'write')
        if any(k == 'close' for k, _ in o['events']):
            return False
        try:
            p = ref.parse_response(raw, r['method'])
        except ref.ParseError:
            return False
        return not p['announces_close'] and p['leftover'] == b''


# ------------------------------------------------------------------------------------------------
# the oracle
# ------------------------------------------------------------------------------------------------
_ECHO = re.compile(rb'(?im)^X-Case:[ \t]*([^\r\n]*?)[ \t]*\r?$')


def judge_request(case, idx, r, o, marks):
    """-> (failures [(idx, clause, detail)], oks {clause: n}) for one request/response exchange."""
    from vlib import ref_http15 as ref
    fails, oks = [], {}

    def F(clause, **detail):
        fails.append((idx, clause, detail))

    def OK(clause):
        oks[clause] = oks.get(clause, 0) + 1

    method = r['method']
    writes = [d for k, d in o['events'] if k == 'write']
    raw = b''.join(writes)
    if o['unsettled']:
        F('ONE_RESPONSE', note='the server never stops producing output for this one request',
          status_lines_written=sum(1 for d in writes if d.startswith(b'HTTP/1.')), ticks=MAX_TICKS, head=raw[:160])
        return fails, oks
    OK('ONE_RESPONSE')
    if o['elsewhere']:
        F('RIGHT_CONNECTION', note='write/close events addressed to a socket other than the one the request arrived on',
          events=o['elsewhere'])
    else:
        OK('RIGHT_CONNECTION')
    own = echo_of(case, idx)
    if r.get('guard'):
        marks.add('redirect_for_a_target_not_in_normal_form')
    if idx and case['reqs'][idx - 1].get('guard'):
        marks.add('request_following_such_a_redirect')
    if not o['fresh']:
        marks.add('keepalive_further_request')
        if r['proto'] == '1.0':
            marks.add('keepalive_http10')
        m = _ECHO.search(raw)
        if raw == b'':
            F('KEEPALIVE_NEXT', note='no response at all to a further request on a kept-alive connection')
            return fails, oks
        if m is not None and m.group(1).decode('latin-1') != own:
            F('KEEPALIVE_NEXT', note='a further request on a kept-alive connection was answered with the response of another request',
              stale_echo=m.group(1).decode('latin-1'), own_echo=own, head=raw[:200])
            return fails, oks
        OK('KEEPALIVE_NEXT')

    # -- both decoders --------------------------------------------------------------------------
    p = h = None
    try:
        p = ref.parse_response(raw, method)
        OK('WELL_FORMED')
    except ref.ParseError as e:
        F('WELL_FORMED', error=str(e), head=raw[:200], tail=raw[-60:], written=len(raw))
    try:
        h = ref.httpclient_decode(raw, method)
        OK('HTTPCLIENT_DECODES')
    except Exception as e:  # whatever the stdlib client raises
        F('HTTPCLIENT_DECODES', error=repr(e)[:200], head=raw[:200], written=len(raw))
    if p and h:
        marks.add('both_decoders_compared')
        diffs = []
        for f in ('version', 'status', 'reason', 'body', 'leftover', 'announces_close'):
            if p[f] != h[f]:
                diffs.append((f, repr(p[f])[:80], repr(h[f])[:80]))
        ph = sorted((k.lower(), v) for k, v in p['headers'])
        hh = sorted((k.lower(), v) for k, v in h['headers'])
        if ph != hh:
            diffs.append(('headers', repr(ph)[:200], repr(hh)[:200]))
        if diffs:
            F('DECODERS_AGREE', diffs=diffs)
        else:
            OK('DECODERS_AGREE')
    decs = [d for d in (p, h) if d]
    if not decs:
        announced = None
        try:
            announced = ref.head_announces_close(raw, method)
        except ref.ParseError:
            pass
    else:
        d0 = decs[0]
        announced = d0['announces_close']
        status = d0['status']
        nobody = ref.no_body(method, status)
        # -- delimiting ---------------------------------------------------------------------------
        left = [d['leftover'] for d in decs if d['leftover']]
        if nobody:
            marks.add('framing_none_head' if method == 'HEAD' else 'framing_none_status')
            if left:
                F('NO_BODY', note='bytes follow the header block of a response that must not have a body', method=method,
                  status=status, extra_bytes=len(left[0]), extra=left[0][:80])
            else:
                OK('NO_BODY')
        else:
            if left:
                F('SELF_DELIMITING', note='bytes remain on the connection after the end of the message', extra_bytes=len(left[0]),
                  extra=left[0][:80], framing=p['framing'] if p else None)
            else:
                OK('SELF_DELIMITING')
        # -- what the application produced ------------------------------------------------------------
        if all(d['status'] == expected_status(r) for d in decs):
            OK('STATUS_EXACT')
        else:
            F('STATUS_EXACT', expected=expected_status(r), observed=[d['status'] for d in decs])
        bad = []
        for name, value in explicit_headers(case, idx, r):
            for d in decs:
                got = [v for k, v in d['headers'] if k.lower() == name.lower()]
                if got != [value]:
                    bad.append((name, value, got))
        if bad:
            F('HEADERS_EXACT', mismatches=bad[:4])
        else:
            OK('HEADERS_EXACT')
        if r['body'] is not None and not nobody:
            exp = expected_body(r['body'])
            wrong = [d for d in decs if d['body'] != exp]
            if wrong:
                F('BODY_EXACT', expected_len=len(exp), observed_len=len(wrong[0]['body']), expected_head=exp[:60],
                  observed_head=wrong[0]['body'][:60])
            else:
                OK('BODY_EXACT')
                if len(exp) > 65536:
                    marks.add('body_gt_64k')
                if exp and r.get('cl'):
                    marks.add('app_content_length')
        elif r['body'] is None:
            marks.add('error_page_response')
        # -- framing legal for the request's protocol version ------------------------------------------
        if p:
            marks.add({'length': 'framing_length', 'chunked': 'framing_chunked', 'close': 'framing_close',
                       'none': 'framing_none'}[p['framing']])
            if len([s for s in p['chunk_sizes'] if s]) >= 2:
                marks.add('chunked_multi_chunk')
            te = [v for k, v in p['headers'] if k.lower() == 'transfer-encoding']
            if te and (r['proto'] == '1.0' or p['version'] < (1, 1)):
                F('FRAMING_LEGAL', note='Transfer-Encoding sent in answer to an HTTP/1.0 request / in an HTTP/1.0 response',
                  request_proto=r['proto'], response_version=list(p['version']), transfer_encoding=te)
            elif p['version'] > tuple(int(x) for x in r['proto'].split('.')) and p['framing'] == 'chunked':
                F('FRAMING_LEGAL', note='chunked body for an HTTP/1.0 client')
            else:
                OK('FRAMING_LEGAL')
    # -- connection management ----------------------------------------------------------------------
    kinds = [k for k, _ in o['events']]
    closed = 'close' in kinds
    if closed and 'write' in kinds[kinds.index('close'):]:
        F('NOTHING_AFTER_CLOSE', note='bytes written to the connection after close was requested',
          events=[k for k in kinds][:12])
    else:
        OK('NOTHING_AFTER_CLOSE')
    if announced is not None:
        if announced != closed:
            F('CLOSE_IFF_ANNOUNCED', announced=announced, closed=closed, method=method,
              note='close announced but never requested' if announced else 'connection closed although the response promised to keep it open')
        else:
            OK('CLOSE_IFF_ANNOUNCED')
            marks.add('close_announced_and_closed' if closed else 'kept_open_unannounced')
        conn = (r['conn'] or '').lower()        # connection options are case-insensitive
        if r['conn'] and r['conn'] != conn:
            marks.add('connection_option_not_in_lower_case')
        wants_close = (r['proto'] == '1.1' and conn == 'close') or (r['proto'] == '1.0' and conn != 'keep-alive')
        if wants_close:
            if announced:
                OK('CLOSE_WISH')
            else:
                F('CLOSE_WISH', note='the request asked for / implied close but the response announces a persistent connection',
                  proto=r['proto'], connection=r['conn'])
    return fails, oks


def run_case(case):
    """-> dict(failures, oks, marks, nontrivial, obs)"""
    world = World(case)
    obs = world.run()
    marks = set()
    if getattr(world, 'neighbour_cycles', 0):
        marks.add('another_connection_mid_request_meanwhile')
    failures, oks = [], {}
    nontrivial = False
    reqs = case['reqs']
    for o in obs:
        idx = o['idx']
        r = reqs[idx]
        f, k = judge_request(case, idx, r, o, marks)
        failures.extend(f)
        for c, n in k.items():
            oks[c] = oks.get(c, 0) + n
        if o['stream_events']:
            marks.add('stream_events')
        if r['method'] == 'HEAD':
            marks.add('head_requests')
        if r['method'] == 'POST':
            marks.add('post_requests')
        if not o['fresh'] or (k.get('DECODERS_AGREE') and (k.get('NO_BODY') or (k.get('BODY_EXACT') and expected_body(r['body'])))):
            nontrivial = True
        if o['fresh'] and o['conn'] > 0:
            marks.add('reconnect_after_close')
        b = r['body']
        if b and not f:
            if b['kind'] == 'file':
                marks.add('file_body_real' if b.get('real') else 'file_body_bytesio')
                if b.get('short'):
                    marks.add('file_body_short_reads')
            if b['kind'] in ('gen', 'yield', 'list') and any(enc(i) == b'' for i in b['items']) and expected_body(b):
                marks.add('generator_empty_item')
            if any(isinstance(mat(i), str) and enc(i) != mat(i).encode('ascii', 'replace') for i in body_items(b)):
                marks.add('nonascii_str_body')
    if len(obs) >= 3:
        marks.add('sequence_len_ge_3')
    return {'failures': failures, 'oks': oks, 'marks': marks, 'nontrivial': nontrivial, 'obs': obs}


# ------------------------------------------------------------------------------------------------
# loopback cross-check (DESIGN.md 2.5/2.6): the injection harness and real sockets must agree
# ------------------------------------------------------------------------------------------------
_DATE = re.compile(rb'(?im)^Date:[^\r\n]*\r\n')


class LoopWorld(World):
    """The same generated application behind a real ``TCPServer`` on 127.0.0.1 (Select poller), stepped
    with ``tick(0)`` from this thread; the peer is a raw non-blocking socket owned by the harness."""

    def __init__(self, case):
        H = harness()
        from circuits import Manager
        from circuits.net.sockets import TCPServer
        World.serial += 1
        self.serial = World.serial
        self.case = case
        self.pushed = {}
        self.request_level = {}
        self.root = root = Manager()
        from vlib.netwait import retry_addr_in_use
        self.server = retry_addr_in_use(lambda: TCPServer(('127.0.0.1', 0), channel='web')).register(root)
        H['HTTP'](self.server).register(root)
        H['Dispatcher']().register(root)
        self.register_app(root)
        from vlib.driver import mark_running
        mark_running(root)
        for _ in range(10):
            root.tick(0)

    def run(self, cap=600):
        """-> [(bytes received, server closed, complete)] per request"""
        import select
        import socket
        from vlib import ref_http15 as ref
        H = harness()
        root = self.root
        out = []
        cli = None
        try:
            for idx, r in enumerate(self.case['reqs']):
                if cli is None:
                    cli = socket.create_connection(('127.0.0.1', self.server.port))
                    cli.setblocking(False)
                cli.sendall(request_bytes(idx, r))
                acc, eof, p, extra, pushed = b'', False, None, 0, False
                for n in range(cap):
                    root.tick(0)
                    if idx in self.pushed and not pushed and not len(root):
                        pushed = True
                        res = self.pushed.pop(idx)
                        for it in list(r['body']['items']) + [None]:
                            root.fire(H['stream'](res, None if it is None else mat(it)), 'web')
                    # no sleep while things move; a short select once the exchange idles (never decides a verdict)
                    if select.select([cli], [], [], 0 if n < 50 else 0.02)[0]:
                        try:
                            d = cli.recv(1 << 20)
                        except BlockingIOError:
                            d = None
                        if d == b'':
                            eof = True
                        elif d:
                            acc += d
                            extra = 0
                    try:
                        p = ref.parse_response(acc, r['method'])
                    except ref.ParseError:
                        p = None
                    if eof:
                        break
                    if p is not None and not p['announces_close']:
                        extra += 1          # complete and persistent: a few more ticks to see a stray close / bytes
                        if extra > 4:
                            break
                out.append((acc, eof, p is not None))
                if eof or p is None or p['announces_close']:
                    cli.close()
                    cli = None
                    for _ in range(6):
                        root.tick(0)
        finally:
            if cli is not None:
                cli.close()
            from vlib.driver import mark_running
            mark_running(root, False)
            try:
                self.server._sock.close()
            except Exception:
                pass
        return out


def loopback_crosscheck(b, case, res):
    """``res`` is the (failure free) injection run of ``case``: the same case over real sockets must carry
    the same bytes (Date normalised) and end the connection at the same points."""
    try:
        lb = LoopWorld(case).run()
    except OSError as e:
        b.inconclusive_because('loopback unusable: %r' % (e,))
        return
    for (acc, eof, complete), o in zip(lb, res['obs']):
        raw = b''.join(d for k, d in o['events'] if k == 'write')
        closed = any(k == 'close' for k, _ in o['events'])
        if _DATE.sub(b'', raw) == _DATE.sub(b'', acc) and closed == eof and complete:
            b.ok('LOOPBACK_AGREES')
            b.reached('loopback_crosschecked')
        else:
            b.fail(case, 'LOOPBACK_AGREES', {'request': o['idx'], 'inject_bytes': len(raw), 'loopback_bytes': len(acc),
                                             'inject_closed': closed, 'loopback_eof': eof, 'loopback_complete': complete,
                                             'inject_head': raw[:120], 'loopback_head': acc[:120]}, dedup='loopback')


# ------------------------------------------------------------------------------------------------
# known findings: structural triggers, their neutralisation (the twin) and signatures
# ------------------------------------------------------------------------------------------------
def triggers(r):
    """the known-finding mechanisms this request structurally carries, in the order in which they are
    neutralised (normally at most one; a HEAD request whose handler raises carries two)"""
    b = r['body']
    if r['method'] == 'HEAD':
        return [K_RAISE, K_HEAD] if r['how'] in RAISES else [K_HEAD]
    if r['how'] in RAISES:
        return [K_RAISE]
    if b is None:
        return []
    k = b['kind']
    nonempty = len(expected_body(b)) > 0
    nobody_status = r['status'] in NOBODY or 100 <= r['status'] < 200
    if r.get('stream') and k in SIZED and nonempty:
        return [K_STREAM_SIZED, K_NOBODY] if nobody_status else [K_STREAM_SIZED]
    if k == 'push' and nonempty:
        return [K_PUSH]
    if nobody_status:
        return [K_NOBODY] if nonempty else []
    chunked = r['proto'] == '1.1' and not r.get('cl')
    if k == 'gen' and chunked:
        if r.get('stream') and b['items'] and enc(b['items'][0]) == b'':
            return [K_EMPTY_FIRST]
        if not r.get('stream') and not nonempty:
            return [K_CHUNKED_EMPTY]
    return []


def signature(key, r):
    sig = SIGNATURE[key]
    if key == K_RAISE and r['method'] == 'HEAD':
        # the second response follows a HEAD response: it shows up as bytes after a no-body message
        sig = sig | {'NO_BODY'}
    return sig


def neutralise(r, key):
    """the same request with ONLY the trigger of ``key`` removed"""
    r = copy.deepcopy(r)
    b = r['body']
    if key == K_HEAD:
        r['method'] = 'GET'
    elif key == K_RAISE:
        r['how'] = 'httperror'
    elif key == K_STREAM_SIZED:
        r['stream'] = False
    elif key == K_PUSH:
        b['kind'] = 'gen'           # the same chunks, pulled from an iterator instead of pushed
        r['how'] = 'set'
        r['stream'] = True
    elif key == K_NOBODY:
        if 'v' in b:
            b['v'] = b'' if isinstance(mat(b['v']), bytes) else ''
        else:
            b['items'] = []
            if b['kind'] == 'yield':
                b['items'] = ['']
    elif key == K_EMPTY_FIRST:
        items = list(b['items'])
        while items and enc(items[0]) == b'':
            items.pop(0)
        b['items'] = items
    elif key == K_CHUNKED_EMPTY:
        b['items'] = list(b['items']) + ['x']
    return r


def with_request(case, idx, r):
    c = copy.deepcopy(case)
    c['reqs'][idx] = r
    return c


def candidate(case, res):
    """-> (idx of the first failing request, its failing clauses, key or None, location of the trigger,
    clauses that must be gone in the twin)"""
    i = min(f[0] for f in res['failures'])
    sig = {f[1] for f in res['failures'] if f[0] == i}
    reqs = case['reqs']
    if sig == {'KEEPALIVE_NEXT'} and i > 0 and reqs[i - 1]['method'] == 'HEAD':
        det = [f[2] for f in res['failures'] if f[0] == i][0]
        o_prev = [o for o in res['obs'] if o['idx'] == i - 1]
        if det.get('stale_echo') == echo_of(case, i - 1) and o_prev and o_prev[0].get('kept'):
            return i, sig, K_HEAD, i - 1, sig
    keys = triggers(reqs[i])
    # the first structural trigger whose signature shows in the failure (an earlier one may not manifest)
    while keys and not sig & signature(keys[0], reqs[i]):
        keys = keys[1:]
    if not keys:
        return i, sig, None, i, sig
    key = keys[0]
    own = signature(key, reqs[i])
    later = set()
    for k2 in keys[1:]:
        later |= signature(k2, reqs[i])
    # clauses this mechanism alone accounts for must disappear in its twin; clauses a further trigger of the
    # same request accounts for as well are left to that trigger's own step
    must_go = (sig & own) - later if (sig & own) - later else sig & own
    if not sig <= (own | later):
        return i, sig, None, i, sig
    if key == K_HEAD:
        det = [f[2] for f in res['failures'] if f[0] == i and f[1] == 'CLOSE_IFF_ANNOUNCED'][0]
        if not (det.get('announced') and not det.get('closed')):
            return i, sig, None, i, sig
    return i, sig, key, i, must_go


def explain(b, case, res):
    """Attribute the failures of ``res`` one mechanism at a time (see ASSUMPTIONS); every step calls
    Batch.fail with the twin of exactly that step."""
    steps = 0
    while res['failures'] and steps < 12:
        steps += 1
        i, sig, key, loc, must_go = candidate(case, res)
        first = sorted((f for f in res['failures'] if f[0] == i), key=lambda f: (f[1] not in must_go, f[1]))[0]
        detail = dict(first[2], request=i, failing_clauses=sorted(sig),
                      request_spec={k: v for k, v in case['reqs'][i].items() if k != 'body'},
                      body_kind=(case['reqs'][i]['body'] or {}).get('kind'))
        r0 = case['reqs'][i]
        dedup = '%s/%s/%s' % (first[1], r0['method'], (r0['body'] or {}).get('kind') or r0['how'])
        if key is None:
            b.fail(case, first[1], detail, dedup=dedup)
            # report the other failing clauses of this run too
            seen = {first[1]}
            for f in res['failures']:
                if f[1] not in seen:
                    seen.add(f[1])
                    b.fail(case, f[1], dict(f[2], request=f[0]), dedup=f[1])
            return False
        twin_case = with_request(case, loc, neutralise(case['reqs'][loc], key))
        box = {}

        def twin(twin_case=twin_case, i=i, must_go=must_go, box=box):
            b.reached('twin_runs')
            box['res'] = run_case(twin_case)
            still = {(f[0], f[1]) for f in box['res']['failures']}
            return not any((i, c) in still for c in must_go)

        attributed = b.fail(case, first[1], detail, known=[(key, twin)], dedup=dedup)
        if not attributed:
            return False
        case, res = twin_case, box['res']
    return not res['failures']


def evaluate(b, case, loopback=False):
    try:
        res = run_case(case)
    except Exception as e:
        import traceback
        b.fail(case, 'HARNESS_RAISED', {'error': repr(e), 'tb': traceback.format_exc(limit=8)}, dedup=type(e).__name__)
        return
    key = {k: v for k, v in case.items() if k != 'tag'}
    b.case(case, nontrivial=res['nontrivial'], distinct_key=key)
    for m in res['marks']:
        b.reached(m)
    for c, n in res['oks'].items():
        b.ok(c, n)
    if any(triggers(r) for r in case['reqs']):
        b.reached('cases_with_known_trigger')
    if res['failures']:
        explain(b, case, res)
    elif loopback:
        loopback_crosscheck(b, case, res)


# ------------------------------------------------------------------------------------------------
# workload
# ------------------------------------------------------------------------------------------------
BIG_STR = {'rep': 'abcdefghé', 'n': 8000}             # 80000 bytes once encoded
BIG_BYTES = {'rep': b'0123456789abcdef', 'n': 4200}        # 67200 bytes
GEN_MIXED = ['ab', b'cd\xff', '', 'héllo €', b'']
LIST_MIXED = ['a', b'b\xff', '', 'hé']


def body_variants():
    """[(how, stream, cl, body)] - the body axis of the product"""
    out = []
    sized = [B('str', 'hello world, 12'), B('str', 'héllo € wörld'), B('bytes', b'\x00\xffbin\r\n0\r\n\r\nHTTP/1.1 200 OK\r\n'),
             B('str', BIG_STR), B('bytes', BIG_BYTES), B('list', items=LIST_MIXED)]
    for body in sized:
        for how in ('ret', 'set'):
            out.append((how, False, False, body))
    for body in (B('str', ''), B('bytes', b''), B('list', items=[])):
        for how in ('ret', 'set'):
            out.append((how, False, False, body))
    out.append(('ret', False, False, B('yield', items=['Hello ', b'World', '', 'é!'])))
    out.append(('ret', False, False, B('yield', items=[''])))
    # response.stream = True on a sized body
    for body in (B('str', 'hello world, 12'), B('bytes', b'\x00\xffbin'), B('list', items=LIST_MIXED), B('yield', items=['Hello ', b'World'])):
        out.append(('ret', True, False, body))
    gens = [B('gen', items=GEN_MIXED), B('gen', items=['', 'first-empty', b'x']), B('gen', items=[]), B('gen', items=['', b'']),
            B('gen', items=[{'rep': b'x', 'n': 30000}, {'rep': 'yé', 'n': 10000}, {'rep': b'z', 'n': 30000}]),
            B('gen', items=['0123456789abcdefXYZ'])]
    for body in gens:
        for stream in (False, True):
            out.append(('set', stream, False, body))
    for body in (gens[0], gens[4]):
        for stream in (False, True):
            out.append(('set', stream, True, body))
    f1 = B('file', b'file-data-\x00\xff-0123456789')
    for how in ('ret', 'set'):
        for stream in (False, True):
            out.append((how, stream, False, f1))
    for stream in (False, True):
        out.append(('ret', stream, False, B('file', b'')))
        out.append(('ret', stream, False, B('file', {'rep': b'0123456789abcde\n', 'n': 4375}, real=True)))   # 70000 bytes
    out.append(('ret', False, True, B('file', b'served like serve_file does', real=True)))
    # raw streams with short reads
    f2 = B('file', b'first-second-third-\x00\xff-and-the-rest-of-it', short=[6, 7, 5, 1])
    for how in ('ret', 'set'):
        for stream in (False, True):
            out.append((how, stream, False, f2))
    out.append(('ret', False, True, f2))
    out.append(('ret', False, False, B('file', {'rep': b'0123456789abcde\n', 'n': 4375}, short=[1000, 8192, 3, 20000])))
    return out


def product_cases():
    cases = []
    n = 0

    def add(**kw):
        nonlocal n
        cases.append({'tag': 'p%05d' % n, 'reqs': [R(**kw)]})
        n += 1

    for how, stream, cl, body in body_variants():
        for status in STATUSES:
            for proto in ('1.0', '1.1'):
                for conn in ('keep-alive', 'close', None):
                    for method in ('GET', 'HEAD', 'POST'):
                        add(method=method, proto=proto, conn=conn, status=status, how=how, body=body, stream=stream, cl=cl,
                            hdrs=[['X-App', 'v=%d; how=%s' % (status, how)]])
    for proto in ('1.0', '1.1'):
        for conn in ('keep-alive', 'close', None):
            for method in ('GET', 'HEAD', 'POST'):
                for status in (200, 201, 404, 500):
                    if method != 'HEAD':    # see ASSUMPTIONS
                        add(method=method, proto=proto, conn=conn, status=status, how='set', body=B('push', items=['ab', b'cd\xff', 'hé']))
                    add(method=method, proto=proto, conn=conn, status=status, how='set', body=B('push', items=[]))
                add(method=method, proto=proto, conn=conn, status=404, how='notfound')
                for stale in (5, 100000):
                    add(method=method, proto=proto, conn=conn, status=404, how='notfound', stale_cl=stale)
                    add(method=method, proto=proto, conn=conn, status=500, how='raise', stale_cl=stale)
                    add(method=method, proto=proto, conn=conn, status=500, how='httperror', stale_cl=stale)
                add(method=method, proto=proto, conn=conn, status=500, how='raise')
                add(method=method, proto=proto, conn=conn, status=500, how='raise-request')
                for status in (204, 304, 404, 500):
                    add(method=method, proto=proto, conn=conn, status=status, how='httperror', hdrs=[['X-App', 'err']])
    return cases


def corpus():
    """hand-derived cases: one per anchored mechanism and per known finding (seed independent)"""
    S = B('str', 'héllo wörld')
    G = B('gen', items=GEN_MIXED)
    cs = []

    def add(name, *reqs):
        cs.append({'tag': 'k-' + name, 'reqs': list(reqs)})

    # prepare(): Content-Length for sized bodies / chunked for 1.1 / close for 1.0 / 413 closes / explicit Connection header
    add('cl-str', R(body=S))
    add('cl-list', R(body=B('list', items=LIST_MIXED)))
    add('chunked-11', R(body=G, how='set'))
    add('close-10', R(proto='1.0', body=G, how='set'))
    add('status-413-closes', R(status=413, body=S))
    add('keepalive-10', R(proto='1.0', conn='keep-alive', body=S), R(proto='1.0', conn='keep-alive', body=S), R(proto='1.0', body=S))
    # _on_response: HEAD cut-off, first stream chunk, chunked single write + terminator
    add('head-keepalive-last', R(method='HEAD', body=S))
    add('stream-first-chunk', R(body=G, how='set', stream=True))
    add('file-bytesio', R(body=B('file', b'bytesio-body')))
    add('file-short-reads', R(body=B('file', b'first-second-third', short=[6, 7, 5])), R(body=S))
    add('file-short-reads-app-cl', R(body=B('file', b'first-second-third', short=[6, 7, 5]), cl=True), R(body=S))
    add('file-short-reads-http10', R(proto='1.0', body=B('file', b'first-second-third', short=[6, 7, 5])))
    add('file-real-multi-chunk', R(body=B('file', {'rep': b'0123456789abcde\n', 'n': 4375}, real=True)))
    add('file-real-app-cl', R(body=B('file', b'like serve_file', real=True), cl=True), R(body=S))
    # _on_stream: chunk framing, empty items skipped, terminator, close on 1.0
    add('stream-10-close', R(proto='1.0', body=G, how='set', stream=True))
    add('stream-keepalive-seq', R(body=G, how='set', stream=True), R(method='POST', body=B('bytes', BIG_BYTES)), R(body=G, how='set'),
        R(conn='close', body=S))
    add('big-str', R(body=B('str', BIG_STR)), R(body=B('str', BIG_STR), how='set'))
    add('yield-handler', R(body=B('yield', items=['Hello ', b'World', '', 'é!'])))
    # errors.py: error pages close the connection
    add('notfound', R(status=404, how='notfound'), R(body=S))
    add('httperror-500', R(status=500, how='httperror'))
    add('httperror-304', R(status=304, how='httperror'))
    add('status-set-404-keepalive', R(status=404, body=S), R(status=500, body=S), R(status=201, body=S))
    # no-body statuses with an empty body (legal), 1xx
    add('204-empty', R(status=204, body=B('str', '')), R(body=S))
    add('304-empty-gen', R(status=304, body=B('gen', items=[]), how='set'), R(body=S))
    add('101-empty', R(status=101, body=B('str', '')))
    add('conn-close-11', R(conn='close', body=S), R(body=S))
    for sp in ('Close', 'CLOSE', 'cLoSe'):
        add('conn-%s-11' % sp, R(conn=sp, body=S), R(body=S))
        add('conn-%s-11-gen-head' % sp, R(body=G, how='set'), R(method='HEAD', conn=sp, body=S), R(body=S))
    for sp in ('Keep-Alive', 'KEEP-ALIVE', 'Keep-alive'):
        add('conn-%s-10' % sp, R(proto='1.0', conn=sp, body=S), R(proto='1.0', conn=sp, body=G, how='set'), R(proto='1.0', body=S))
        add('conn-%s-11' % sp, R(conn=sp, body=S), R(conn='Close', body=S), R(body=S))
    add('post-seq', R(method='POST', body=S), R(method='POST', body=G, how='set'), R(method='POST', conn='close', body=S))
    add('push-empty', R(body=B('push', items=[]), how='set'), R(body=S))
    # a request target that is not in normal form is answered by the server itself with a redirect; what follows on the connection (if the
    # server keeps it) and on the next one is answered like any other request
    for g in GUARDS:
        for m in ('GET', 'HEAD', 'POST'):
            add('guard-%s-%s' % (g, m), dict(R(method=m), guard=g), R(body=S), R(body=G, how='set'))
        add('guard-10-%s' % g, dict(R(proto='1.0', conn='keep-alive'), guard=g), R(proto='1.0', conn='keep-alive', body=S), R(body=S))
        add('guard-after-keepalive-%s' % g, R(body=S), dict(R(), guard=g), dict(R(conn='keep-alive'), guard=g), R(body=S))
    # the known findings, each in its minimal form
    add('F-head-then-get', R(method='HEAD', body=S), R(body=B('bytes', b'second')))
    add('F-head-close', R(method='HEAD', conn='close', body=S))
    add('F-head-10', R(method='HEAD', proto='1.0', body=S))
    add('F-204-body', R(status=204, body=B('str', 'x')))
    add('F-304-gen-body', R(status=304, body=G, how='set', stream=True))
    add('F-101-body', R(status=101, body=B('str', 'x')))
    add('F-chunked-empty', R(body=B('gen', items=[]), how='set'))
    add('F-empty-first', R(body=B('gen', items=['', 'a', b'b']), how='set', stream=True))
    add('F-push', R(body=B('push', items=['ab', b'cd']), how='set'))
    add('F-push-10', R(proto='1.0', body=B('push', items=['ab', b'cd']), how='set'))
    add('F-stream-sized', R(body=B('str', 'abc'), stream=True))
    add('F-raise', R(status=500, how='raise'))
    add('F-stale-cl-raise', R(status=500, how='raise', stale_cl=100000), R(body=S))
    add('F-stale-cl-notfound', R(status=404, how='notfound', stale_cl=5), R(body=S))
    add('F-stale-cl-httperror-10', R(proto='1.0', conn='keep-alive', status=500, how='httperror', stale_cl=7), R(proto='1.0', body=S))
    add('F-raise-request-level', R(status=500, how='raise-request'))
    add('F-head-204-body-close', R(method='HEAD', conn='close', status=204, body=B('str', 'x')))
    add('F-head-then-204-body', R(method='HEAD', body=S), R(status=204, body=B('str', 'x')), R(body=S))
    # every hand-derived case once more with another connection in the middle of a request of its own meanwhile
    cs += [dict(copy.deepcopy(c), tag=c['tag'] + '+n', neighbour=True) for c in cs]
    return cs


# -- random sequences ---------------------------------------------------------------------------------
def gen_request(rng, keepalive_bias):
    how, stream, cl, body = rng.choice(_VARIANTS)
    body = copy.deepcopy(body)
    # keep random sequences light: big bodies only sometimes
    if len(expected_body(body)) > 20000 and rng.random() < 0.7:
        body = B('str', 'small é body %d' % rng.randrange(1000))
        how, stream, cl = rng.choice(['ret', 'set']), False, False
    method = rng.choice(['GET', 'GET', 'GET', 'HEAD', 'POST'])
    if rng.random() < keepalive_bias:
        proto, conn = rng.choice([('1.1', None), ('1.1', None), ('1.1', 'keep-alive'), ('1.0', 'keep-alive')])
    else:
        proto, conn = rng.choice([('1.1', 'close'), ('1.0', None), ('1.0', 'close'), ('1.1', None)])
    if conn and rng.random() < 0.25:
        conn = rng.choice([conn.upper(), conn.title(), conn.capitalize()])
    status = rng.choice([200, 200, 200, 201, 204, 304, 404, 500])
    x = rng.random()
    if rng.random() < 0.06:
        return dict(R(method=method, proto=proto, conn=conn), guard=rng.choice(GUARDS))
    if x < 0.06:
        return R(method=method, proto=proto, conn=conn, status=404, how='notfound')
    if x < 0.09:
        return R(method=method, proto=proto, conn=conn, status=500, how=rng.choice(RAISES))
    if x < 0.13:
        return R(method=method, proto=proto, conn=conn, status=rng.choice([204, 304, 404, 500]), how='httperror')
    if x < 0.18:
        items = [rng.choice(['ab', b'cd\xff', 'hé', b'0123456789abcdef']) for _ in range(rng.randrange(0, 4))]
        if method == 'HEAD':
            items = []
        return R(method=method, proto=proto, conn=conn, status=rng.choice([200, 201, 404]), how='set', body=B('push', items=items))
    if body['kind'] in ('gen', 'list', 'yield') and rng.random() < 0.5:
        pool = ['', b'', 'a', b'b\xff', 'hé', '0123456789abcdef', b'\r\n0\r\n\r\n']
        items = [rng.choice(pool) for _ in range(rng.randrange(0 if body['kind'] != 'yield' else 1, 6))]
        body['items'] = items
    if stream and body['kind'] in SIZED and not expected_body(body):
        stream = False      # see ASSUMPTIONS: an application that never finishes
    if stream and body['kind'] in SIZED and rng.random() < 0.6:
        stream = False
    hdrs = [['X-App', 'r%d' % rng.randrange(10 ** 6)]] if rng.random() < 0.7 else []
    if rng.random() < 0.2:
        hdrs.append(['Content-Type', rng.choice(['application/octet-stream', 'text/plain; charset=utf-8'])])
    return R(method=method, proto=proto, conn=conn, status=status, how=how, body=body, stream=stream, cl=cl, hdrs=hdrs)


_VARIANTS = body_variants()


def gen_sequence(rng):
    n = rng.choice([1, 2, 2, 3, 3, 3, 4, 4])
    reqs = [gen_request(rng, 0.85 if k < n - 1 else 0.4) for k in range(n)]
    case = {'tag': 's%06x' % rng.randrange(1 << 24), 'reqs': reqs}
    if rng.random() < 0.25:
        case['neighbour'] = True     # another connection of the same server is in the middle of a request of its own meanwhile
    return case


def alphabet():
    """24 letters for the exhaustive sequences of the thorough tier"""
    letters = []
    bodies = [('ret', False, 200, B('str', 'héllo')), ('set', True, 200, B('gen', items=['ab', '', b'cd'])),
              ('ret', False, 200, B('file', b'file-body')), ('ret', False, 204, B('str', ''))]
    for method in ('GET', 'HEAD'):
        for proto, conn in (('1.1', None), ('1.0', 'keep-alive'), ('1.1', 'close')):
            for how, stream, status, body in bodies:
                letters.append(R(method=method, proto=proto, conn=conn, status=status, how=how, body=body, stream=stream))
    return letters


def exhaustive_sequences(part, parts):
    import itertools
    A = alphabet()
    n = 0
    for length in (1, 2, 3):
        for combo in itertools.product(range(len(A)), repeat=length):
            if n % parts == part:
                yield {'tag': 'x' + '.'.join(map(str, combo)), 'reqs': [copy.deepcopy(A[c]) for c in combo]}
            n += 1


EXHAUSTIVE = {'thorough': 'all 14424 request sequences of length <= 3 over the 24-letter alphabet {GET, HEAD} x {1.1, 1.0 keep-alive, '
                          '1.1 close} x {str, streamed generator, file, 204 empty}; quick and thorough: the full single-request product'}


def plan(tier, seed):
    nprod = len(product_cases())
    specs = [{'kind': 'corpus'}]
    parts = 15
    specs += [{'kind': 'product', 'part': k, 'parts': parts, 'total': nprod} for k in range(parts)]
    if tier == 'quick':
        specs += [{'kind': 'random', 'seed': seed * 1000 + i, 'n': 40} for i in range(16)]
    else:
        specs += [{'kind': 'exhaustive', 'part': k, 'parts': 16} for k in range(16)]
        specs += [{'kind': 'random', 'seed': seed * 100000 + i, 'n': 1800} for i in range(64)]
    return specs


def run_batch(spec):
    import circuits  # noqa: F401  (the real package under test)
    from vlib import ref_http15 as ref
    b = Batch(PROPERTY)
    try:
        if spec['kind'] == 'corpus':
            bad = ref.selfcheck()
            if bad:
                b.inconclusive_because('reference parser self-check failed: %r' % (bad,))
            else:
                b.reached('ref_selfcheck_vectors', len(ref.selfcheck_vectors()))
            for case in corpus():
                evaluate(b, case, loopback=True)
        elif spec['kind'] == 'product':
            cases = product_cases()
            for n, k in enumerate(range(spec['part'], len(cases), spec['parts'])):
                evaluate(b, cases[k], loopback=(n % 23 == 0))
        elif spec['kind'] == 'exhaustive':
            for case in exhaustive_sequences(spec['part'], spec['parts']):
                evaluate(b, case)
        else:
            rng = random.Random(spec['seed'])
            for n in range(spec['n']):
                evaluate(b, gen_sequence(rng), loopback=(n % 10 == 0))
    finally:
        cleanup_tmp()
    return b.result()


def run_replay(case):
    b = Batch(PROPERTY)
    try:
        evaluate(b, unjson(case))
    finally:
        cleanup_tmp()
    return b.result()


ENGINE = 'event-injection'
TECHNIQUE = ('runtime monitoring: raw bytes and close events per connection of the real HTTP/Dispatcher/Controller stack, decoded by a strict '
             'RFC 7230 reference parser AND http.client.HTTPResponse, compared with the declarative application ghost')
LEVEL_TEXT = ('Every response written for the full product of single requests (body type x stream flag x status x protocol version x Connection '
              'x method) and for seeded random / exhaustive short sequences on one connection is decoded by two independent decoders; both must '
              'recover exactly the application\'s status, explicitly set headers and body bytes, leave no byte undelimited, see no body on '
              'HEAD/1xx/204/304, and the close event must occur iff the response announced it; further requests on kept-alive connections must be '
              'answered with their own response. Held means: no unattributed mismatch on the cases run; it is sampling over sequences, exhaustive '
              'only over the stated single-request product and (thorough) the stated alphabet.')
LEVEL_NOTE = ('Trusted: the declarative case as ghost of what the application produced, the strict reference parser (self-checked against '
              'http.client on hand-made vectors each run), Wire/FakeSock as stand-in for the socket server (one write event = whole payload; no '
              'pipelining, no segmentation, no real TCP buffering). Known findings are attributed one mechanism at a time by structural trigger + '
              'failure signature + neutralised twin.')

"""C12 - every connection: one connect, ordered reads, one disconnect, then no trace.

Real TCPServer / UNIXServer / TCPClient components over real loopback sockets and each of the
Select, Poll and EPoll pollers, in one process and one thread.  The root is marked running and
stepped with tick(0); the harness owns the raw peer sockets (non-blocking), performs one peer or
server-side action and steps the manager until nothing more happens.  A catch-all observer at the
root records, per socket object, every event that carries the socket; the oracle is the automaton
``connect . read* . disconnect . nothing`` with byte-exact reads, plus two independent residue
deciders (generic container scan of the component tree, weakref/gc reachability) and an fd census
(DESIGN.md 2.5, 2.8 and section 4, C12).
"""
import errno
import gc
import os
import random
import select
import shutil
import socket
import struct
import tempfile
import time
import weakref

from vlib.batch import Batch, BudgetExceeded, cpu_budget, unjson

PROPERTY = 'C12'
LEVEL = 'exploration'
RULE = ('fixed corpus (one history per anchor mechanism: accept/connect, read split over several events, half-close, close, abort, '
        'close while the server writes into a full buffer, server-side close with and without buffered data, late write / late close '
        'to a disconnected socket, 6 connections at once) run under every poller x {TCP, UNIX}, + seeded random histories of 4-28 '
        'actions over 1-6 connections (connect, send n unique bytes, shutdown(SHUT_WR), close, abort via SO_LINGER 0, drain, server '
        'write incl. writes larger than the socket buffers, server close, late write/close) x {Select, Poll, EPoll} x {TCP, UNIX}, '
        '+ client histories (1-3 TCPClient components against a harness-owned listener: connect, peer send/close/abort, local '
        'close/write, reconnect); non-trivial = at least one connection received bytes in >= 1 read event and was ended by a peer '
        'half-close/close/abort or a server-side close while another action (server write, second connection, late event) was part '
        'of the history; distinct = hash of the declarative case')
ASSUMPTIONS = [
    'loopback only (127.0.0.1 port 0, AF_UNIX paths in a mkdtemp directory); the kernel delivers loopback data/FIN/RST; the harness waits for '
    'that delivery with its own poll() on the same descriptors (bounded wall-clock wait whose expiry is inconclusive, never a verdict)',
    'a TCP connection reset before the server called accept() was never a connection in the statement\'s sense, so no connect is demanded for it; but the kernel still hands '
    'the dead socket to accept(), and everything else is demanded of it: at most one connect (first), exactly one disconnect if any event carried the socket, nothing after it, '
    'no residue in server or poller, socket released, descriptor closed (fd census)',
    'reads must equal the bytes sent only when the peer ended orderly, had drained everything the server wrote, and the server did not close first; otherwise a prefix is demanded',
    'error events between connect and disconnect are permitted (the statement does not mention them); after the disconnect nothing carrying the socket may be dispatched',
    'events fired by the harness itself (write/close addressed to a socket) are not counted as events "for that socket"',
    'fd census compares /proc/self/fd right before the first action with the state after every connection ended and the harness closed its own descriptors',
    'residue is charged to late events only for what appeared after the first late event of that socket was dispatched (scan taken by the observer right '
    'before the server handles it); with several open findings a failure is attributed to one of them iff neutralising only its trigger (late events not '
    'delivered / server writes to live sockets not delivered / freed descriptor numbers re-used) removes every failure of that mechanism and whatever remains '
    'consists of other known mechanisms that are, in turn, removed by neutralising their triggers as well',
    'a connection whose peer is gone while the server still waits to write to it ends only when the kernel resets it (zero-window probe timer): the harness waits '
    'up to 3 s for that and calls the case inconclusive, not violated, if the kernel still shows no error/hang-up on the descriptor',
]
REQUIRED = ['server_wide_close_with_several_connections', 'late_event_before_disconnect_was_dispatched', 'poller_Select', 'poller_Poll', 'poller_EPoll', 'family_tcp', 'family_unix', 'peer_half_close', 'peer_close', 'peer_abort',
            'peer_reset_before_accept', 'peer_close_while_server_writing', 'server_buffer_filled', 'server_close_event', 'server_close_while_buffered', 'late_write', 'late_close',
            'concurrent_ge3', 'concurrent_6', 'read_split_over_events', 'strict_equality_checked', 'prefix_checked', 'residue_scanned',
            'weakref_checked', 'residue_deciders_agree', 'fd_census_taken', 'connects_before_first_tick', 'client_peer_close', 'client_peer_abort',
            'client_local_close', 'client_reconnect', 'client_close_while_buffered', 'client_write_after_close']
REQUIRED_OBLIGATIONS = ['ONE_CONNECT', 'READS_IN_ORDER', 'ONE_DISCONNECT', 'NOTHING_AFTER_DISCONNECT', 'NO_RESIDUE', 'SOCKET_RELEASED', 'FD_CENSUS',
                        'CLIENT_ONE_DISCONNECTED_PER_CONNECTED']
WORKER_TIMEOUT = {'quick': 300, 'thorough': 1500}
ENGINE = 'loopback-stepping'
TECHNIQUE = ('runtime monitoring: real Server/Client components over real loopback sockets stepped with tick(0); per-socket event automaton, '
             'byte-exact read oracle, generic residue scan + weakref/gc reachability + fd census at quiescence')
LEVEL_TEXT = ('Histories of peer actions (connect, send, half-close, close, abort, stop reading) interleaved with server-side write/close events and '
              'late writes/closes to already disconnected sockets are executed against the real TCPServer/UNIXServer under Select, Poll and EPoll in a '
              'single thread. An observer records every event that carries an accepted socket; per socket the sequence must be connect, reads whose '
              'concatenation equals (orderly end) or is a prefix of (abort) what the peer sent, one disconnect, then nothing. At quiescence no container '
              'attribute anywhere in the component tree may contain the socket object, the socket object must be garbage once the harness let go of it, '
              'and the set of open descriptors must be what it was before the first action. TCPClient components must report exactly one disconnected per '
              'connected. Held = no obligation failed on the histories run (sampling, not a proof).')
LEVEL_NOTE = ('Trusted: the kernel\'s loopback delivery, the harness\' own poll() barrier and the catch-all observer. TLS, UDP and KQueue are not exercised.')

POLLERS = ['Select', 'Poll', 'EPoll']
K_TICKS = 4000        # upper bound of ticks per stepping phase (20000 bytes read 64 at a time need ~320)
SMALL = 4096          # SO_SNDBUF / SO_RCVBUF of "small buffer" worlds
KEY_EPOLL_MAP = 'epoll.discard-keeps-map-entry'
KEY_LATE = 'server.late-write-after-disconnect'
KEY_WRITE_ERR = 'server.failed-write-recreates-buffer-entry'
KEY_CLOSEQ = 'server.closeq-entry-survives-error-close'
KEY_CLIENT_LATE = 'client.write-after-close-defers-close-forever'


class Inconclusive(Exception):
    pass


_BLOCKS = {}
_RECORDS = 1 << 17          # 1 MiB of 8-byte records per tag before the content repeats


def pattern(tag, start, n):
    """n bytes of a stream whose content is unique per (tag, offset): 8-byte records 'tNNNNNN;'."""
    blk = _BLOCKS.get(tag)
    if blk is None:
        blk = _BLOCKS[tag] = b''.join(b'%s%06d;' % (tag, i) for i in range(_RECORDS))
    size = len(blk)
    off = start % size
    out = blk[off:off + n]
    while len(out) < n:
        out += blk[:n - len(out)]
    return out


class Conn:
    """What the observer knows about one server-side socket object."""

    def __init__(self, sock, index):
        self.index = index
        self.ref = weakref.ref(sock)
        self.strong = sock
        self.events = []      # (name, payload) in dispatch order
        self.announced = False


class World:
    giveups = 0     # cases of this process in which a bounded wait for the kernel expired

    def __init__(self, case, skip_late=False, reuse_fds=False, skip_swrite=False, name_holders=True):
        from circuits import BaseComponent, handler
        from circuits.core import pollers
        self.case = case
        self.skip_late = skip_late
        self.reuse_fds = reuse_fds
        self.skip_swrite = skip_swrite
        self.name_holders = name_holders
        self.gave_up = False
        self.unsettled = False
        self.marks = set()
        self.conns = []          # Conn per server-side socket object, in order of first sighting
        self.exceptions = []     # repr strings only (no tracebacks are kept)
        self.records = 0         # number of observed records (progress witness)
        self.observing = True
        self.client_log = {}     # channel -> [(name, payload)]
        self.tmpdir = None
        world = self

        class Obs(BaseComponent):
            @handler(channel='*', priority=100)
            def _v_see(self, event, *args, **kwargs):
                world.observe(event, args, kwargs)

        self.root = Obs()
        self.root._running = True    # vlib.driver.mark_running: generate_events is only fired by a running manager
        self.poller = getattr(pollers, case['poller'])().register(self.root)
        self.marks.add('poller_' + case['poller'])

    # -- observation -----------------------------------------------------------------------------
    def conn_of(self, sock, create=True):
        for c in self.conns:
            if c.ref() is sock:
                return c
        if not create:
            return None
        c = Conn(sock, len(self.conns))
        self.conns.append(c)
        return c

    def observe(self, event, args, kwargs=None):
        name = event.name
        if name[0] == '_' or name == 'generate_events' or not self.observing:
            return
        h = getattr(event, '_vharness', None)
        if h is not None:
            self.harness_event(event, *h)
            return
        if name == 'exception':
            fe = (kwargs or {}).get('fevent')
            self.exceptions.append('%s in handler of %s' % (repr(args[1])[:120], getattr(fe, 'name', None)))
            self.records += 1
            return
        socks = [a for a in args if isinstance(a, socket.socket)]
        if socks:
            if socks[0] is getattr(self, 'listen_sock', None):
                return
            c = self.conn_of(socks[0])
            payload = None
            if name == 'read' and len(args) > 1:
                payload = bytes(args[1])
            elif name == 'error' and len(args) > 1:
                payload = repr(args[1])[:80]
            elif name == 'connect':
                c.announced = True
            c.events.append((name, payload))
            self.records += 1
            return
        ch = event.channels[0] if event.channels else None
        if ch in self.client_log and name in ('connected', 'disconnected', 'read', 'error', 'unreachable'):
            self.client_log[ch].append((name, bytes(args[0]) if name == 'read' else None))
            self.records += 1

    def harness_event(self, event, kind, idx):
        pass

    # -- stepping --------------------------------------------------------------------------------
    def quiet_step(self, k=K_TICKS):
        """tick(0) until nothing observable happens any more: two consecutive ticks without a new record that
        left the queue empty, or eight record-less ticks in a row (a half-closed socket stays readable, so
        the queue of a correct server may never drain while a close waits for its buffer).  False: records
        were still being produced after ``k`` ticks."""
        stable = 0
        for _ in range(k):
            before = self.records
            self.root.tick(0)
            if self.records != before:
                stable = 0
                continue
            stable += 1
            if stable >= 8 or (stable >= 2 and not len(self.root) and not self.root._tasks):
                return True
        return False

    def kernel_pending(self, timeout_ms):
        """The harness' own view of the descriptors the server reads from: is anything pending?"""
        p = select.poll()
        n = 0
        for s in self.watch_fds():
            try:
                fd = s.fileno()
            except (OSError, ValueError):
                continue
            if fd >= 0:
                p.register(fd, select.POLLIN | select.POLLRDHUP)
                n += 1
        if not n:
            return []
        return [(fd, ev) for fd, ev in p.poll(timeout_ms) if not ev & select.POLLNVAL]

    def advance(self, cond, hard=False, rounds=None):
        """Step until ``cond()``.  soft: give up as soon as the kernel shows nothing pending; hard: keep
        waiting for the kernel (bounded wall-clock, only ever spent when the condition stays false), the
        caller turns a false result into a verdict on the final automaton state."""
        if rounds is None:
            rounds = (50 if World.giveups < 5 else 10) if hard and not self.gave_up else 6
        last = None
        for _ in range(rounds):
            if not self.quiet_step():
                self.unsettled = True
            if cond():
                return True
            pend = self.kernel_pending(20 if hard else 0)
            if not pend and not hard:
                return False
            if hard and pend == last:
                select.select([], [], [], 0.02)      # a permanently readable descriptor (EOF) must not turn the wait into a spin
            last = pend
        if hard and not cond():
            self.gave_up = True      # only ever happens on a tree that already failed an obligation: do not pay the wait again
            World.giveups += 1
        return cond()


def wait_of(op):
    return not (len(op) > 1 and op[-1] == 'nw')


def _linger0(s):
    s.setsockopt(socket.SOL_SOCKET, socket.SO_LINGER, struct.pack('ii', 1, 0))


# ================================================================================================
# server side
# ================================================================================================
class ServerWorld(World):
    def __init__(self, case, **kw):
        super().__init__(case, **kw)
        from circuits.net.sockets import TCPServer, UNIXServer
        self.family = case['family']
        self.marks.add('family_' + self.family)
        opts = []
        if case.get('small'):
            opts = [(socket.SOL_SOCKET, socket.SO_SNDBUF, SMALL), (socket.SOL_SOCKET, socket.SO_RCVBUF, SMALL)]
        kw2 = {'channel': 'srv', 'bufsize': case.get('bufsize', 4096)}
        if opts:
            kw2['socket_options'] = opts
        if self.family == 'tcp':
            from vlib.netwait import retry_addr_in_use
            try:
                self.server = retry_addr_in_use(lambda: TCPServer(('127.0.0.1', 0), **kw2)).register(self.root)
            except OSError as e:
                if e.errno != errno.EADDRINUSE:
                    raise
                raise Inconclusive('no free loopback port to listen on (EADDRINUSE for port 0)')
        else:
            self.tmpdir = tempfile.mkdtemp(prefix='vc12-', dir='/var/tmp')
            self.server = UNIXServer(os.path.join(self.tmpdir, 's'), **kw2).register(self.root)
        self.listen_sock = _socket_attr(self.server)      # the listening socket the component created (found generically, not by name)
        self.listen_fd = self.listen_sock.fileno()
        self.server_closed = False
        self.early_problems = []
        self.addr = self.listen_sock.getsockname()
        self.peers = {}       # p -> dict(sock, sent, rx, state, conn index)
        self.order = []       # peers in connect order (accept is FIFO)
        self.unsettled = False
        self.swritten = {}    # p -> bytes the server was asked to write while the connection was live
        self.late_targets = set()
        self.live_writes = set()
        self.pre_late_scan = {}
        self.late_ops = []
        self.closed_by_server = set()
        self.quiet_step()
        if not self.poller.isReading(self.listen_sock):
            raise Inconclusive('server did not register its listening socket')

    def watch_fds(self):
        yield self.listen_sock
        for c in self.conns:
            s = c.ref()
            if s is not None and not self.disconnected(c):
                yield s

    # -- model helpers -----------------------------------------------------------------------------
    def conn(self, p):
        i = self.peers[p].get('conn')
        if i is None and p in self.order:
            k = self.order.index(p)
            if k < len(self.conns):
                self.peers[p]['conn'] = i = k
        return self.conns[i] if i is not None else None

    def disconnected(self, c):
        return any(n == 'disconnect' for n, _ in c.events)

    def reads_of(self, c):
        return b''.join(d for n, d in c.events if n == 'read')

    def fire(self, ev, kind, idx):
        ev._vharness = (kind, idx)
        self.root.fire(ev, 'srv')

    def harness_event(self, event, kind, idx):
        """A write/close event of the harness is being dispatched (the observer runs before the server's
        handler).  It is *late* iff the server has already ended that connection: the disconnect was
        dispatched, or is still queued but the server closed the socket object already."""
        if idx is None:
            return
        c = self.conns[idx]
        s = c.ref()
        late = self.disconnected(c) or s is None or s.fileno() < 0
        if late:
            if idx not in self.pre_late_scan and s is not None:
                # what is left of the socket *before* the first late event reaches the server (handlers are atomic with
                # respect to this observer call): whatever the final scan finds beyond this was caused by late events
                from vlib.residue import scan
                self.pre_late_scan[idx] = [tuple(f) for f in scan(self.root, s)]
            self.marks.add('late_write' if kind == 'swrite' else 'late_close')
            if not self.disconnected(c):
                self.marks.add('late_event_before_disconnect_was_dispatched')
            if self.skip_late:
                event.stop()       # the twin of the late-event finding: the event is not delivered
            else:
                self.late_targets.add(idx)
                self.late_ops.append([kind, idx])
        elif kind == 'swrite':
            if self.skip_swrite:
                event.stop()
            else:
                self.live_writes.add(idx)

    # -- actions -----------------------------------------------------------------------------------
    def do(self, op):
        from circuits.net import events as nev
        kind, p = op[0], op[1] if len(op) > 1 else None
        wait = not (len(op) > 2 and op[-1] == 'nw')
        P = self.peers.get(p)
        if kind == 'scloseall':
            # close() without a socket: the server as a whole - every connection (after its buffer has drained) and the listening socket
            if self.server_closed:
                return
            self.server_closed = True
            live = [c for c in self.conns if not self.disconnected(c)]
            self.marks.add('server_wide_close')
            if len(live) >= 2:
                self.marks.add('server_wide_close_with_several_connections')
            for c in live:
                self.closed_by_server.add(c.index)
            self.fire(nev.close(), kind, None)
            if wait_of(op):
                self.advance(lambda: False)
                # a connection with nothing left to write is ended by the server-wide close itself (not by whatever the peer does later)
                left = [c.index for c in live if not self.disconnected(c) and c.strong.fileno() >= 0 and not self.poller.isWriting(c.strong)]
                if left:
                    self.early_problems.append(('ONE_DISCONNECT', 'server-wide-close', {
                        'note': 'close() of the whole server has been handled, these connections had nothing buffered, yet they were not ended',
                        'connections_still_open': left, 'connections_at_the_time': [c.index for c in live]}))
            return
        if kind == 'connect':
            if P is not None or self.server_closed:
                return
            s = socket.socket(socket.AF_INET if self.family == 'tcp' else socket.AF_UNIX, socket.SOCK_STREAM)
            if self.case.get('small'):
                s.setsockopt(socket.SOL_SOCKET, socket.SO_RCVBUF, SMALL)
                s.setsockopt(socket.SOL_SOCKET, socket.SO_SNDBUF, SMALL)
            s.settimeout(5)
            try:
                from vlib.netwait import retry_addr_in_use
                retry_addr_in_use(lambda: s.connect(self.addr), attempts=5)
            except OSError as e:
                s.close()
                raise Inconclusive('loopback connect failed: %r' % e)
            s.setblocking(False)
            self.peers[p] = {'sock': s, 'sent': bytearray(), 'rx': 0, 'state': 'open', 'conn': None, 'dirty': False}
            self.order.append(p)
            self.swritten[p] = 0
            live = sum(1 for q in self.peers.values() if q['state'] != 'closed')
            if live >= 3:
                self.marks.add('concurrent_ge3')
            if live >= 6:
                self.marks.add('concurrent_6')
            if not wait and len(self.order) > len(self.conns) + 1:
                self.marks.add('connects_before_first_tick')
            if wait:
                self.advance(lambda: self.conn(p) is not None, hard=True)
            return
        if P is None:
            return
        c = self.conn(p)
        if kind == 'send':
            if P['state'] != 'open':
                return
            data = pattern(b'%d' % (p % 10), len(P['sent']), op[2])
            try:
                n = P['sock'].send(data)
            except BlockingIOError:
                n = 0
            except OSError:
                P['state_note'] = 'send failed'
                return
            P['sent'] += data[:n]
            if wait and c is not None:
                want = len(P['sent'])
                self.advance(lambda: len(self.reads_of(c)) >= want or self.disconnected(c))
        elif kind == 'drain':
            if P['state'] == 'closed':
                return
            self.drain(P)
            if wait:
                self.advance(lambda: False)
                self.drain(P)
        elif kind in ('shutwr', 'close', 'abort'):
            if P['state'] == 'closed' or (kind == 'shutwr' and P['state'] != 'open'):
                return
            live = c is not None and not self.disconnected(c)
            if kind == 'abort' and c is None:
                # a reset that beats accept(): the kernel still hands the dead socket to accept(); whether the server announces it is not
                # decided by the statement, but whatever it did with the socket it must undo (see ASSUMPTIONS)
                if self.family != 'tcp' or P['state'] != 'open':
                    return
                _linger0(P['sock'])
                P['sock'].close()
                P['state'] = 'closed'
                P['dirty'] = True
                P['reset_before_accept'] = True
                self.marks.add('peer_reset_before_accept')
                # let the server accept everything that is pending, so that the accept order (= sighting order) stays known
                self.advance(lambda: len(self.conns) >= len(self.order), hard=True, rounds=12)
                if len(self.conns) < len(self.order):
                    self.order.remove(p)      # the server never showed that socket to anyone: only the fd census can speak about it
                    P['unsighted'] = True
                return
            if live and self.poller.isWriting(c.strong):
                self.marks.add('peer_close_while_server_writing')
            if kind == 'shutwr':
                try:
                    P['sock'].shutdown(socket.SHUT_WR)
                except OSError:
                    pass
                P['state'] = 'halfclosed'
                if live:
                    self.marks.add('peer_half_close')
                    P['ended_by'] = P.get('ended_by') or 'shutwr'
            else:
                if P['state'] == 'open' and live:
                    self.marks.add('peer_abort' if kind == 'abort' and self.family == 'tcp' else 'peer_close')
                    P['ended_by'] = 'abort' if kind == 'abort' else 'close'
                if kind == 'close':
                    # an orderly end needs an empty receive queue: unread data turns close() into a reset
                    self.drain(P)
                    if P['rx'] != self.swritten[p]:
                        P['dirty'] = True
                else:
                    P['dirty'] = True
                    if self.family == 'tcp':
                        _linger0(P['sock'])
                P['sock'].close()
                P['state'] = 'closed'
            if wait and c is not None:
                self.advance(lambda: self.disconnected(c))
        elif kind in ('swrite', 'sclose'):
            if c is None:
                return
            gone = self.disconnected(c)
            if kind == 'swrite':
                data = pattern(b'W', self.swritten[p], op[2])
                if not gone:
                    self.swritten[p] += len(data)
                    if P['state'] == 'closed':
                        P['dirty'] = True
                self.fire(nev.write(c.strong, data), kind, c.index)
            else:
                if not gone:
                    self.marks.add('server_close_event')
                    self.closed_by_server.add(c.index)
                    if self.poller.isWriting(c.strong):
                        self.marks.add('server_close_while_buffered')
                self.fire(nev.close(c.strong), kind, c.index)
            if wait:
                self.advance(lambda: False)
                if kind == 'swrite' and not self.disconnected(c) and c.strong.fileno() >= 0 and self.poller.isWriting(c.strong):
                    self.marks.add('server_buffer_filled')
        elif kind == 'step':
            for _ in range(op[1]):
                self.root.tick(0)
        else:
            raise ValueError(op)

    def drain(self, P):
        while True:
            try:
                d = P['sock'].recv(65536)
            except BlockingIOError:
                return
            except OSError:
                return
            if not d:
                return
            P['rx'] += len(d)

    # -- the history -------------------------------------------------------------------------------
    def run(self):
        from vlib.residue import fd_census, scan
        problems = self.early_problems
        counts = dict.fromkeys(REQUIRED_OBLIGATIONS, 0)
        gc.collect()          # descriptors of earlier cases that only the collector closes must not be counted as open now and lost later
        census0 = fd_census()
        self.marks.add('fd_census_taken')
        for op in self.case['ops']:
            self.do(op)
        # the end of every history: the harness closes what it still holds; every accepted connection must end
        for p in list(self.peers):
            if self.peers[p]['state'] != 'closed':
                self.do(['close', p, 'nw'])
        self._forget_unaccepted()
        self.advance(lambda: len(self.conns) >= len(self.order), hard=True)
        all_done = self.advance(lambda: all(self.disconnected(c) for c in self.conns), hard=True)
        if not all_done and not World.giveups > 5:
            # a peer that closed while the server still holds data for it answers with a reset only when the server's kernel
            # transmits again (zero-window probe / retransmission timer): that end is the kernel's to signal, wait for it
            waiting = [c for c in self.conns if not self.disconnected(c) and c.strong.fileno() >= 0 and self.poller.isWriting(c.strong)]
            if waiting:
                self.marks.add('waited_for_kernel_timer')
                all_done = self.advance(lambda: all(self.disconnected(c) for c in self.conns), hard=True, rounds=150)
                for c in waiting:
                    if not self.disconnected(c) and self.poller.isWriting(c.strong):
                        ev = [e for fd, e in self.kernel_pending(0) if fd == c.strong.fileno()]
                        if not ev or not ev[0] & (select.POLLERR | select.POLLHUP):
                            raise Inconclusive('the kernel has not reset a connection whose peer is gone while the server waits to write to it')
        for op in self.case.get('late', []):
            self.do(op)
        self.advance(lambda: False)
        self._forget_unaccepted()
        if len(self.conns) < len(self.order):
            problems.append(('ONE_CONNECT', 'accept', {'note': 'connections that completed the handshake were never announced', 'connected_peers': len(self.order),
                                                       'sockets_seen': len(self.conns), 'kernel_pending': self.kernel_pending(0)}))
        # ---- per-socket automaton ----------------------------------------------------------------
        for c in self.conns:
            p = self.order[c.index] if c.index < len(self.order) else None
            P = self.peers.get(p)
            names = [n for n, _ in c.events]
            counts['ONE_CONNECT'] += 1
            if P is not None and P.get('reset_before_accept'):
                # never a live connection: a connect is optional, but never more than one and never after anything else
                bad_connect = names.count('connect') > 1 or ('connect' in names and names[0] != 'connect')
            else:
                bad_connect = names.count('connect') != 1 or names[0] != 'connect'
            if bad_connect:
                problems.append(('ONE_CONNECT', 'automaton', {'conn': c.index, 'events': _short_events(c.events)}))
            counts['ONE_DISCONNECT'] += 1
            nd = names.count('disconnect')
            if nd != 1:
                problems.append(('ONE_DISCONNECT', 'none' if nd == 0 else 'multiple', {
                    'conn': c.index, 'disconnects': nd, 'events': _short_events(c.events), 'peer_state': P and P['state'],
                    'kernel_pending': self.kernel_pending(0), 'all_done': all_done}))
            counts['NOTHING_AFTER_DISCONNECT'] += 1
            if nd:
                after = c.events[names.index('disconnect') + 1:]
                if after:
                    problems.append(('NOTHING_AFTER_DISCONNECT', after[0][0], {'conn': c.index, 'after_disconnect': _short_events(after),
                                                                               'events': _short_events(c.events)}))
            if P is not None:
                counts['READS_IN_ORDER'] += 1
                got = self.reads_of(c)
                sent = bytes(P['sent'])
                strict = (nd == 1 and not P['dirty'] and c.index not in self.closed_by_server and P.get('ended_by') in ('close', 'shutwr'))
                self.marks.add('strict_equality_checked' if strict else 'prefix_checked')
                if len([1 for n in names if n == 'read']) >= 2:
                    self.marks.add('read_split_over_events')
                bad = (got != sent) if strict else (sent[:len(got)] != got)
                if bad:
                    k = next((i for i in range(min(len(got), len(sent))) if got[i] != sent[i]), min(len(got), len(sent)))
                    problems.append(('READS_IN_ORDER', 'strict' if strict else 'prefix', {
                        'conn': c.index, 'sent': len(sent), 'read': len(got), 'first_difference_at': k, 'sent_there': sent[max(0, k - 8):k + 16],
                        'read_there': got[max(0, k - 8):k + 16], 'read_sizes': [len(d) for n, d in c.events if n == 'read'][:20], 'ended_by': P.get('ended_by')}))
        # ---- fd census ---------------------------------------------------------------------------------
        counts['FD_CENSUS'] += 1
        if all(self.disconnected(c) for c in self.conns):
            census1 = fd_census()
            extra = {fd: t for fd, t in census1.items() if fd not in census0}
            gone = {fd: t for fd, t in census0.items() if fd not in census1 and not (self.server_closed and fd == self.listen_fd)}
            if extra or gone:
                problems.append(('FD_CENSUS', 'leak' if extra else 'lost', {'still_open': extra, 'closed_but_was_open_before': gone}))
        # ---- residue, decider (i): generic scan of the component tree -----------------------------------
        if self.reuse_fds:
            self.occupy_fd_numbers(scan)
        scans = {}
        for c in self.conns:
            if not self.disconnected(c):
                continue
            counts['NO_RESIDUE'] += 1
            self.marks.add('residue_scanned')
            found = scan(self.root, c.strong)
            scans[c.index] = found
        # ---- residue, decider (ii): reachability once the harness let go ----------------------------------
        from vlib.residue import holders
        refs = []
        for c in self.conns:
            if self.disconnected(c):
                refs.append((c, c.ref))
            c.strong = None
        P = c = None
        for q in self.peers.values():
            q['sock'] = None
        gc.collect()
        for c, r in refs:
            counts['SOCKET_RELEASED'] += 1
            self.marks.add('weakref_checked')
            obj = r()
            alive = obj is not None
            who = holders(obj, ignore=[refs]) if alive and self.name_holders else []
            obj = None
            found = scans.get(c.index, [])
            late = c.index in self.late_targets
            if bool(found) == alive:
                self.marks.add('residue_deciders_agree')
            if found:
                for tag, part in self.classify(found, late, c).items():
                    problems.append(('NO_RESIDUE', tag, {'conn': c.index, 'found_in': part, 'late_ops_addressed_to_it': late,
                                                         'exceptions': self.exceptions[:3], 'events': _short_events(c.events)}))
            if alive:
                tag = '+'.join(sorted(self.classify(found, late, c))) if found else 'unscanned-holder'
                problems.append(('SOCKET_RELEASED', tag, {'conn': c.index, 'still_referenced_by': who, 'scan': found, 'late_ops_addressed_to_it': late}))
        return problems, counts

    def _forget_unaccepted(self):
        """connections still waiting in the listen queue when the server closed its listening socket were never the server's"""
        if not self.server_closed:
            return
        self.advance(lambda: False)
        if self.listen_sock.fileno() >= 0 or len(self.conns) >= len(self.order):
            return
        for p in self.order[len(self.conns):]:
            self.peers[p]['unsighted'] = True
        del self.order[len(self.conns):]
        self.marks.add('server_closed_with_connections_waiting_to_be_accepted')

    def classify(self, found, late, c):
        """Split the places a socket was found in by mechanism (used for the known-finding attribution only;
        the verdict that something was found does not depend on it).  Late events are charged with exactly what
        appeared after the first of them was dispatched."""
        out = {}
        wrote = c.index in self.live_writes
        before = self.pre_late_scan.get(c.index) if late else None
        for f in found:
            f = tuple(f)
            if before is not None and f not in before:
                tag = 'late-op'
            elif f == ('EPoll', '_map', 'value') and self.case['poller'] == 'EPoll':
                tag = 'epoll-map'
            elif f[1:] == ('_buffers', 'key') and wrote and any(n == 'error' for n, _ in c.events):
                tag = 'write-failed'
            elif f[1:] == ('_closeq', 'element') and wrote and any(n == 'error' for n, _ in c.events):
                tag = 'closeq'
            else:
                tag = 'other'
            out.setdefault(tag, []).append(list(f))
        return out

    def occupy_fd_numbers(self, scan):
        """Twin of the EPoll map finding: new connections take the descriptor numbers of the ended ones (a
        stale entry is overwritten when its number is registered again).  The harness moves its own ends to
        high descriptor numbers so that the accepted sockets get the lowest free, i.e. the stale, numbers."""
        import fcntl
        old = [c for c in self.conns if self.disconnected(c)]
        extra = []
        self.observing = False
        try:
            for _ in range(3 * len(old) + 4):
                if not any(scan(self.root, c.strong) for c in old):
                    break
                s = socket.socket(socket.AF_INET if self.family == 'tcp' else socket.AF_UNIX, socket.SOCK_STREAM)
                hi = socket.socket(fileno=fcntl.fcntl(s.fileno(), fcntl.F_DUPFD, 600))
                s.close()
                hi.settimeout(5)
                hi.connect(self.addr)
                extra.append(hi)
                self.kernel_pending(20)         # returns as soon as the listener is readable
                for _ in range(3):
                    self.root.tick(0)
        finally:
            for s in extra:
                s.close()
            for _ in range(8):
                self.root.tick(0)
            self.observing = True

    def teardown(self):
        from circuits.net import events as nev
        self.observing = False
        try:
            self.root.fire(nev.close(), 'srv')
            for _ in range(6):
                self.root.tick(0)
        except Exception:
            pass
        for q in self.peers.values():
            if q.get('sock') is not None:
                try:
                    q['sock'].close()
                except OSError:
                    pass
        _close_poller(self.poller)
        if self.tmpdir:
            shutil.rmtree(self.tmpdir, ignore_errors=True)


def _socket_attr(comp):
    """The one socket object among a component's instance attributes (found by type, not by name)."""
    for v in vars(comp).values():
        if isinstance(v, socket.socket):
            return v
    return None


def _close_poller(poller):
    for name in ('_ctrl_recv', '_ctrl_send'):
        fd = getattr(poller, name, None)
        try:
            if isinstance(fd, int):
                os.close(fd)
            elif fd is not None:
                fd.close()
        except OSError:
            pass
    kp = getattr(poller, '_poller', None)
    if kp is not None and hasattr(kp, 'close'):
        try:
            kp.close()
        except OSError:
            pass


def _short_events(evs):
    out = []
    for n, d in evs[:30]:
        if n == 'read':
            out.append('read(%d)' % len(d))
        elif d:
            out.append('%s(%s)' % (n, d))
        else:
            out.append(n)
    if len(evs) > 30:
        out.append('... %d more' % (len(evs) - 30))
    return out


# ================================================================================================
# client side
# ================================================================================================
class ClientWorld(World):
    def __init__(self, case, **kw):
        super().__init__(case, **kw)
        from circuits.net.sockets import TCPClient
        self.listener = socket.socket(socket.AF_INET, socket.SOCK_STREAM)
        self.listener.setsockopt(socket.SOL_SOCKET, socket.SO_RCVBUF, SMALL)     # inherited by the accepted sockets
        from vlib.netwait import retry_addr_in_use
        retry_addr_in_use(lambda: self.listener.bind(('127.0.0.1', 0)))
        self.listener.listen(16)
        self.listener.setblocking(False)
        self.addr = self.listener.getsockname()
        self.clients = {}
        self.h = {}            # client index -> harness-side socket of the current connection
        self.cwritten = {}
        self.unsettled = False
        self.late_client_writes = set()
        for i in range(case['clients']):
            ch = 'c%d' % i
            self.client_log[ch] = []
            self.clients[i] = TCPClient(channel=ch).register(self.root)
            self.cwritten[i] = 0
        self.quiet_step()

    def watch_fds(self):
        # descriptors whose readiness the components must react to: the clients' own sockets are not
        # known to the harness (never read by name), so the barrier is time-only on this side
        return []

    def state(self, i):
        s = 'idle'
        for n, _ in self.client_log['c%d' % i]:
            if n == 'connected':
                s = 'connected'
            elif n == 'disconnected':
                s = 'idle'
        return s

    def count(self, i, name):
        return sum(1 for n, _ in self.client_log['c%d' % i] if n == name)

    def wait(self, cond, hard=True):
        rounds = (50 if World.giveups < 5 else 10) if hard and not self.gave_up else 3
        for r in range(rounds):
            if not self.quiet_step():
                self.unsettled = True
            if cond():
                return True
            if hard:
                select.select([], [], [], 0.02)   # kernel delivery only; expiry is never a verdict by itself
        if hard and not cond():
            self.gave_up = True
            World.giveups += 1
        return cond()

    def fire(self, ev, i, kind='client'):
        ev._vharness = (kind, i)
        self.root.fire(ev, 'c%d' % i)

    def harness_event(self, event, kind, i):
        """A harness event is being dispatched to client i.  A write is *late* iff the client's socket is closed at
        that moment (it raced with a close / disconnect)."""
        if kind == 'cwrite':
            s = _socket_attr(self.clients[i])
            if s is None or s.fileno() < 0:
                self.marks.add('client_write_after_close')
                if self.skip_late:
                    event.stop()
                else:
                    self.late_client_writes.add(i)

    def do(self, op):
        from circuits.net import events as nev
        kind, i = op[0], op[1]
        hs = self.h.get(i)
        if kind == 'cconnect':
            if self.state(i) != 'idle':
                return
            if hs is not None:          # the harness end of the previous, already ended connection
                hs.close()
                self.h[i] = None
            n0 = self.count(i, 'connected')
            self.fire(nev.connect(self.addr[0], self.addr[1]), i)
            if not self.wait(lambda: self.count(i, 'connected') > n0):
                raise Inconclusive('client did not report connected on loopback')
            if n0:
                self.marks.add('client_reconnect')
            for _ in range(250):
                try:
                    s, _a = self.listener.accept()
                    break
                except BlockingIOError:
                    select.select([self.listener], [], [], 0.02)
            else:
                raise Inconclusive('harness could not accept the client connection')
            s.setblocking(False)
            self.h[i] = s
        elif kind == 'hsend':
            if hs is None:
                return
            try:
                hs.send(pattern(b'%d' % i, 0, op[2]))
            except OSError:
                pass
            n0 = self.count(i, 'read')
            self.wait(lambda: self.count(i, 'read') > n0 or self.state(i) == 'idle', hard=self.state(i) == 'connected')
        elif kind in ('hclose', 'habort', 'hshutwr'):
            if hs is None:
                return
            if self.state(i) == 'connected':
                self.marks.add({'hclose': 'client_peer_close', 'habort': 'client_peer_abort', 'hshutwr': 'client_peer_close'}[kind])
            if kind == 'hshutwr':
                try:
                    hs.shutdown(socket.SHUT_WR)
                except OSError:
                    pass
            else:
                if kind == 'habort':
                    _linger0(hs)
                hs.close()
                self.h[i] = None
            if not (len(op) > 2 and op[-1] == 'nw'):
                self.wait(lambda: self.state(i) == 'idle')
                if kind == 'hshutwr' and self.h.get(i) is not None:
                    self.h[i].close()
                    self.h[i] = None
        elif kind == 'cclose':
            if self.state(i) == 'connected':
                self.marks.add('client_local_close')
                if self.poller.isWriting(self._client_sock_is_writing(i)):
                    self.marks.add('client_close_while_buffered')
            self.fire(nev.close(), i)
            if not (len(op) > 2 and op[-1] == 'nw'):
                self.wait(lambda: self.state(i) == 'idle', hard=False)
                if self.state(i) == 'idle' and hs is not None:
                    hs.close()
                    self.h[i] = None
        elif kind == 'cwrite':
            if self.state(i) != 'connected':
                return
            self.fire(nev.write(b'C' * op[2]), i, 'cwrite')
            self.cwritten[i] += op[2]
            self.wait(lambda: False, hard=False)
        elif kind == 'hdrain':
            if hs is None:
                return
            try:
                while hs.recv(65536):
                    pass
            except OSError:
                pass
            self.wait(lambda: False, hard=False)
        else:
            raise ValueError(op)

    def _client_sock_is_writing(self, i):
        # the poller's public isWriting() needs the descriptor object; it is found generically: the one socket
        # object among the client's instance attributes
        return _socket_attr(self.clients[i])

    def run(self):
        from vlib.residue import fd_census
        problems = []
        counts = dict.fromkeys(REQUIRED_OBLIGATIONS, 0)
        for op in self.case['ops']:
            self.do(op)
        for i, hs in list(self.h.items()):
            if hs is not None:
                self.do(['hclose', i, 'nw'])
        done = self.wait(lambda: all(self.state(i) == 'idle' for i in self.clients))
        for i in self.clients:
            log = self.client_log['c%d' % i]
            st = 'idle'
            ncon = 0
            for k, (n, _) in enumerate(log):
                if n == 'connected':
                    ncon += 1
                    if st == 'connected':
                        counts['CLIENT_ONE_DISCONNECTED_PER_CONNECTED'] += 1
                        problems.append(('CLIENT_ONE_DISCONNECTED_PER_CONNECTED', 'connected-twice', {'client': i, 'at': k, 'events': _short_events(log)}))
                    st = 'connected'
                elif n == 'disconnected':
                    counts['CLIENT_ONE_DISCONNECTED_PER_CONNECTED'] += 1
                    if st != 'connected':
                        problems.append(('CLIENT_ONE_DISCONNECTED_PER_CONNECTED', 'extra-disconnected', {'client': i, 'at': k, 'events': _short_events(log)}))
                    st = 'idle'
            if st == 'connected':
                counts['CLIENT_ONE_DISCONNECTED_PER_CONNECTED'] += 1
                tag = 'client-late-write' if i in self.late_client_writes and self.case['poller'] == 'Select' else 'missing-disconnected'
                problems.append(('CLIENT_ONE_DISCONNECTED_PER_CONNECTED', tag, {'client': i, 'events': _short_events(log), 'settled': done,
                                                                                'writes_dispatched_while_its_socket_was_closed': i in self.late_client_writes}))
        return problems, counts

    def teardown(self):
        self.observing = False
        for hs in self.h.values():
            if hs is not None:
                try:
                    hs.close()
                except OSError:
                    pass
        self.listener.close()
        for i, c in self.clients.items():
            for v in list(vars(c).values()):
                if isinstance(v, socket.socket):
                    try:
                        v.close()
                    except OSError:
                        pass
        _close_poller(self.poller)


# ================================================================================================
def run_case(case, **kw):
    """-> (problems [(clause, tag, detail)], info)"""
    W = None
    try:
        W = (ClientWorld if case.get('side') == 'client' else ServerWorld)(case, **kw)
        problems, counts = W.run()
        if W.unsettled and not problems:
            raise Inconclusive('the tree kept producing events for %d ticks' % K_TICKS)
        nontrivial = _nontrivial(case, W)
        return problems, {'marks': set(W.marks), 'counts': counts, 'nontrivial': nontrivial, 'exceptions': W.exceptions[:5]}
    finally:
        if W is not None:
            try:
                W.teardown()
            finally:
                W = None
                gc.collect()


def _nontrivial(case, W):
    if case.get('side') == 'client':
        return any(sum(1 for n, _ in log if n == 'connected') >= 1 and any(n == 'read' for n, _ in log) for log in W.client_log.values()) and len(case['ops']) >= 3
    rich = len(W.order) >= 2 or bool(W.late_ops) or any(v for v in W.swritten.values())
    return rich and any(any(n == 'read' for n, _ in c.events) and W.disconnected(c) for c in W.conns)


# ------------------------------------------------------------------------------------------------
# corpus and generators
# ------------------------------------------------------------------------------------------------
def corpus_histories():
    C, S, H, X, A, D, W, Z = 'connect', 'send', 'shutwr', 'close', 'abort', 'drain', 'swrite', 'sclose'
    hs = []
    hs.append(('basic', {}, [[C, 0], [S, 0, 100], [S, 0, 10], [X, 0]], []))
    hs.append(('read-split', {'bufsize': 512}, [[C, 0], [S, 0, 3000], [S, 0, 1], [X, 0]], []))
    hs.append(('half-close', {}, [[C, 0], [S, 0, 700], [H, 0], [X, 0]], []))
    hs.append(('half-close-then-server-write', {}, [[C, 0], [S, 0, 70], [H, 0, 'nw'], [W, 0, 50], [D, 0], [X, 0]], []))
    hs.append(('abort', {}, [[C, 0], [S, 0, 300], [A, 0]], []))
    hs.append(('reset-before-accept', {}, [[C, 0], [S, 0, 10], [C, 1, 'nw'], [A, 1], [S, 0, 10], [C, 2], [S, 2, 30], [X, 2], [X, 0]], []))
    hs.append(('reset-before-accept-with-data-queued', {}, [[C, 0, 'nw'], [S, 0, 100, 'nw'], [A, 0], [C, 1], [S, 1, 30], [X, 1]], [[W, 0, 5]]))
    hs.append(('reset-before-accept-among-pending', {}, [[C, 0, 'nw'], [C, 1, 'nw'], [C, 2, 'nw'], [A, 1], [S, 0, 10], [S, 2, 20], [X, 0], [H, 2]], []))
    hs.append(('abort-with-unread-data', {}, [[C, 0], [S, 0, 300, 'nw'], [A, 0]], []))
    hs.append(('echo-like', {}, [[C, 0], [S, 0, 64], [W, 0, 64], [D, 0], [S, 0, 64], [W, 0, 64], [D, 0], [X, 0]], []))
    hs.append(('server-close', {}, [[C, 0], [S, 0, 20], [Z, 0], [X, 0]], []))
    hs.append(('server-close-after-write', {}, [[C, 0], [S, 0, 20], [W, 0, 200, 'nw'], [Z, 0], [D, 0], [X, 0]], []))
    hs.append(('full-buffer-peer-close', {'small': True}, [[C, 0], [S, 0, 100], [W, 0, 400000], [X, 0]], []))
    hs.append(('full-buffer-peer-abort', {'small': True}, [[C, 0], [S, 0, 100], [W, 0, 400000], [A, 0]], []))
    hs.append(('full-buffer-server-close-then-peer-abort', {'small': True}, [[C, 0], [W, 0, 400000], [Z, 0], [S, 0, 10], [A, 0]], []))
    hs.append(('full-buffer-server-close-then-drain', {'small': True}, [[C, 0], [W, 0, 300000], [Z, 0], [D, 0], [D, 0], [D, 0], [D, 0], [X, 0]], []))
    hs.append(('full-buffer-half-close', {'small': True}, [[C, 0], [W, 0, 400000], [S, 0, 10], [H, 0], [D, 0], [D, 0], [D, 0], [X, 0]], []))
    hs.append(('half-close-while-buffered-then-peer-gone', {'small': True}, [[C, 0], [S, 0, 20000], [H, 0, 'nw'], [W, 0, 400000], [A, 0]], []))
    hs.append(('late-write-before-disconnect-is-dispatched', {}, [[C, 0], [S, 0, 5000], [Z, 0, 'nw'], ['step', 1], [W, 0, 1]], []))
    hs.append(('late-write', {}, [[C, 0], [S, 0, 10], [X, 0], [W, 0, 30]], []))
    hs.append(('late-close', {}, [[C, 0], [S, 0, 10], [X, 0], [Z, 0]], []))
    hs.append(('late-write-then-close', {}, [[C, 0], [C, 1], [S, 0, 10], [A, 0], [S, 1, 5]], [[W, 0, 30], [Z, 0], [W, 1, 3]]))
    hs.append(('write-and-peer-close-same-tick', {}, [[C, 0], [S, 0, 10], [X, 0, 'nw'], [W, 0, 30]], []))
    hs.append(('close-event-and-peer-close-same-tick', {}, [[C, 0], [S, 0, 10], [X, 0, 'nw'], [Z, 0]], []))
    hs.append(('three-at-once', {}, [[C, 0, 'nw'], [C, 1, 'nw'], [C, 2], [S, 0, 10, 'nw'], [S, 1, 20, 'nw'], [S, 2, 30], [X, 1], [H, 0], [A, 2]], []))
    hs.append(('six', {'bufsize': 256}, [[C, i, 'nw'] for i in range(6)] + [[S, i, 100 * (i + 1), 'nw'] for i in range(6)] + [['step', 2]] +
               [[X, 0, 'nw'], [A, 1, 'nw'], [H, 2, 'nw'], [Z, 3, 'nw'], [W, 4, 100, 'nw'], [X, 5]], [[W, 0, 5], [Z, 1]]))
    for k in (1, 2, 3, 5):
        hs.append(('server-wide-close-%d' % k, {}, [[C, i] for i in range(k)] + [[S, i, 10 * (i + 1)] for i in range(k)] + [['scloseall']], [[W, 0, 5], [Z, k - 1]]))
        hs.append(('server-wide-close-%d-idle' % k, {}, [[C, i] for i in range(k)] + [['scloseall']], []))
    hs.append(('server-wide-close-mixed', {'small': True}, [[C, 0], [C, 1], [C, 2], [C, 3], [S, 0, 10], [W, 1, 400000], [H, 2], [S, 3, 30, 'nw'], ['scloseall'],
                                                            [D, 1], [D, 1], [D, 1], [D, 1], [X, 1]], [[W, 2, 5]]))
    hs.append(('server-wide-close-after-some-left', {}, [[C, 0], [C, 1], [C, 2], [C, 3], [X, 1], [A, 2], ['scloseall', 'nw'], [S, 0, 5, 'nw'], ['step', 2]], []))
    hs.append(('reconnect-same-fd-number', {}, [[C, 0], [S, 0, 10], [X, 0], [C, 1], [S, 1, 10], [X, 1], [C, 2], [S, 2, 10], [A, 2]], []))
    return hs


def corpus():
    cs = []
    for name, opts, ops, late in corpus_histories():
        for poller in POLLERS:
            for fam in ('tcp', 'unix'):
                case = {'name': name, 'poller': poller, 'family': fam, 'ops': ops, 'late': late}
                case.update(opts)
                cs.append(case)
    CC, HS, HC, HA, HH, CX, CW, HD = 'cconnect', 'hsend', 'hclose', 'habort', 'hshutwr', 'cclose', 'cwrite', 'hdrain'
    chs = [
        ('c-peer-close', 1, [[CC, 0], [HS, 0, 50], [HC, 0]]),
        ('c-peer-abort', 1, [[CC, 0], [HS, 0, 50], [HA, 0]]),
        ('c-peer-half-close', 1, [[CC, 0], [HS, 0, 50], [HH, 0]]),
        ('c-local-close', 1, [[CC, 0], [HS, 0, 50], [CX, 0]]),
        ('c-local-close-twice', 1, [[CC, 0], [CX, 0, 'nw'], [CX, 0], [CX, 0]]),
        ('c-peer-close-and-local-close-same-tick', 1, [[CC, 0], [HS, 0, 5], [HC, 0, 'nw'], [CX, 0]]),
        ('c-peer-abort-and-local-close-same-tick', 1, [[CC, 0], [HA, 0, 'nw'], [CX, 0]]),
        ('c-reconnect', 2, [[CC, 0], [CC, 1], [HS, 0, 5], [HC, 0], [CC, 0], [HS, 0, 7], [CX, 0], [CC, 0], [HA, 0], [HA, 1]]),
        ('c-close-while-buffered', 1, [[CC, 0], [CW, 0, 8000000], [CX, 0], [HD, 0], [HD, 0], [HD, 0], [HD, 0], [HC, 0]]),
        ('c-close-while-buffered-peer-abort', 1, [[CC, 0], [CW, 0, 8000000], [CX, 0], [HA, 0]]),
        ('c-write-races-with-close-then-reconnect', 1, [[CC, 0], [CX, 0, 'nw'], [CW, 0, 1000], [CC, 0], [HS, 0, 5], [CX, 0], [HC, 0]]),
        ('c-write-then-peer-close', 1, [[CC, 0], [CW, 0, 100], [HC, 0, 'nw'], [CW, 0, 100], [CW, 0, 100]]),
        # a connection that ends abruptly while the client still holds unsent data must leave nothing behind for the NEXT connection
        ('c-abort-while-buffered-then-reconnect-and-close', 1, [[CC, 0], [CW, 0, 8000000], [CW, 0, 1000], [CW, 0, 10], [HA, 0], [CC, 0], [HS, 0, 5], [CX, 0], [HC, 0]]),
        ('c-peer-close-while-buffered-then-reconnect-and-close', 1, [[CC, 0], [CW, 0, 8000000], [CW, 0, 1000], [HC, 0], [CC, 0], [CX, 0], [HC, 0]]),
    ]
    for name, n, ops in chs:
        for poller in POLLERS:
            cs.append({'name': name, 'side': 'client', 'poller': poller, 'clients': n, 'ops': ops})
    return cs


def gen_server_case(rng, poller=None, family=None):
    n = rng.choice([1, 1, 2, 2, 3, 3, 4, 5, 6])
    small = rng.random() < 0.3
    case = {'poller': poller or rng.choice(POLLERS), 'family': family or rng.choice(['tcp', 'tcp', 'unix']),
            'bufsize': rng.choice([64, 512, 4096, 4096]), 'small': small}
    ops = []
    alive = set()
    ended = set()
    nxt = 0
    for _ in range(rng.randint(4, 28)):
        r = rng.random()
        nw = ['nw'] if rng.random() < 0.3 else []
        if (not alive and nxt < n) or (r < 0.18 and nxt < n):
            ops.append(['connect', nxt] + nw)
            alive.add(nxt)
            nxt += 1
            continue
        if not alive and not ended:
            continue
        if r < 0.45 and alive:
            p = rng.choice(sorted(alive))
            ops.append(['send', p, rng.choice([1, 7, 64, 300, 1000, 5000, 20000])] + nw)
        elif r < 0.53 and alive:
            p = rng.choice(sorted(alive))
            ops.append(['shutwr', p] + nw)
        elif r < 0.63 and alive:
            p = rng.choice(sorted(alive))
            ops.append([rng.choice(['close', 'close', 'abort']), p] + nw)
            alive.discard(p)
            ended.add(p)
        elif r < 0.78 and (alive or ended):
            pool = sorted(alive) * 3 + sorted(ended)
            p = rng.choice(pool)
            big = small and rng.random() < 0.5
            ops.append(['swrite', p, rng.choice([100000, 400000]) if big else rng.choice([1, 50, 2000])] + nw)
        elif r < 0.88 and (alive or ended):
            pool = sorted(alive) * 2 + sorted(ended)
            p = rng.choice(pool)
            ops.append(['sclose', p] + nw)
            if p in alive and rng.random() < 0.5:
                alive.discard(p)
                ended.add(p)
        elif r < 0.95 and alive:
            ops.append(['drain', rng.choice(sorted(alive))])
        else:
            ops.append(['step', rng.randint(1, 3)])
    if rng.random() < 0.2:
        ops.insert(rng.randint(max(0, len(ops) - 6), len(ops)), ['scloseall'] + (['nw'] if rng.random() < 0.3 else []))
    late = []
    for p in range(nxt):
        r = rng.random()
        if r < 0.2:
            late.append(['swrite', p, rng.choice([1, 100])])
        elif r < 0.35:
            late.append(['sclose', p])
        elif r < 0.4:
            late.extend([['swrite', p, 10], ['sclose', p]])
    case['ops'] = ops
    case['late'] = late
    return case


def gen_client_case(rng, poller=None):
    n = rng.randint(1, 3)
    ops = []
    for _ in range(rng.randint(3, 16)):
        i = rng.randrange(n)
        r = rng.random()
        nw = ['nw'] if rng.random() < 0.3 else []
        if r < 0.3:
            ops.append(['cconnect', i])
        elif r < 0.5:
            ops.append(['hsend', i, rng.choice([1, 100, 5000])])
        elif r < 0.62:
            ops.append(['hclose', i] + nw)
        elif r < 0.72:
            ops.append(['habort', i] + nw)
        elif r < 0.77:
            ops.append(['hshutwr', i])
        elif r < 0.9:
            ops.append(['cclose', i] + nw)
        elif r < 0.97:
            ops.append(['cwrite', i, rng.choice([10, 1000, 8000000])])
        else:
            ops.append(['hdrain', i])
    return {'side': 'client', 'poller': poller or rng.choice(POLLERS), 'clients': n, 'ops': ops}


def plan(tier, seed):
    if tier == 'quick':
        specs = [{'kind': 'corpus', 'part': i, 'parts': 3} for i in range(3)]
        for poller in POLLERS:
            specs += [{'kind': 'random', 'seed': seed * 1000 + i, 'n': 70, 'poller': poller} for i in range(3)]
        specs += [{'kind': 'clients', 'seed': seed * 1000 + 500 + i, 'n': 80} for i in range(2)]
        return specs
    specs = [{'kind': 'corpus', 'part': i, 'parts': 3} for i in range(3)]
    for poller in POLLERS:
        specs += [{'kind': 'random', 'seed': seed * 100000 + i, 'n': 1000, 'poller': poller} for i in range(8)]
    specs += [{'kind': 'clients', 'seed': seed * 100000 + 50000 + i, 'n': 1000} for i in range(6)]
    return specs


# ------------------------------------------------------------------------------------------------
KNOWN_BY_TAG = {'epoll-map': KEY_EPOLL_MAP, 'late-op': KEY_LATE, 'write-failed': KEY_WRITE_ERR, 'closeq': KEY_CLOSEQ, 'client-late-write': KEY_CLIENT_LATE}
NEUTRALISER = {'epoll-map': 'reuse_fds', 'late-op': 'skip_late', 'write-failed': 'skip_swrite', 'closeq': 'skip_swrite', 'client-late-write': 'skip_late'}
ATTRIBUTABLE = ('NO_RESIDUE', 'SOCKET_RELEASED', 'CLIENT_ONE_DISCONNECTED_PER_CONNECTED')


def classes_of(problems):
    return {(cl, tag) for cl, tag, _ in problems}


def explained(case, kw, must_be_gone):
    """Counter-factual attribution with several open findings: run the case with the triggers in ``kw``
    neutralised.  True iff no failure carrying a neutralised mechanism remains and whatever else remains
    is made of known mechanisms only and is, in turn, explained by neutralising those as well."""
    try:
        problems, _ = run_case(case, name_holders=False, **kw)
    except Inconclusive:
        return False
    parts = set()
    for clause, tag in classes_of(problems):
        if clause not in ATTRIBUTABLE:
            return False
        parts.update(tag.split('+'))
    if parts & set(must_be_gone) or any(p not in NEUTRALISER for p in parts):
        return False
    if not parts:
        return True
    nxt = sorted(parts)[0]
    return explained(case, dict(kw, **{NEUTRALISER[nxt]: True}), list(must_be_gone) + [nxt])


def evaluate_case(b, case):
    try:
        with cpu_budget(120):
            problems, info = run_case(case)
    except BudgetExceeded as e:
        b.fail(case, 'NO_PROGRESS', {'error': str(e)}, dedup='')
        return
    except Inconclusive as e:
        b.inconclusive_because('%s (case %s)' % (e, case.get('name', '')))
        return
    except Exception as e:
        import traceback
        b.fail(case, 'HARNESS_RAISED', {'error': repr(e), 'tb': traceback.format_exc(limit=8)}, dedup=type(e).__name__)
        return
    b.case(case, nontrivial=info['nontrivial'])
    if not problems:
        # the shortened waits are for trees that already failed an obligation; a bounded wait that expired in a case which then met every
        # obligation must not make later cases of this process impatient
        World.giveups = 0
    for m in info['marks']:
        b.reached(m)
    groups = {}
    per_clause = {}
    for clause, tag, detail in problems:
        groups.setdefault((clause, tag), detail)
        per_clause[clause] = per_clause.get(clause, 0) + 1
    for clause, n in info['counts'].items():
        good = n - per_clause.get(clause, 0)
        if good > 0:
            b.ok(clause, good)
    memo = {}
    for (clause, tag), detail in groups.items():
        known = []
        if clause in ATTRIBUTABLE:
            for part in tag.split('+'):
                if part in KNOWN_BY_TAG:
                    known.append((KNOWN_BY_TAG[part], _twin(case, part, memo)))
        detail = dict(detail, mechanism_class=tag, exceptions=info.get('exceptions'))
        b.fail(case, clause, detail, known=known, dedup='%s/%s' % (tag, case.get('poller')))


def _twin(case, part, memo):
    """The same history with only the trigger of one mechanism neutralised (late events dropped / server writes
    to live sockets dropped / descriptor numbers re-used)."""
    def twin():
        if part not in memo:
            with cpu_budget(240):
                memo[part] = explained(case, {NEUTRALISER[part]: True}, [part])
        return memo[part]
    return twin


def run_batch(spec):
    import circuits  # noqa: F401
    b = Batch(PROPERTY)
    if spec['kind'] == 'corpus':
        for i, case in enumerate(corpus()):
            if i % spec['parts'] == spec['part']:
                evaluate_case(b, case)
    elif spec['kind'] == 'random':
        rng = random.Random(spec['seed'] * 7 + POLLERS.index(spec['poller']))
        for _ in range(spec['n']):
            evaluate_case(b, gen_server_case(rng, poller=spec['poller']))
    else:
        rng = random.Random(spec['seed'])
        for _ in range(spec['n']):
            evaluate_case(b, gen_client_case(rng))
    return b.result()


def run_replay(case):
    import circuits  # noqa: F401
    b = Batch(PROPERTY)
    evaluate_case(b, unjson(case))
    return b.result()

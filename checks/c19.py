"""C19 - node: remote events run exactly once and their result comes back; peers cannot harm the loop.

Harness (DESIGN.md section 4, C19): real ``circuits.node.protocol.Protocol`` instances in separate
component trees (one tree = one process), stepped by the harness with ``tick()`` and joined by a
harness wire.  The wire takes the bytes each side hands to its ``write`` path and re-delivers them
to the other side's ``add_buffer`` re-cut at arbitrary offsets.  Oracles: an independent model of
what was sent (the declarative case), a reference stream parser (json.raw_decode + delimiter), the
case's own firewall predicates, and marker values for hostile metadata.
"""
import copy
import json
import random
import re

from vlib.batch import Batch, short_hash, unjson

PROPERTY = 'C19'
LEVEL = 'exploration'
RULE = ('fixed corpus (one case per mechanism: every cut class, byte-at-a-time, >4 KiB both directions, 1-5 calls in flight, '
        'both directions, every receiver behaviour, both firewalls on both sides, two connections in one server tree, two and three outgoing '
        'connections in one client tree (the Node.add() topology) with failing remote handlers, every '
        'hostile packet class, every dispatcher attribute name as hostile metadata key) + every single cut of a short call and of '
        'its answer + seeded random cases of three kinds: calls (generated JSON payloads, 1-5 in flight, random chunk sizes), '
        'hostile (grammar of JSON mutations / wrong types per field / hostile metadata keys / unhashable channels / deep nesting / '
        'oversized, each followed by a local canary), roundtrip (dump/load of generated events and values). non-trivial = calls: '
        'at least one call was executed on the peer and (a chunk boundary fell inside a packet, or >=2 calls were in flight, or a '
        'packet exceeded 4096 bytes, or a firewall rejected something, or a receiver handler raised/yielded); hostile: at least '
        'one hostile packet reached add_buffer and the canary was evaluated; roundtrip: non-empty args or kwargs. distinct = hash '
        'of the declarative case')
ASSUMPTIONS = [
    'one component tree models one process: the class-level state of Protocol is partitioned per tree by the harness (only while it is class-level)',
    'the wire is a reliable ordered byte stream; chunk boundaries are the only freedom (TCP semantics); what is still held back when the system is quiet is delivered as a short read',
    'payloads are JSON-native (str/int/float/bool/None/list/dict with str keys); kwargs named self/event/_name are excluded (Python call convention)',
    'a liveness obligation (sender resumed) is decided at quiescence of a single-threaded system: every queue empty, no bytes in the wire, nothing changed during 4 consecutive rounds',
    'the error flag of a failed remote call is accepted in either place the protocol can put it (event.errors or value.errors)',
    'the remote canary after a hostile packet (same connection) is counted, not asserted: the statement protects the local loop, not the hostile peer\'s connection',
    'during the hostile phase the harness is the peer: what the victim writes is read and ignored (two real Protocols would otherwise bounce an event named send for ever)',
    'a failing case is attributed to known findings only through neutralised twins; when several known triggers are present the smallest set of triggers whose neutralisation makes the case pass is used',
]
REQUIRED = ['calls_in_flight_on_several_outgoing_connections_with_equal_packet_ids', 'remote_handler_returned_a_falsy_result', 'firewalls_given_to_a_node_component_server', 'firewalls_given_to_a_node_component_node', 'firewalls_given_to_a_node_component_client', 'send_and_receive_firewalls_disagree', 'locally_fired_event_bound_to_the_peer', 'event_relayed_to_another_connection', 'calls_executed_remotely', 'results_received', 'cut_inside_packet', 'cut_inside_delimiter', 'byte_at_a_time_cases',
            'packet_over_4k', 'inflight_ge2', 'server_to_client_calls', 'client_to_server_calls', 'send_firewall_rejections',
            'recv_firewall_rejections', 'firewall_consulted', 'receiver_raised', 'receiver_generator', 'hostile_packets',
            'hostile_meta_keys_tried', 'hostile_unhashable_channels', 'hostile_truncated', 'hostile_wrong_type', 'hostile_deep_nesting',
            'hostile_oversized', 'hostile_value_packets_inflight', 'local_canary_dispatched', 'roundtrip_events', 'roundtrip_values',
            'two_connection_cases', 'call_style_waits', 'attr_snapshots', 'hub_topology', 'hub_receiver_raised_with_other_connection_in_flight']
REQUIRED_OBLIGATIONS = ['EXACTLY_ONCE', 'RESULT_BACK', 'PAYLOAD_PRESERVED', 'ROUNDTRIP', 'FIREWALL_SEND', 'FIREWALL_RECV',
                        'LOOP_SURVIVES', 'ATTRS_INTACT']
WORKER_TIMEOUT = {'quick': 300, 'thorough': 1500}

DELIM = b'~~~'
BIG = 10 ** 9
MISSING = '<missing>'
CHANNEL_APPS = {'app': 'app', 'aux': 'aux', 'node': 'node'}
BOOM = ('boom', 'genboom')

K_CUT = 'node.cut-packet-dropped'
K_BOOM = 'node.remote-failure-never-answered'
K_META = 'node.meta-cause-effects-kill-loop'
K_UNHASH = 'node.unhashable-channels-kill-loop'
K_SHARED = 'node.shared-inflight-table'
K_BCAST = 'node.result-broadcast-to-all-connections'
K_VALUEKW = 'node.payload-key-named-value-misrouted'
K_DELIM = 'node.delimiter-in-payload'
K_INIT = 'node.remote-init-resets-firewall'
META_TRIGGER_KEYS = ('cause', 'effects', 'complete_channels')


def canon(x):
    """Type-strict canonical text of a JSON-native value (1, 1.0 and true stay different)."""
    try:
        return json.dumps(x, sort_keys=True)
    except (TypeError, ValueError):
        return 'unjsonable:' + repr(x)


def digest(args, kwargs):
    return short_hash([args, kwargs])


def denied(pred, name, channels):
    """The case's firewall predicate, evaluated by the oracle on the declarative call."""
    if not pred:
        return False
    if name in pred.get('deny_names', ()):
        return True
    if any(c in pred.get('deny_channels', ()) for c in channels):
        return True
    if pred.get('deny_all'):
        return True
    return False


# ------------------------------------------------------------------------------------------------
# the real components, built lazily (circuits is imported inside the worker)
# ------------------------------------------------------------------------------------------------
_CLS = {}


def classes():
    if _CLS:
        return _CLS
    from circuits import BaseComponent, handler
    from circuits.core.events import Event

    class Root(BaseComponent):
        """Top of one tree: the wire endpoint (write/read) and the dispatch monitor."""

        def __init__(self, tree):
            super().__init__(channel='node')
            self.vt = tree

        @handler('write', priority=100)
        def _vq7_on_write(self, *args, **kwargs):
            self.vt.on_write(args)

        @handler('write', channel='*', priority=100)
        def _vq7_on_write_hub(self, event, *args, **kwargs):
            # a tree with several outgoing connections (what Node.add() builds): every client-side Protocol has its own channel
            if self.vt.hub:
                self.vt.on_write_hub(event.channels, args)

        @handler('vq7_read')
        def _vq7_on_read(self, k, data):
            # what circuits.node.server.Server._on_read / client.Client._on_read do
            self.vt.protos[k].add_buffer(data)

        @handler(channel='*', priority=1000)
        def _vq7_monitor(self, event, *args, **kwargs):
            if hasattr(event, 'node_call_id') and not event.name.startswith('vq7_'):
                # a '*' handler is invoked once per channel the event was fired on; the oracle divides by that
                self.vt.world.log.append(('dispatch', self.vt.tid, event.name, canon(list(event.args)), canon(dict(event.kwargs)),
                                          canon(list(event.channels))))

        @handler('exception', channel='*', priority=100)
        def _vq7_on_exception(self, etype, evalue, tb, handler=None, fevent=None):
            self.vt.world.log.append(('exception', self.vt.tid, getattr(etype, '__name__', str(etype)), str(evalue)[:200],
                                      getattr(fevent, 'name', None)))

    class App(BaseComponent):
        """Receiver of remote events: a catch-all handler on one channel whose behaviour is looked up by event name."""

        def __init__(self, tree, tag, channel):
            super().__init__(channel=channel)
            self.vt = tree
            self.tag = tag

        @handler(priority=0)
        def _vq7_any(self, event, *args, **kwargs):
            w = self.vt.world
            name = event.name
            if name == 'vq7_canary':
                w.log.append(('canary', self.vt.tid, self.tag, args[0] if args else None))
                return None
            if not hasattr(event, 'node_call_id'):
                return None
            b = w.behaviour.get(name, 'ret')
            args = list(event.args)
            kwargs = dict(event.kwargs)
            w.log.append(('exec', self.vt.tid, self.tag, name, canon(args), canon(kwargs), b))
            if b == 'relay':
                # a node that relays: the hub passes the very event it is handling (which arrived over connection 0) on to the peer of
                # connection 1 and waits for it; everywhere else the event is simply answered
                if self.vt.hub and len(self.vt.protos) >= 2 and getattr(event, 'node_sock', None) is self.vt.socks[0] \
                        and not getattr(event, '_vq7_relayed', False):
                    event._vq7_relayed = True
                    w.marks.add('event_relayed_to_another_connection')
                    return self._vq7_relay(event)
                b = 'ret'
            if b == 'ret':
                return {'r': name, 't': self.tag, 'd': digest(args, kwargs)}
            if b == 'echo':
                return {'a': args, 'k': kwargs, 't': self.tag}
            if b == 'arg0':     # the handler's result is its first argument as it is: 0, False, '', [], {} are results like any other
                if args and args[0] is not None and not args[0]:
                    w.marks.add('remote_handler_returned_a_falsy_result')
                return args[0] if args else 0
            if b == 'none':
                return None
            if b == 'boom':
                raise RuntimeError('boom %s' % name)
            if b in ('gen', 'genboom'):
                return self._vq7_gen(name, args, kwargs, b)
            return None

        def _vq7_relay(self, event):
            yield self.call(Event.create('vq7_topeer', event, 1), 'snd')

        def _vq7_gen(self, name, args, kwargs, b):
            w = self.vt.world
            for i in range(2):
                w.log.append(('genstep', self.vt.tid, self.tag, name, i))
                yield None
            if b == 'genboom':
                raise RuntimeError('genboom %s' % name)
            yield {'g': name, 't': self.tag, 'd': digest(args, kwargs)}

    class Sender(BaseComponent):
        channel = 'snd'

        def __init__(self, tree):
            super().__init__(channel='snd')
            self.vt = tree

        @handler('vq7_call')
        def _vq7_call(self, idx):
            """Style 'direct': the handler *is* the waiting generator around Protocol.send()."""
            w = self.vt.world
            ev, proto = w.make_event(idx)
            for v in proto.send(ev):
                if v is None:
                    yield None
                else:
                    w.resumed(idx, v, ev)
                    yield v

        @handler('vq7_remote')
        def _vq7_remote(self, idx):
            """What circuits.node.node.Node.__on_remote does: return the generator of send()."""
            ev, proto = self.vt.world.make_event(idx)
            return proto.send(ev)

        @handler('vq7_callw')
        def _vq7_callw(self, idx):
            """Style 'call': ``x = yield self.call(remote(...))`` as documented for Node."""
            w = self.vt.world
            x = yield self.call(Event.create('vq7_remote', idx), 'snd')
            w.resumed(idx, x, w.sent_events.get(idx))

        @handler('vq7_bound')
        def _vq7_bound(self, idx):
            """Style 'bound' (what Node.add(..., auto_remote_event=...) sets up): the event is fired locally, and a handler of that event
            hands the very same object to send().  The promise fire() returned is what the sender holds on to."""
            w = self.vt.world
            ev, proto = w.make_event(idx)
            w.bound[id(ev)] = [idx, proto, ev, False]
            w.promises[idx] = self.fire(ev, *ev.channels)

        @handler(channel='*', priority=-1)
        def _vq7_bind(self, event, *args, **kwargs):
            ent = self.vt.world.bound.get(id(event))
            if ent is None or ent[2] is not event or ent[3]:
                return None
            ent[3] = True
            return self._vq7_bind_wait(ent[0], ent[1], event)

        def _vq7_bind_wait(self, idx, proto, ev):
            w = self.vt.world
            for v in proto.send(ev):
                if v is None:
                    yield None
                else:
                    w.marks.add('locally_fired_event_bound_to_the_peer')
                    w.resumed(idx, w.promises[idx], ev)

        @handler('vq7_topeer')
        def _vq7_topeer(self, ev, k):
            return self.vt.protos[k].send(ev)

        @handler('vq7_nores')
        def _vq7_nores(self, idx):
            """What Server.send(no_result=True) does."""
            ev, proto = self.vt.world.make_event(idx)
            it = proto.send(ev)
            ev.node_without_result = True
            try:
                next(it)
            except StopIteration:
                pass

    class vq7_read(Event):
        pass

    class vq7_canary(Event):
        pass

    _CLS.update(Root=Root, App=App, Sender=Sender, Event=Event, read=vq7_read, canary=vq7_canary)
    return _CLS


_ATTRS = []


def dispatcher_attrs():
    """Names of the event attributes the dispatcher reads or writes, harvested at run time."""
    if _ATTRS:
        return _ATTRS
    import inspect

    import circuits.core.manager as M
    import circuits.core.values as V
    from circuits.core.events import Event, generate_events
    src = inspect.getsource(M) + inspect.getsource(V)
    names = set(vars(Event)) | set(vars(Event()))
    names |= set(re.findall(r'\bevent\.(\w+)', src))
    names |= set(re.findall(r"(?:get|set|del|has)attr\(\s*(?:self\.)?(?:event|_currently_handling)\s*,\s*'(\w+)'", src))
    names |= set(re.findall(r'_currently_handling\.(\w+)', src))
    names |= {'cause', 'effects', 'complete_channels', 'success_channels', 'waitingHandlers', 'alert_done', 'handler', 'value',
              'stopped', 'cancelled', 'complete', 'success', 'failure', 'notify', 'channels', 'name', 'args', 'kwargs', 'parent', 'uid'}
    # attributes that only exist on generate_events (which a peer cannot instantiate) are not asserted
    only_ge = set(dir(generate_events)) - set(dir(Event))
    names = {n for n in names if not n.startswith('__') and n not in only_ge}
    _ATTRS.extend(sorted(names))
    return _ATTRS


def snapshot(ev):
    out = {}
    for k in dispatcher_attrs():
        try:
            v = getattr(ev, k, MISSING)
        except Exception as e:  # noqa: BLE001
            v = 'raised:' + type(e).__name__
        if isinstance(v, tuple):
            v = list(v)
        if v is None or isinstance(v, (str, int, float, bool, list, dict)):
            out[k] = canon(v)
        else:
            out[k] = '<object %s>' % type(v).__name__
    return out


# ------------------------------------------------------------------------------------------------
# the world: trees, links, wire, stepping
# ------------------------------------------------------------------------------------------------
class Unsettled(Exception):
    pass


class Runaway(Exception):
    """The observation log of one case exceeded its budget (legitimate cases log < 100 entries): the oracle is evaluated on
    what was seen so far - counts can only grow, so 'more than once' is already decided."""


LOG_BUDGET = 4000


class Tree:
    def __init__(self, world, tid, server, nprotos, fw, hub=False):
        from circuits.node.protocol import Protocol
        self.hub = hub

        from vlib.inject import FakeSock
        C = classes()
        self.world = world
        self.tid = tid
        self.server = server
        self.root = C['Root'](self)
        self.protos = []
        self.socks = []
        self.links = []      # link object per proto index
        fw = fw or {}
        self.fw_send = self._mkfw(fw.get('send'), 'send')
        self.fw_recv = self._mkfw(fw.get('recv'), 'recv')
        table = {}
        for k in range(nprotos):
            sock = FakeSock(('127.0.0.1', 40000 + k)) if server else None
            p = Protocol(sock=sock, server=(object() if server else None), channel=('node%d' % k if hub else 'node'),
                         receive_event_firewall=self.fw_recv, send_event_firewall=self.fw_send)
            # one tree = one process: partition the class-level in-flight table per tree (see ASSUMPTIONS).  If the
            # table is (made) per instance by the code under test, nothing is touched.
            if '_Protocol__events' in vars(Protocol) and '_Protocol__events' not in vars(p):
                p._Protocol__events = table
            else:
                world.marks.add('inflight_table_per_instance')
            self._wrap_fire(p)
            p.register(self.root)
            self.protos.append(p)
            self.socks.append(sock)
        self.apps = [C['App'](self, tag, ch).register(self.root) for ch, tag in sorted(CHANNEL_APPS.items())]
        if hub:
            # an event without channels is fired on the receiving Protocol's own channel: the 'node' application listens on each of them
            self.apps += [C['App'](self, 'node', 'node%d' % k).register(self.root) for k in range(nprotos)]
        self.sender = C['Sender'](self).register(self.root)
        self.tick_errors = []

    def _mkfw(self, pred, which):
        if pred is None:
            return None
        world = self.world
        tid = self.tid

        def fw(event, sock):
            world.log.append(('fw', tid, which, event.name))
            return not denied(pred, event.name, tuple(event.channels))
        return fw

    def _wrap_fire(self, p):
        world = self.world
        tid = self.tid
        real = p.fire

        def fire(event, *channels, **kwargs):
            if hasattr(event, 'node_call_id'):
                world.snaps.append((tid, getattr(event, 'name', None), snapshot(event)))
            return real(event, *channels, **kwargs)
        p.fire = fire
        p.fireEvent = fire

    def on_write_hub(self, channels, args):
        k = [i for i in range(len(self.protos)) if 'node%d' % i in channels]
        if len(k) != 1 or len(args) != 1 or not isinstance(args[0], bytes):
            self.world.log.append(('junk_write', self.tid))
            return
        self.links[k[0]].wrote(self, args[0])

    def on_write(self, args):
        if self.hub:
            return
        if self.server:
            if len(args) != 2 or not isinstance(args[1], bytes):
                self.world.log.append(('junk_write', self.tid))
                return
            for k, s in enumerate(self.socks):
                if s is args[0]:
                    self.links[k].wrote(self, args[1])
                    return
            self.world.log.append(('junk_write', self.tid))
        else:
            if len(args) != 1 or not isinstance(args[0], bytes):
                self.world.log.append(('junk_write', self.tid))
                return
            self.links[0].wrote(self, args[0])

    def tick(self):
        try:
            self.root.tick()
        except Exception as e:  # noqa: BLE001  - this is what ends Manager.run()
            import traceback
            self.tick_errors.append((type(e).__name__, str(e)[:200], traceback.format_exc(limit=-3)[-600:]))
            self.world.log.append(('tick_raised', self.tid, type(e).__name__))

    def busy(self):
        return len(self.root)


class Link:
    """One connection: client tree <-> one Protocol of the server tree."""

    def __init__(self, world, k, ctree, stree, cuts, burst, hub=False):
        self.world = world
        self.k = k
        if hub:      # the client tree holds several client-side Protocols, every server tree one
            self.ends = {'c2s': (ctree, k, stree, 0), 's2c': (stree, 0, ctree, k)}
        else:
            self.ends = {'c2s': (ctree, 0, stree, k), 's2c': (stree, k, ctree, 0)}
        self.stream = {'c2s': bytearray(), 's2c': bytearray()}
        self.delivered = {'c2s': 0, 's2c': 0}
        self.ptr = {'c2s': 0, 's2c': 0}
        self.bounds = {'c2s': [], 's2c': []}
        self.cuts = cuts
        self.burst = burst
        self.blocked = {'c2s': False, 's2c': False}   # hostile cases: the harness plays one end itself

    def wrote(self, tree, data):
        d = 'c2s' if tree is self.ends['c2s'][0] else 's2c'
        self.stream[d] += data
        self.world.bytes_written += len(data)

    def pending(self, d):
        return 0 if self.blocked[d] else len(self.stream[d]) - self.delivered[d]

    def deliver(self, d, quiet):
        """Deliver the next chunk(s) of direction d according to the cut policy.  Returns number of chunks."""
        n = 0
        sizes = self.cuts.get(d) or [BIG]
        while self.pending(d) > 0:
            size = sizes[self.ptr[d] % len(sizes)]
            avail = self.pending(d)
            if avail < size:
                if not quiet:
                    break
                size = avail
            chunk = bytes(self.stream[d][self.delivered[d]:self.delivered[d] + size])
            self.delivered[d] += size
            self.ptr[d] += 1
            self.bounds[d].append(self.delivered[d])
            self.inject(d, chunk)
            n += 1
            if self.burst and n >= self.burst:
                break
            if quiet:
                break
        return n

    def inject(self, d, chunk):
        _, _, dst, k = self.ends[d]
        self.world.bytes_delivered += len(chunk)
        self.world.chunks += 1
        dst.root.fire(classes()['read'](k, chunk), 'node')


def ref_packets(stream):
    """Reference parse of a byte stream written by a well-behaved sender: JSON text, delimiter, JSON text, ...
    Returns [(obj, start, end_after_delimiter)] or raises ValueError."""
    s = bytes(stream).decode('utf-8')
    dec = json.JSONDecoder()
    out = []
    pos = 0
    while pos < len(s):
        obj, end = dec.raw_decode(s, pos)
        if s[end:end + 3] != '~~~':
            raise ValueError('no delimiter after packet at %d' % end)
        out.append((obj, pos, end + 3))
        pos = end + 3
    return out


class World:
    def __init__(self, case):
        self.case = case
        self.log = []
        self.snaps = []
        self.marks = set()
        self.bytes_written = 0
        self.bytes_delivered = 0
        self.chunks = 0
        self.rounds = 0
        self.behaviour = dict(case.get('behaviour', {}))
        self.sent_events = {}
        self.resumes = {}
        self.bound = {}       # id(event) -> [call index, protocol, event, handed to send()]   (style 'bound')
        self.promises = {}    # call index -> what fire() returned to the sender
        conns = case.get('conns', 1)
        fw = case.get('fw', {})
        cuts = case.get('cuts', {})
        self.hub = None
        if case.get('topology') == 'hub':
            # one tree with ``conns`` outgoing connections (client-side Protocols on channels node0, node1, ...), each to its own
            # server tree with a single accepted connection; 'c<k>' = the hub's end of connection k, 's<k>' = server tree k's end
            self.hub = Tree(self, 'c', False, conns, fw.get('c'), hub=True)
            self.servers = [Tree(self, 's%d' % k, True, 1, fw.get('s')) for k in range(conns)]
            self.trees = [self.hub] + self.servers
            self.links = [Link(self, k, self.hub, self.servers[k], cuts, case.get('burst', 0), hub=True) for k in range(conns)]
            self.hub.links = list(self.links)
            for k, t in enumerate(self.servers):
                t.links = [self.links[k]]
            self.marks.add('hub_topology')
        else:
            self.server = Tree(self, 's', True, conns, fw.get('s'))
            self.clients = [Tree(self, 'c%d' % k, False, 1, fw.get('c')) for k in range(conns)]
            self.trees = [self.server] + self.clients
            self.links = [Link(self, k, self.clients[k], self.server, cuts, case.get('burst', 0)) for k in range(conns)]
            self.server.links = list(self.links)
            for k, c in enumerate(self.clients):
                c.links = [self.links[k]]
        self.settle()   # registered events

    # -- sender side ---------------------------------------------------------------------------
    def endpoint(self, frm):
        """'c0' -> (client tree 0, its protocol); 's1' -> (server tree, protocol of connection 1)."""
        k = int(frm[1:] or 0)
        if self.hub is not None:
            if frm[0] == 'c':
                return self.hub, self.hub.protos[k], self.servers[k]
            return self.servers[k], self.servers[k].protos[0], self.hub
        if frm[0] == 'c':
            return self.clients[k], self.clients[k].protos[0], self.server
        return self.server, self.server.protos[k], self.clients[k]

    def make_event(self, idx):
        call = self.case['calls'][idx]
        Event = classes()['Event']
        ev = Event.create(call['name'], *call['args'], **call['kwargs'])
        ev.channels = tuple(call['channels'])
        fl = call.get('flags', {})
        ev.success = bool(fl.get('success', False))
        ev.failure = bool(fl.get('failure', False))
        ev.notify = bool(fl.get('notify', False))
        self.sent_events[idx] = ev
        return ev, self.endpoint(call['from'])[1]

    def resumed(self, idx, v, ev):
        try:
            val = v.value
        except Exception as e:  # noqa: BLE001
            val = 'raised:' + repr(e)
        err = bool(getattr(ev, 'errors', False)) or bool(getattr(v, 'errors', False))
        self.resumes.setdefault(idx, []).append((canon(val), err))
        self.log.append(('resumed', idx))

    def start_call(self, idx):
        call = self.case['calls'][idx]
        tree = self.endpoint(call['from'])[0]
        style = call.get('style', 'direct')
        if style == 'bound' and not call['channels']:
            style = 'direct'      # fired locally without channels the event would take the sender's own channel along
        name = {'direct': 'vq7_call', 'call': 'vq7_callw', 'noresult': 'vq7_nores', 'bound': 'vq7_bound'}[style]
        tree.root.fire(classes()['Event'].create(name, idx), 'snd')

    # -- stepping -----------------------------------------------------------------------------
    def signature(self):
        return (len(self.log), self.bytes_written, self.bytes_delivered, len(self.snaps),
                tuple(t.busy() for t in self.trees), tuple(len(t.root._tasks) for t in self.trees))

    def settle(self, max_idle=400, max_rounds=150000):
        quiet = 0
        idle = 0
        last = self.signature()
        start = self.rounds
        while True:
            self.rounds += 1
            if self.rounds - start > max_rounds:
                raise Unsettled('still moving after %d rounds' % max_rounds)
            if len(self.log) > LOG_BUDGET:
                raise Runaway('more than %d observations in one case' % LOG_BUDGET)
            for t in self.trees:
                t.tick()
            moved = 0
            for ln in getattr(self, 'links', ()):
                for d in ('c2s', 's2c'):
                    moved += ln.deliver(d, quiet >= 2)
            sig = self.signature()
            if sig == last and not moved and not any(t.busy() for t in self.trees):
                quiet += 1
            else:
                quiet = 0
            idle = 0 if (moved or sig[:4] != last[:4]) else idle + 1
            last = sig
            if quiet >= 4 and not any(ln.pending(d) for ln in getattr(self, 'links', ()) for d in ('c2s', 's2c')):
                return
            if idle > max_idle:
                raise Unsettled('no quiescence after %d idle rounds (queues %r)' % (idle, [t.busy() for t in self.trees]))


# ------------------------------------------------------------------------------------------------
# kind 'calls'
# ------------------------------------------------------------------------------------------------
def expected_apps(channels):
    if not channels:
        return ['node']
    return [CHANNEL_APPS[c] for c in channels if c in CHANNEL_APPS]


def expected_result(call, behaviour, tags):
    b = behaviour.get(call['name'], 'ret')
    d = digest(call['args'], call['kwargs'])
    vals = []
    for t in tags:
        if b in ('ret', 'relay'):
            vals.append({'r': call['name'], 't': t, 'd': d})
        elif b == 'echo':
            vals.append({'a': call['args'], 'k': call['kwargs'], 't': t})
        elif b == 'gen':
            vals.append({'g': call['name'], 't': t, 'd': d})
        elif b == 'arg0':
            v = call['args'][0] if call['args'] else 0
            if v is not None:
                vals.append(v)
    if not vals:
        return None
    return vals[0] if len(vals) == 1 else vals


def run_calls(case):
    """Returns (problems, info).  problems = [(clause, detail, dedup)]"""
    w = World(case)
    calls = case['calls']
    problems = []
    info = {'marks': set(), 'counts': {}}
    cnt = info['counts']

    def bump(k, n=1):
        cnt[k] = cnt.get(k, 0) + n
    waves = sorted({c.get('wave', 0) for c in calls})
    runaway = False
    for wv in waves:
        idxs = [i for i, c in enumerate(calls) if c.get('wave', 0) == wv]
        for i in idxs:
            w.start_call(i)
        if len(idxs) >= 2:
            bump('inflight_ge2')
        try:
            w.settle()
        except Runaway:
            runaway = True
            break
    # ---- the oracle ------------------------------------------------------------------------------
    fw = case.get('fw', {})
    for t in w.trees:
        for e in t.tick_errors:
            problems.append(('LOOP_SURVIVES', {'tree': t.tid, 'tick_raised': e, 'note': 'tick() raised during well-formed traffic'}, 'tick'))
    # what was transmitted, by the reference parser
    transmitted = {}     # (from) -> [names of call packets]
    for ln in w.links:
        for d in ('c2s', 's2c'):
            frm = ('c%d' % ln.k) if d == 'c2s' else ('s%d' % ln.k)
            try:
                pk = ref_packets(ln.stream[d])
            except ValueError as e:
                problems.append(('PAYLOAD_PRESERVED', {'stream': d, 'error': 'stream written by Protocol is not <json>~~~<json>~~~...: %s' % e}, 'wire'))
                pk = []
            transmitted[frm] = [p for p in pk if isinstance(p[0], dict) and 'name' in p[0]]
            ends = {p[2] for p in pk}
            for p in pk:
                if p[2] - p[1] > 4096:
                    bump('packet_over_4k')
            for bnd in ln.bounds[d]:
                if bnd not in ends and bnd < len(ln.stream[d]):
                    bump('cut_inside_packet')
                    if any(e - 3 < bnd < e for e in ends):
                        bump('cut_inside_delimiter')
    execs = [r for r in w.log if r[0] == 'exec']
    disp = [r for r in w.log if r[0] == 'dispatch']
    # group calls by (from, name) in send order
    groups = {}
    for i, c in enumerate(calls):
        groups.setdefault((c['from'], c['name']), []).append(i)
    executed_any = False
    for (frm, name), idxs in groups.items():
        src, _, dst = w.endpoint(frm)
        src_fw = fw.get('s' if frm[0] == 's' else 'c') or {}
        dst_fw = fw.get('c' if frm[0] == 's' else 's') or {}
        passing_send = []
        passing_both = []
        for i in idxs:
            c = calls[i]
            if src_fw.get('send') is not None and denied(src_fw['send'], c['name'], c['channels']):
                bump('send_firewall_rejections')
                continue
            passing_send.append(i)
            if dst_fw.get('recv') is not None and denied(dst_fw['recv'], c['name'], c['channels']):
                bump('recv_firewall_rejections')
                continue
            passing_both.append(i)
        n_tx = sum(1 for p in transmitted.get(frm, []) if p[0].get('name') == name)
        rejected_send = len(idxs) - len(passing_send)
        rejected_recv = len(passing_send) - len(passing_both)
        if rejected_send:
            if n_tx > len(passing_send):
                problems.append(('FIREWALL_SEND', {'from': frm, 'name': name, 'transmitted': n_tx, 'allowed_by_send_firewall': len(passing_send)}, 'tx'))
            else:
                bump('ok:FIREWALL_SEND', rejected_send)
        # dispatches of this name at the destination tree that came over this link.  Names are unique per
        # (direction) group in generated cases, so the destination tree's count is the link's count.
        others = sum(1 for (f2, n2), ii in groups.items() if n2 == name and f2 != frm and w.endpoint(f2)[2] is dst for _ in ii)
        per_dispatch = max(1, len(calls[idxs[0]]['channels']))     # invocations of the '*' monitor per dispatch
        n_inv = sum(1 for r in disp if r[1] == dst.tid and r[2] == name)
        n_disp = n_inv / per_dispatch
        if n_disp == int(n_disp):
            n_disp = int(n_disp)
        if others:
            continue   # same name towards the same tree from two sources: not generated
        if rejected_recv or rejected_send:
            if n_disp > len(passing_both):
                problems.append(('FIREWALL_RECV', {'from': frm, 'name': name, 'dispatched': n_disp, 'allowed': len(passing_both)}, 'disp'))
            elif rejected_recv:
                bump('ok:FIREWALL_RECV', rejected_recv)
        # exactly once + payload
        tags = expected_apps(calls[idxs[0]]['channels'])
        if n_disp != len(passing_both):
            problems.append(('EXACTLY_ONCE', {'from': frm, 'name': name, 'sent_and_allowed': len(passing_both), 'dispatched_on_peer': n_disp},
                             'lost' if n_disp < len(passing_both) else 'dup'))
        else:
            bump('ok:EXACTLY_ONCE', len(passing_both))
        for tag in tags:
            ex = [r for r in execs if r[1] == dst.tid and r[2] == tag and r[3] == name]
            if len(ex) != len(passing_both):
                if n_disp == len(passing_both):
                    problems.append(('EXACTLY_ONCE', {'from': frm, 'name': name, 'handler': tag, 'expected_runs': len(passing_both), 'runs': len(ex)},
                                     'lost-h' if len(ex) < len(passing_both) else 'dup-h'))
                continue
            # calls of one name are matched as a multiset: the order in which waiting generators are first stepped is
            # not the order in which the harness fired them (the task set is unordered)
            sent_ms = sorted((canon(calls[i]['args']), canon(calls[i]['kwargs'])) for i in passing_both)
            recv_ms = sorted((r[4], r[5]) for r in ex)
            executed_any = executed_any or bool(ex)
            bump('calls_executed_remotely', len(ex))
            bump('server_to_client_calls' if frm[0] == 's' else 'client_to_server_calls', len(ex))
            if sent_ms != recv_ms:
                bad = [x for x in recv_ms if x not in sent_ms]
                problems.append(('PAYLOAD_PRESERVED', {'name': name, 'handler': tag, 'sent': [list(x) for x in sent_ms][:3],
                                                       'received_not_sent': [[y[:300] for y in x] for x in bad][:3]}, 'args'))
            else:
                bump('ok:PAYLOAD_PRESERVED', len(ex))
        for r in [r for r in disp if r[1] == dst.tid and r[2] == name]:
            # same-name calls of a case share their channels
            if calls[idxs[0]]['channels'] and r[5] != canon(list(calls[idxs[0]]['channels'])):
                problems.append(('PAYLOAD_PRESERVED', {'name': name, 'sent_channels': calls[idxs[0]]['channels'], 'received': r[5]}, 'channels'))
        # results
        for i in idxs:
            c = calls[i]
            style = c.get('style', 'direct')
            got = w.resumes.get(i, [])
            if style == 'call':
                bump('call_style_waits')
            if i not in passing_both or style == 'noresult':
                continue   # nothing asserted about what a rejected / fire-and-forget sender sees
            b = w.behaviour.get(name, 'ret')
            if b in BOOM:
                bump('receiver_raised')
                if w.hub is not None and frm[0] == 's' and sum(1 for c2 in calls if c2['from'][0] == 's' and c2['from'] != frm
                                                               and c2.get('wave', 0) == c.get('wave', 0)):
                    bump('hub_receiver_raised_with_other_connection_in_flight')
            if b in ('gen', 'genboom'):
                bump('receiver_generator')
            if len(got) != 1:
                problems.append(('RESULT_BACK', {'call': i, 'name': name, 'behaviour': b, 'sender_resumed_times': len(got),
                                                 'note': 'system quiescent, sender still waiting' if not got else 'resumed more than once'},
                                 'never' if not got else 'multi'))
                continue
            val, err = got[0]
            if b in BOOM and tags:
                if not err:
                    problems.append(('RESULT_BACK', {'call': i, 'name': name, 'behaviour': b, 'received': val[:300], 'error_flag': err,
                                                     'note': 'remote handler raised but no error flag reached the sender'}, 'noerr'))
                else:
                    bump('ok:RESULT_BACK')
                    bump('results_received')
                continue
            if b == 'arg0' and len(tags) > 1:
                continue    # how several handlers' results are folded into one is the receiving Value's business, not this property's
            exp = canon(expected_result(c, w.behaviour, tags))
            if val != exp:
                problems.append(('RESULT_BACK', {'call': i, 'name': name, 'behaviour': b, 'expected': exp[:400], 'received': val[:400]}, 'wrong'))
            else:
                bump('ok:RESULT_BACK')
                bump('results_received')
    if any(r[0] == 'fw' for r in w.log):
        bump('firewall_consulted', sum(1 for r in w.log if r[0] == 'fw'))
    for k in ('c2s', 's2c'):
        if case.get('cuts', {}).get(k) == [1]:
            bump('byte_at_a_time_cases')
            break
    if case.get('conns', 1) >= 2:
        bump('two_connection_cases')
    bump('attr_snapshots', len(w.snaps))
    nontrivial = executed_any and bool(cnt.get('cut_inside_packet') or cnt.get('inflight_ge2') or cnt.get('packet_over_4k') or
                                       cnt.get('send_firewall_rejections') or cnt.get('recv_firewall_rejections') or
                                       cnt.get('receiver_raised') or cnt.get('receiver_generator'))
    if runaway:
        problems = [p for p in problems if p[2] in ('dup', 'dup-h', 'tick', 'disp', 'tx')]     # only what can no longer change
        if not problems:
            raise Unsettled('observation log exploded without a decided obligation')
    info['nontrivial'] = nontrivial
    info['marks'] = w.marks
    info['rounds'] = w.rounds
    return problems, info


def strings_of(x):
    if isinstance(x, str):
        yield x
    elif isinstance(x, list):
        for y in x:
            yield from strings_of(y)
    elif isinstance(x, dict):
        for k, v in x.items():
            yield k
            yield from strings_of(v)


def keys_of(x):
    if isinstance(x, list):
        for y in x:
            yield from keys_of(y)
    elif isinstance(x, dict):
        for k, v in x.items():
            yield k
            yield from keys_of(v)


def map_strings(x, f, fk=None):
    fk = fk or f
    if isinstance(x, str):
        return f(x)
    if isinstance(x, list):
        return [map_strings(y, f, fk) for y in x]
    if isinstance(x, dict):
        return {fk(k): map_strings(v, f, fk) for k, v in x.items()}
    return x


def calls_triggers(case):
    """Structural features of a calls case that match the trigger of a known finding."""
    t = []
    calls = case['calls']
    cuts = case.get('cuts', {})
    if any(cuts.get(d) not in (None, [BIG]) for d in ('c2s', 's2c')):
        t.append(K_CUT)
    if any(case.get('behaviour', {}).get(c['name']) in BOOM for c in calls):
        t.append(K_BOOM)
    if any(k == 'value' for c in calls for k in keys_of([c['args'], c['kwargs']])):
        t.append(K_VALUEKW)
    if any('~' in s for c in calls for s in strings_of([c['name'], c['args'], c['kwargs'], c['channels']])):
        t.append(K_DELIM)
    if any(c['name'] == 'init' and (not c['channels'] or 'node' in c['channels']) for c in calls):
        t.append(K_INIT)
    if case.get('conns', 1) >= 2:
        waves = {}
        for c in calls:
            waves.setdefault(c.get('wave', 0), []).append(c)
        for cs in waves.values():
            if len({c['from'] for c in cs if c['from'][0] == 's'}) >= 2:
                t.append(K_SHARED)
            if len({c['from'] for c in cs if c['from'][0] == 'c'}) >= 2:
                t.append(K_BCAST)
    # order matters for attribution: the twin of the cut finding changes the timing of every delivery and can thereby hide
    # the (timing dependent) two-connection findings, never the other way round - so it is tried last
    order = [K_INIT, K_BOOM, K_VALUEKW, K_DELIM, K_SHARED, K_BCAST, K_CUT]
    return [k for k in order if k in t]


def calls_neutralise(case, keys):
    c = copy.deepcopy(case)
    for key in keys:
        if key == K_CUT:
            c['cuts'] = {}
        elif key == K_BOOM:
            c['behaviour'] = {n: ('ret' if b == 'boom' else 'gen' if b == 'genboom' else b) for n, b in c.get('behaviour', {}).items()}
        elif key == K_VALUEKW:
            for call in c['calls']:
                call['args'] = map_strings(call['args'], lambda s: s, lambda k: 'valu_' if k == 'value' else k)
                call['kwargs'] = map_strings(call['kwargs'], lambda s: s, lambda k: 'valu_' if k == 'value' else k)
        elif key == K_DELIM:
            def f(s):
                return s.replace('~', '-')
            beh = {}
            for n, b in c.get('behaviour', {}).items():
                beh[f(n)] = b
            c['behaviour'] = beh
            for call in c['calls']:
                call['name'] = f(call['name'])
                call['args'] = map_strings(call['args'], f)
                call['kwargs'] = map_strings(call['kwargs'], f)
                call['channels'] = map_strings(call['channels'], f)
        elif key == K_INIT:
            c['behaviour'] = {('inix' if n == 'init' else n): b for n, b in c.get('behaviour', {}).items()}
            for call in c['calls']:
                if call['name'] == 'init':
                    call['name'] = 'inix'   # same length: chunk boundaries stay where they were
        elif key in (K_SHARED, K_BCAST):
            # one connection at a time: calls that were in flight together on *different* connections are separated, calls on
            # the same connection stay together (each link's byte streams and chunk boundaries remain what they were)
            for call in c['calls']:
                call['wave'] = call.get('wave', 0) * 1000 + int(call['from'][1:] or 0)
    return c


# ------------------------------------------------------------------------------------------------
# kind 'hostile'
# ------------------------------------------------------------------------------------------------
def packet_bytes(p):
    if p['form'] == 'raw':
        return p['bytes']
    return json.dumps(p['obj']).encode('utf-8') + (DELIM if p.get('delim', True) else b'')


def base_call(name='h_ok', id=7, **over):
    d = {'id': id, 'name': name, 'args': [], 'kwargs': {}, 'success': False, 'failure': False, 'channels': ['app'], 'notify': False, 'meta': {}}
    d.update(over)
    return d


def meta_items(meta):
    if isinstance(meta, dict):
        return list(meta.items())
    if isinstance(meta, list):
        return [tuple(x) for x in meta if isinstance(x, list) and len(x) == 2 and isinstance(x[0], str)]
    return []


def unhashable(x):
    return isinstance(x, (list, dict))


def run_hostile(case):
    """The harness plays the peer of one tree and feeds it hostile bytes; the tree must keep ticking."""
    side = case.get('side', 's')
    w = World({'conns': 1, 'behaviour': {'h_ok': 'ret', 'h_pending': 'ret', 'h_canary': 'ret'}, 'calls': [
        {'from': ('s0' if side == 's' else 'c0'), 'name': 'h_pending', 'args': [1], 'kwargs': {}, 'channels': ['app'], 'style': 'direct'},
        {'from': ('c0' if side == 's' else 's0'), 'name': 'h_canary', 'args': ['remote'], 'kwargs': {}, 'channels': ['app'], 'style': 'direct'}]})
    victim = w.server if side == 's' else w.clients[0]
    link = w.links[0]
    to_victim = 'c2s' if side == 's' else 's2c'
    from_victim = 's2c' if side == 's' else 'c2s'
    problems = []
    cnt = {}

    def bump(k, n=1):
        cnt[k] = cnt.get(k, 0) + n
    inflight_ev = None
    # the harness plays the hostile peer: what the victim writes during the hostile phase is read and ignored
    link.blocked[from_victim] = True
    if case.get('inflight'):
        # the victim has one call in flight (id 0) whose packet the hostile peer simply does not answer properly
        w.start_call(0)
        w.settle()
        inflight_ev = w.sent_events.get(0)
        before_inflight = snapshot(inflight_ev) if inflight_ev is not None else None
    # baseline snapshot: a well-formed packet with empty meta through the same path
    link.inject(to_victim, json.dumps(base_call(id=5)).encode() + DELIM)
    w.settle()
    base_snaps = [s for s in w.snaps if s[0] == victim.tid and s[1] == 'h_ok']
    baseline = base_snaps[-1][2] if base_snaps else None
    n_before = len(w.snaps)
    # the hostile bytes
    data = b''.join(packet_bytes(p) for p in case['packets'])
    sizes = case.get('chunks') or [BIG]
    pos = 0
    k = 0
    while pos < len(data):
        size = sizes[k % len(sizes)]
        link.inject(to_victim, data[pos:pos + size])
        pos += size
        k += 1
        if not case.get('burst'):
            try:
                w.settle()
            except Unsettled:
                return None, {'unsettled': True}
    try:
        w.settle()
    except Unsettled:
        return None, {'unsettled': True}
    bump('hostile_packets', len(case['packets']))
    # LOOP_SURVIVES: tick never raised ...
    if victim.tick_errors:
        problems.append(('LOOP_SURVIVES', {'tick_raised': victim.tick_errors[0], 'note': 'an exception escaped tick(): Manager.run() ends'},
                         victim.tick_errors[0][0]))
    else:
        bump('ok:LOOP_SURVIVES')
    # ... and a local canary is still dispatched
    victim.root.fire(classes()['canary']('local'), 'app')
    n_err = len(victim.tick_errors)
    try:
        w.settle()
    except Unsettled:
        return None, {'unsettled': True}
    can = [r for r in w.log if r[0] == 'canary' and r[1] == victim.tid]
    if len(can) != 1 or len(victim.tick_errors) != n_err:
        problems.append(('LOOP_SURVIVES', {'local_canary_dispatched': len(can), 'tick_raised_after': victim.tick_errors[n_err:],
                                           'note': 'a local event fired after the hostile packets'}, 'canary'))
    else:
        bump('ok:LOOP_SURVIVES')
        bump('local_canary_dispatched')
    # ATTRS_INTACT: no marker of a hostile meta key may sit in a dispatcher attribute of an event the protocol fired
    snaps = [s for s in w.snaps[n_before:] if s[0] == victim.tid]
    hostile_meta = []
    for p in case['packets']:
        if p['form'] == 'json' and isinstance(p['obj'], dict):
            hostile_meta.extend(meta_items(p['obj'].get('meta')))
    tried = {k2 for k2, _ in hostile_meta if k2 in dispatcher_attrs()}
    bump('hostile_meta_keys_tried', len(tried))
    over = []
    for tid, name, snap in snaps:
        bump('attr_snapshots')
        for k2, v in hostile_meta:
            if k2 in snap and snap[k2] == canon(v) and (baseline is None or baseline.get(k2) != snap[k2]):
                over.append({'event': name, 'attribute': k2, 'value': snap[k2][:100], 'baseline': (baseline or {}).get(k2)})
    if inflight_ev is not None:
        after = snapshot(inflight_ev)
        bump('attr_snapshots')
        for k2, v in hostile_meta:
            if k2 in after and after[k2] == canon(v) and before_inflight.get(k2) != after[k2]:
                over.append({'event': 'local in-flight event', 'attribute': k2, 'value': after[k2][:100], 'baseline': before_inflight.get(k2)})
    if over:
        problems.append(('ATTRS_INTACT', {'overwritten': over[:6]}, ','.join(sorted({o['attribute'] for o in over}))))
    elif tried:
        bump('ok:ATTRS_INTACT', len(tried))
    # remote canary through the real peer protocol: counted, not asserted
    link.delivered[from_victim] = len(link.stream[from_victim])
    link.blocked[from_victim] = False
    w.start_call(1)
    try:
        w.settle()
        ok = any(r[0] == 'exec' and r[1] == victim.tid and r[3] == 'h_canary' for r in w.log)
        bump('remote_canary_after_hostile_ok' if ok else 'remote_canary_after_hostile_lost')
    except Unsettled:
        bump('remote_canary_after_hostile_lost')
    for p in case['packets']:
        for c in p.get('class', ()):
            bump('hostile_' + c)
        if p['form'] == 'json' and isinstance(p['obj'], dict):
            ch = p['obj'].get('channels')
            if isinstance(ch, list) and any(unhashable(x) for x in ch):
                bump('hostile_unhashable_channels')
            if case.get('inflight') and 'value' in p['obj']:
                bump('hostile_value_packets_inflight')
    return problems, {'counts': cnt, 'nontrivial': True, 'marks': w.marks}


def hostile_triggers(case):
    t = []
    for p in case['packets']:
        if p['form'] != 'json' or not isinstance(p['obj'], dict):
            continue
        if any(k in META_TRIGGER_KEYS for k, _ in meta_items(p['obj'].get('meta'))) and K_META not in t:
            t.append(K_META)
        ch = p['obj'].get('channels')
        if isinstance(ch, list) and any(unhashable(x) for x in ch) and K_UNHASH not in t:
            t.append(K_UNHASH)
    return t


def hostile_neutralise(case, keys):
    c = copy.deepcopy(case)
    for p in c['packets']:
        if p['form'] != 'json' or not isinstance(p['obj'], dict):
            continue
        o = p['obj']
        if K_META in keys:
            m = o.get('meta')
            if isinstance(m, dict):
                o['meta'] = {k: v for k, v in m.items() if k not in META_TRIGGER_KEYS}
            elif isinstance(m, list):
                o['meta'] = [x for x in m if not (isinstance(x, list) and len(x) == 2 and x[0] in META_TRIGGER_KEYS)]
        if K_UNHASH in keys:
            ch = o.get('channels')
            if isinstance(ch, list):
                o['channels'] = [repr(x) if unhashable(x) else x for x in ch]
    return c


# ------------------------------------------------------------------------------------------------
# kind 'roundtrip'
# ------------------------------------------------------------------------------------------------
def run_roundtrip(case):
    from circuits.core import Value
    from circuits.core.events import Event
    from circuits.node.utils import dump_event, dump_value, load_event, load_value
    problems = []
    cnt = {}
    e = Event.create(case['name'], *case['args'], **case['kwargs'])
    e.channels = tuple(case['channels'])
    fl = case.get('flags', {})
    e.success, e.failure, e.notify = bool(fl.get('success')), bool(fl.get('failure')), bool(fl.get('notify'))
    try:
        s = dump_event(e, case['id'])
        e2, id2 = load_event(s)
        got = {'name': e2.name, 'args': list(e2.args), 'kwargs': dict(e2.kwargs), 'channels': list(e2.channels),
               'success': e2.success, 'failure': e2.failure, 'notify': e2.notify, 'id': id2}
        exp = {'name': case['name'], 'args': case['args'], 'kwargs': case['kwargs'], 'channels': list(case['channels']),
               'success': e.success, 'failure': e.failure, 'notify': e.notify, 'id': case['id']}
        bad = [k for k in exp if canon(exp[k]) != canon(got[k])]
        if bad or not isinstance(e2.channels, tuple) or not isinstance(e2, Event):
            problems.append(('ROUNDTRIP', {'what': 'event', 'fields': bad, 'expected': {k: canon(exp[k])[:200] for k in bad},
                                           'got': {k: canon(got[k])[:200] for k in bad}}, 'event:' + ','.join(bad)))
        else:
            cnt['ok:ROUNDTRIP'] = cnt.get('ok:ROUNDTRIP', 0) + 1
        cnt['roundtrip_events'] = 1
    except Exception as ex:  # noqa: BLE001
        problems.append(('ROUNDTRIP', {'what': 'event', 'raised': repr(ex)[:300]}, 'event-raised'))
    for vcase in case.get('values', []):
        v = Value(e if vcase.get('with_event') else None, None)
        v._value = vcase['value']
        v.errors = bool(vcase['errors'])
        v.node_call_id = vcase['id']
        try:
            val, id3, err, meta = load_value(dump_value(v))
            if canon(val) != canon(vcase['value']) or canon(id3) != canon(vcase['id']) or bool(err) != bool(vcase['errors']):
                problems.append(('ROUNDTRIP', {'what': 'value', 'expected': canon([vcase['value'], vcase['id'], vcase['errors']])[:300],
                                               'got': canon([val, id3, err])[:300]}, 'value'))
            else:
                cnt['ok:ROUNDTRIP'] = cnt.get('ok:ROUNDTRIP', 0) + 1
            cnt['roundtrip_values'] = cnt.get('roundtrip_values', 0) + 1
        except Exception as ex:  # noqa: BLE001
            problems.append(('ROUNDTRIP', {'what': 'value', 'raised': repr(ex)[:300]}, 'value-raised'))
    return problems, {'counts': cnt, 'nontrivial': bool(case['args'] or case['kwargs']), 'marks': set()}


# ------------------------------------------------------------------------------------------------
# evaluation with counter-factual attribution
# ------------------------------------------------------------------------------------------------
def run_case(case):
    kind = case['kind']
    if kind == 'calls':
        return run_calls(case)
    if kind == 'hostile':
        return run_hostile(case)
    if kind == 'roundtrip':
        return run_roundtrip(case)
    if kind == 'wiring':
        return run_wiring(case)
    if kind == 'clients':
        return run_clients(case)
    raise ValueError(kind)


def run_clients(case):
    """Several OUTGOING connections (circuits.node.client.Client, what Node.add() creates) in one component tree, each on its own channel,
    with calls in flight on all of them at once: what is sent to one peer is transmitted on that connection only, and every waiting
    handler gets the answer of its own peer (packet ids are per connection and start at 0 everywhere).  The transports are recorders."""
    from circuits import BaseComponent, handler
    from circuits.core.events import Event
    from circuits.net.events import read
    from circuits.node.client import Client
    n = case['n']
    chans = ['conn%d' % i for i in range(n)]
    written = {c: [] for c in chans}
    exc = []

    class Root(BaseComponent):
        @handler('exception', channel='*')
        def _vq9_exc(self, etype, evalue, tb, handler=None, fevent=None):
            exc.append(repr(evalue))

    def recorder(ch):
        class Rec(BaseComponent):
            channel = ch

            @handler('write')
            def _vq9_write(self, *args):
                if args and isinstance(args[-1], bytes):
                    written[ch].append(args[-1])
        return Rec()

    root = Root()

    def settle():
        for _ in range(400):
            if not len(root) and not root._tasks:
                return
            root.flush()
            for t in list(root._tasks):
                root.processTask(*t)
        raise Unsettled('clients case')

    clients = []
    for ch in chans:
        cl = Client('127.0.0.1', 9, channel=ch)     # (never started: nothing connects; the transport is the recorder)
        cl.register(root)
        for c in list(cl.components):
            if type(c).__name__ == 'TCPClient':
                c.unregister()
        recorder(ch).register(root)
        clients.append(cl)
    settle()
    # calls: (connection, name, arg) in the given order, all in flight together
    its, got = [], {}
    for k, (ci, name, arg) in enumerate(case['calls']):
        ev = Event.create(name, arg)
        ev.channels = ('app',)
        it = clients[ci].send(ev)
        next(it)
        its.append((k, ci, it, ev))
        if case.get('settle_between'):
            settle()
    settle()
    problems, counts = [], {}
    sent = {}
    for ch in chans:
        sent[ch] = [(p[0].get('id'), p[0].get('name'), (p[0].get('args') or [None])[0]) for p in ref_packets(b''.join(written[ch])) if isinstance(p[0], dict) and 'name' in p[0]]
    ids = {}
    for ci, ch in enumerate(chans):
        want = [(name, arg) for (cj, name, arg) in case['calls'] if cj == ci]
        have = [(nm, a) for (_i, nm, a) in sent[ch]]
        if have != want:
            problems.append(('EXACTLY_ONCE', {'connection': ch, 'transmitted_on_this_connection': have, 'sent_to_this_peer': want,
                                              'note': 'an event sent to one peer goes out on that peer\'s connection, once, and on no other'}, 'clients-crosstalk'))
        else:
            counts['ok:EXACTLY_ONCE'] = counts.get('ok:EXACTLY_ONCE', 0) + len(want)
        ids[ch] = [i for (i, _n, _a) in sent[ch]]
    if problems:
        return problems, {'marks': {'several_outgoing_connections_in_one_tree'}, 'counts': counts, 'nontrivial': True}
    # every peer answers what it was sent (in the order given by the case), with a result that names the peer and the call
    order = list(range(len(case['calls'])))
    if case.get('answers') == 'reversed':
        order.reverse()
    per_conn_pos = {}
    call_id = {}
    for k, (ci, name, arg) in enumerate(case['calls']):
        pos = per_conn_pos.get(ci, 0)
        per_conn_pos[ci] = pos + 1
        call_id[k] = ids[chans[ci]][pos]
    for k in order:
        ci, name, arg = case['calls'][k]
        pkt = json.dumps({'id': call_id[k], 'errors': False, 'value': 'result of %s(%r) at peer %d' % (name, arg, ci), 'meta': {}}).encode('utf-8') + DELIM
        root.fire(read(pkt), chans[ci])
        settle()
    for k, ci, it, ev in its:
        val = None
        try:
            for v in it:
                if v is not None:
                    val = v
                    break
        except Exception as e:  # noqa: BLE001
            val = 'raised:' + repr(e)
        got[k] = getattr(val, 'value', val)
    for k, (ci, name, arg) in enumerate(case['calls']):
        want = 'result of %s(%r) at peer %d' % (name, arg, ci)
        if got.get(k) != want:
            problems.append(('RESULT_BACK', {'call': k, 'connection': chans[ci], 'expected': want, 'received': repr(got.get(k))[:200]}, 'clients-result'))
        else:
            counts['ok:RESULT_BACK'] = counts.get('ok:RESULT_BACK', 0) + 1
    marks = {'several_outgoing_connections_in_one_tree'}
    if len({ci for ci, _n, _a in case['calls']}) >= 2:
        marks.add('calls_in_flight_on_several_outgoing_connections_with_equal_packet_ids')
    if exc:
        problems.append(('LOOP_SURVIVES', {'exceptions': exc[:3]}, 'clients-exc'))
    return problems, {'marks': marks, 'counts': counts, 'nontrivial': True}


def run_wiring(case):
    """The listening node components (circuits.node.server.Server, Node(port=...)) and the connecting one (circuits.node.client.Client)
    hand the firewalls they were given to the Protocols they create: an event leaves only if the SEND predicate allows it, an arriving
    event is executed only if the RECEIVE predicate allows it.  Driven with flush() only; the peer is a socket double / a byte string."""
    from circuits import BaseComponent, handler
    from circuits.core.events import Event
    from circuits.net.events import connect, read
    from circuits.node.utils import dump_event
    from vlib.inject import FakeSock
    names = list(case['names'])
    fw = case.get('fw') or {}
    log = {'written': [], 'dispatched': [], 'consulted': {'send': 0, 'recv': 0}, 'exc': []}

    def mk(which):
        pred = fw.get(which)
        if pred is None:
            return None

        def f(event, sock=None):
            log['consulted'][which] += 1
            return not denied(pred, event.name, list(getattr(event, 'channels', ()) or ()))
        return f

    class Obs(BaseComponent):
        @handler('write', channel='*', priority=50)
        def _vq8_write(self, *args):
            if args and isinstance(args[-1], bytes):
                log['written'].append(args[-1])

        @handler(channel='*', priority=60)
        def _vq8_any(self, event, *args, **kwargs):
            if event.name in names and hasattr(event, 'node_call_id'):
                log['dispatched'].append(event.name)

        @handler('exception', channel='*')
        def _vq8_exc(self, etype, evalue, tb, handler=None, fevent=None):
            log['exc'].append(repr(evalue))

    root = Obs()

    def settle():
        for _ in range(400):
            if not len(root) and not root._tasks:
                return
            root.flush()
            if root._tasks:
                for t in list(root._tasks):
                    root.processTask(*t)
        raise Unsettled('wiring case')

    which = case['which']
    kw = {'receive_event_firewall': mk('recv'), 'send_event_firewall': mk('send')}
    sock = FakeSock(('10.0.0.9', 5555))
    try:
        if which in ('server', 'node'):
            if which == 'server':
                from circuits.node.server import Server
                srv = Server(0, server_ip='127.0.0.1', channel='node', **kw).register(root)
            else:
                from circuits.node.node import Node
                srv = Node(port=0, server_ip='127.0.0.1', channel='node', **kw).register(root).server
            settle()
            root.fire(connect(sock, '10.0.0.9', 5555), 'node')
            settle()

            def send(ev):
                it = srv.send(ev, sock)
                try:
                    next(it)
                except StopIteration:
                    pass

            def receive(data):
                root.fire(read(sock, data), 'node')
        else:
            from circuits.node.client import Client
            cl = Client('127.0.0.1', 9, channel='nodec', **kw)      # (never started: nothing connects)
            cl.register(root)
            for c in list(cl.components):
                if type(c).__name__ == 'TCPClient':
                    c.unregister()       # the transport is the harness: what the Protocol writes is collected from the write events
            settle()

            def send(ev):
                it = cl.send(ev)
                try:
                    next(it)
                except StopIteration:
                    pass

            def receive(data):
                root.fire(read(data), 'nodec')
        # outgoing
        for nm in names:
            ev = Event.create(nm, 1)
            ev.channels = ('app',)
            send(ev)
            settle()
        sent = []
        for p in ref_packets(b''.join(log['written'])):
            if isinstance(p[0], dict) and 'name' in p[0]:
                sent.append(p[0]['name'])
        # incoming
        for i, nm in enumerate(names):
            ev = Event.create(nm, 2)
            ev.channels = ('app',)
            receive(dump_event(ev, 500 + i).encode('utf-8') + DELIM)
            settle()
    finally:
        try:
            for c in list(root.components):
                s_ = getattr(c, 'server', None)
                for x in (c, s_):
                    sk = getattr(getattr(x, 'server', x), '_sock', None) if x is not None else None
                    if sk is not None and hasattr(sk, 'close'):
                        sk.close()
        except Exception:  # noqa: BLE001
            pass
        sock.close()
    problems = []
    counts = {}
    want_sent = [n for n in names if not denied(fw.get('send'), n, ['app'])]
    want_disp = [n for n in names if not denied(fw.get('recv'), n, ['app'])]
    extra = [n for n in sent if n not in want_sent]
    missing = [n for n in want_sent if n not in sent]
    if extra:
        problems.append(('FIREWALL_SEND', {'component': which, 'transmitted_although_rejected_by_the_send_firewall': extra, 'send_firewall': fw.get('send'),
                                           'receive_firewall': fw.get('recv')}, 'wiring-send'))
    elif fw.get('send') is not None:
        counts['ok:FIREWALL_SEND'] = len(names)
    if missing:
        problems.append(('EXACTLY_ONCE', {'component': which, 'allowed_by_the_send_firewall_but_never_transmitted': missing, 'send_firewall': fw.get('send'),
                                          'receive_firewall': fw.get('recv')}, 'wiring-lost'))
    extra = [n for n in log['dispatched'] if n not in want_disp]
    missing = [n for n in want_disp if log['dispatched'].count(n) != 1]
    if extra:
        problems.append(('FIREWALL_RECV', {'component': which, 'executed_although_rejected_by_the_receive_firewall': extra, 'receive_firewall': fw.get('recv'),
                                           'send_firewall': fw.get('send')}, 'wiring-recv'))
    elif fw.get('recv') is not None:
        counts['ok:FIREWALL_RECV'] = len(names)
    if missing:
        problems.append(('EXACTLY_ONCE', {'component': which, 'allowed_by_the_receive_firewall_but_not_executed_exactly_once': missing,
                                          'dispatched': log['dispatched']}, 'wiring-notrun'))
    else:
        counts['ok:EXACTLY_ONCE'] = len(want_disp)
    marks = {'firewalls_given_to_a_node_component_' + which}
    if fw.get('send') != fw.get('recv'):
        marks.add('send_and_receive_firewalls_disagree')
    return problems, {'marks': marks, 'counts': counts, 'nontrivial': fw.get('send') != fw.get('recv')}


def passes(case):
    try:
        problems, info = run_case(case)
    except (Unsettled, Runaway):
        return False
    return problems is not None and not problems


def sample_of(case):
    """Evidence samples stay small: long strings / lists of a case are abbreviated (replays keep the full case)."""
    def ab(x, depth=0):
        if depth > 8:
            return '<nested>'
        if isinstance(x, (str, bytes)) and len(x) > 120:
            return x[:60] + ('...<%d more>' % (len(x) - 60) if isinstance(x, str) else b'...<%d more>' % (len(x) - 60))
        if isinstance(x, list):
            return [ab(y, depth + 1) for y in x[:12]] + (['...<%d more>' % (len(x) - 12)] if len(x) > 12 else [])
        if isinstance(x, dict):
            items = list(x.items())
            out = {k if len(str(k)) <= 120 else str(k)[:60] + '...': ab(v, depth + 1) for k, v in items[:12]}
            if len(items) > 12:
                out['...'] = '<%d more keys>' % (len(items) - 12)
            return out
        return x
    return ab(case)


def evaluate(b, case):
    try:
        problems, info = run_case(case)
    except (Unsettled, Runaway) as e:
        b.inconclusive_because('case did not settle: %s' % e)
        return
    except Exception as e:  # noqa: BLE001
        import traceback
        b.fail(case, 'HARNESS_RAISED', {'error': repr(e), 'tb': traceback.format_exc(limit=8)}, dedup=type(e).__name__)
        return
    if problems is None:
        b.inconclusive_because('hostile case did not settle')
        return
    b.case(case, nontrivial=info.get('nontrivial', True), sample=sample_of(case))
    for m in info.get('marks', ()):
        b.reached(m)
    for k, n in info.get('counts', {}).items():
        if k.startswith('ok:'):
            b.ok(k[3:], n)
        else:
            b.reached(k, n)
    if not problems:
        return
    if case['kind'] == 'calls':
        trig, neut = calls_triggers(case), calls_neutralise
    elif case['kind'] == 'hostile':
        trig, neut = hostile_triggers(case), hostile_neutralise
    else:
        trig, neut = [], None
    memo = {}

    def twin(keys):
        keys = tuple(keys)
        if keys not in memo:
            memo[keys] = passes(neut(case, list(keys)))
        return memo[keys]
    # Candidate attributions, smallest trigger sets first: a failure is attributed to a known finding only if the case
    # passes with that finding's trigger neutralised; when several known triggers are present and each breaks the case on
    # its own, the smallest set of triggers whose neutralisation makes the case pass is used (every member of a minimal
    # set is necessary, so none of them can be a defect that has been fixed) and the failure is reported under its first key.
    import itertools

    def minimal_set():
        for k in trig:
            if twin((k,)):
                return (k,)
        if len(trig) < 2 or not twin(tuple(trig)):
            return None      # not explained by the known triggers, even all together
        for size in range(2, len(trig)):
            for sub in itertools.combinations(trig, size):
                if twin(sub):
                    return sub
        return tuple(trig)
    sub = minimal_set()
    known = [(k, (lambda k=k: twin((k,)))) for k in trig]
    if sub is not None and len(sub) > 1:
        known.append((sub[0], lambda: twin(sub)))
    seen = set()
    for clause, detail, dedup in problems:
        key = (clause, dedup)
        if key in seen:
            continue
        seen.add(key)
        b.fail(case, clause, detail, known=known, dedup=dedup)


# ------------------------------------------------------------------------------------------------
# generators
# ------------------------------------------------------------------------------------------------
ALPHA = 'abcxyz019 _-.:/"\\\'{}[],\n\té中\U0001f600'
NAMES = ['hello', 'ping', 'get_data', 'Upd', 'x', 'evt9', 'a_b_c', 'hé', 'with space', 'dotted.name']


def gen_str(rng, hot=False):
    r = rng.random()
    if hot and r < 0.04:
        return rng.choice(['~~~', 'a~~~b', '~~', '~', 'x~~~~y'])
    if r < 0.1:
        return ''
    if r < 0.15:
        return rng.choice(['"value":', 'value', '"name":', '{"id": 1}', '\\u0000', '\ud800', 'null'])
    return ''.join(rng.choice(ALPHA) for _ in range(rng.randint(1, 12)))


def gen_key(rng, hot=False):
    if hot and rng.random() < 0.03:
        return 'value'
    k = gen_str(rng, hot)
    return k if k not in ('self', 'event', '_name') else k + '_'


def gen_value(rng, depth=0, hot=False):
    r = rng.random()
    if depth >= 3 or r < 0.55:
        c = rng.randrange(8)
        if c == 0:
            return None
        if c == 1:
            return rng.random() < 0.5
        if c == 2:
            return rng.randint(-1000, 1000)
        if c == 3:
            return rng.choice([0, -1, 2 ** 31, 2 ** 63, -2 ** 64, 10 ** 30])
        if c == 4:
            return rng.choice([0.0, -0.0, 1.5, 1e-9, 1e300, -3.25, 0.1])
        return gen_str(rng, hot)
    if r < 0.8:
        return [gen_value(rng, depth + 1, hot) for _ in range(rng.randint(0, 4))]
    return {gen_key(rng, hot): gen_value(rng, depth + 1, hot) for _ in range(rng.randint(0, 4))}


def gen_big(rng, n):
    c = rng.randrange(3)
    if c == 0:
        return 'B' * n
    if c == 1:
        return list(range(n // 5))
    return {'k%d' % i: 'v' * 20 for i in range(n // 30)}


def gen_payload(rng, hot=False, big=0):
    args = [gen_value(rng, 0, hot) for _ in range(rng.randint(0, 3))]
    kwargs = {}
    for _ in range(rng.randint(0, 3)):
        kwargs[gen_key(rng, hot) or 'k'] = gen_value(rng, 0, hot)
    if big:
        if rng.random() < 0.5:
            args.append(gen_big(rng, big))
        else:
            kwargs['blob'] = gen_big(rng, big)
    return args, kwargs


def gen_sizes(rng):
    r = rng.random()
    if r < 0.2:
        return [BIG]
    if r < 0.3:
        return [1]
    if r < 0.45:
        return [rng.randint(1, 40), BIG]
    if r < 0.6:
        return [rng.randint(1, 8)]
    if r < 0.7:
        return [4096]
    if r < 0.8:
        return [rng.choice([1024, 4096, 1460, 8192, 100])]
    return [rng.randint(1, 300) for _ in range(rng.randint(2, 6))]


def gen_pred(rng, names):
    r = rng.random()
    if r < 0.5:
        return {'deny_names': rng.sample(names, rng.randint(1, max(1, len(names) // 2)))}
    if r < 0.85:
        return {'deny_channels': [rng.choice(['aux', 'app'])]}
    if r < 0.93:
        return {'deny_all': True}
    return {}


FALSY = [0, 0.0, -0.0, False, '', [], {}]


def gen_calls(rng, hot_rate=0.15):
    """hot = payloads may contain the delimiter / a key named value (triggers of two known findings)."""
    conns = rng.choice([2, 2, 3]) if rng.random() < 0.25 else 1
    n = rng.choice([1, 1, 2, 2, 3, 4, 5])
    hot = rng.random() < hot_rate
    behaviours = ['ret', 'ret', 'echo', 'echo', 'none', 'gen', 'boom', 'genboom']
    frm_pool = ['c%d' % k for k in range(conns)] + (['s%d' % k for k in range(conns)] if rng.random() < 0.5 else [])
    names = rng.sample(NAMES, min(len(NAMES), n))
    big_at = rng.randrange(n) if rng.random() < 0.25 else -1
    calls = []
    behaviour = {}
    together = rng.random() < 0.7
    for i in range(n):
        name = names[i % len(names)]
        if rng.random() < 0.25 and i:
            name = calls[rng.randrange(i)]['name']      # same event class sent again
        prev = [c for c in calls if c['name'] == name]
        frm = prev[0]['from'] if prev else rng.choice(frm_pool)
        chans = prev[0]['channels'] if prev else rng.choice([['app'], ['app'], ['app'], ['aux'], [], ['app', 'aux'], ['aux', 'app'], ['nowhere']])
        if hot and not prev and rng.random() < 0.05 and 'init' not in behaviour:
            name, chans = 'init', rng.choice([[], ['node']])
        if name not in behaviour:
            behaviour[name] = rng.choice(behaviours if len(chans) < 2 else ['ret', 'echo', 'none'])
            if len(chans) < 2 and rng.random() < 0.12:
                behaviour[name] = 'arg0'
        big = rng.choice([5000, 9000, 21000]) if i == big_at else 0
        args, kwargs = gen_payload(rng, hot, big)
        if behaviour[name] == 'arg0' and rng.random() < 0.7:
            args = [rng.choice(FALSY)] + list(args[1:])
        r = rng.random()
        style = 'direct' if r < 0.5 else 'call' if r < 0.8 else 'bound' if r < 0.92 else 'noresult'
        calls.append({'from': frm, 'name': name, 'args': args, 'kwargs': kwargs, 'channels': chans, 'style': style,
                      'wave': 0 if together else i,
                      'flags': {'success': rng.random() < 0.3, 'failure': rng.random() < 0.3, 'notify': rng.random() < 0.2}})
    cuts = {'c2s': gen_sizes(rng), 's2c': gen_sizes(rng)}
    if big_at >= 0 and rng.random() < 0.8:
        # packets of 5-21 KiB are mostly read in realistic sizes; byte-at-a-time over them is kept, but rare (cost)
        for d in cuts:
            if min(cuts[d]) < 256:
                cuts[d] = [rng.choice([512, 1024, 1460, 4096, 4096, 8192]), rng.choice([4096, BIG])]
    case = {'kind': 'calls', 'conns': conns, 'calls': calls, 'behaviour': behaviour, 'cuts': cuts, 'burst': rng.choice([0, 0, 1, 2])}
    if conns > 1 and rng.random() < 0.5:
        case['topology'] = 'hub'
    if rng.random() < 0.35:
        fw = {}
        for side in ('c', 's'):
            if rng.random() < 0.7:
                f = {}
                if rng.random() < 0.6:
                    f['send'] = gen_pred(rng, list(behaviour))
                if rng.random() < 0.6:
                    f['recv'] = gen_pred(rng, list(behaviour))
                fw[side] = f
        case['fw'] = fw
    if case.get('topology') == 'hub' and 'fw' not in case:
        # the hub relays what peer s0 sends to its 'app' channel on to peer s1
        for name in list(behaviour):
            mine = [c for c in calls if c['name'] == name]
            if behaviour[name] in ('ret', 'echo', 'none') and all(c['from'] == 's0' and c['channels'] == ['app'] for c in mine) and rng.random() < 0.7:
                behaviour[name] = 'relay'
    return case


TYPE_POOL = [None, True, False, 0, -1, 1.5, 1e308, '', 'x', 'node', '*', [], [[1]], {}, {'a': 1}, [{'a': 1}], [None], [[]], 10 ** 30,
             ['app'], [1, 2], 'M!', [['k', 'v']], [[1, 2]], {'value': 1},
             # strings no identifier, type name or channel can hold: NUL, lone surrogates, very long
             'bad\x00name', '\x00', '\ud800', 'a\udfffb', 'n' * 300 + '\x00', ' ', 'a b', 'a.b', '1', '__class__', 'é']
HOSTILE_NAMES = ['generate_events', 'started', 'stopped', 'signal', 'exception', 'registered', 'unregistered', 'prepare_unregister',
                 'unregister', 'init', 'add_buffer', 'send', 'send_result', 'result_handler', 'write', 'read', 'close', 'connect',
                 'disconnect', 'value_changed', 'h_ok_success', 'h_ok_done', '', '*', 'ready', 'task',
                 'bad\x00name', '\ud800', 'a b', '__init__', 'é']
FIELDS_CALL = ['id', 'name', 'args', 'kwargs', 'success', 'failure', 'channels', 'notify', 'meta']
FIELDS_VALUE = ['id', 'errors', 'value', 'meta']


def marker(rng, k):
    # markers are values no well-formed path can produce (a boolean or small int could also come from the packet's own
    # top-level success/failure/notify fields, which the peer legitimately controls)
    c = rng.randrange(5)
    return ['M!' + k, ['M!', k], {'M!': k}, 424242, ['M!', [k]]][c]


def J(obj, *classes_, **kw):
    p = {'form': 'json', 'obj': obj, 'class': list(classes_)}
    p.update(kw)
    return p


def R(data, *classes_):
    # a mutation that happens to be well-formed JSON is handled as a structured packet, so that triggers are seen
    if data.endswith(DELIM) and 'deep_nesting' not in classes_:
        try:
            o = json.loads(data[:-3].decode('utf-8'))
            if isinstance(o, dict) and json.dumps(o).encode() == data[:-3]:
                return J(o, *classes_)
        except (ValueError, RecursionError):
            pass
    return {'form': 'raw', 'bytes': data, 'class': list(classes_)}


def gen_hostile_packet(rng, attrs, inflight):
    r = rng.random()
    valid_call = json.dumps(base_call(args=[1, 'two'], kwargs={'k': [3]})).encode()
    valid_value = json.dumps({'id': 0, 'errors': False, 'value': 'v', 'meta': {}}).encode()
    if r < 0.12:     # truncated
        src = rng.choice([valid_call, valid_value])
        cut = rng.randrange(0, len(src))
        return R(src[:cut] + (DELIM if rng.random() < 0.8 else b''), 'truncated')
    if r < 0.24:     # invalid JSON / bytes
        src = bytearray(rng.choice([valid_call, valid_value]))
        c = rng.randrange(8)
        if c == 0:
            for _ in range(rng.randint(1, 4)):
                src[rng.randrange(len(src))] = rng.randrange(256)
        elif c == 1:
            src = bytearray(b'\xff\xfe\x00bad utf8 \xc3')
        elif c == 2:
            src = bytearray(bytes(src).replace(b'"', b"'"))
        elif c == 3:
            src = bytearray(b'\xef\xbb\xbf') + src
        elif c == 4:
            src = bytearray(rng.choice([b'', b' ', b'null', b'[]', b'"str"', b'0', b'{}', b'NaN', b'{"id": NaN}', b'~', b'~~', b'\x00']))
        elif c == 5:
            src = src + bytearray(b' trailing')
        elif c == 6:
            src = bytearray(b'{"id": 1, "id": 2, "name": "h_ok", "name": "x"}')
        else:
            src = bytearray(b'{"name": "h_ok", "args": [' + b'9' * 5000 + b']}')
        return R(bytes(src) + DELIM * rng.randint(0, 3), 'invalid')
    if r < 0.44:     # wrong type for a field / missing field
        if inflight and rng.random() < 0.4:
            o = {'id': 0, 'errors': False, 'value': 'v', 'meta': {}}
            fields = FIELDS_VALUE
        else:
            o = base_call(args=[1], kwargs={'k': 1})
            fields = FIELDS_CALL
        for f in rng.sample(fields, rng.randint(1, 2)):
            if rng.random() < 0.2:
                o.pop(f, None)
            else:
                o[f] = copy.deepcopy(rng.choice(TYPE_POOL))
        return J(o, 'wrong_type')
    if r < 0.66:     # hostile metadata
        keys = rng.sample(attrs, rng.randint(1, min(6, len(attrs))))
        if rng.random() < 0.15:
            keys = list(attrs)
        if rng.random() < 0.3:
            keys.append(rng.choice(['node_call_id', 'node_sock', 'node_without_result', 'remote_finish', 'errors', '__class__', '__dict__',
                                    '_Event__x', 'lock', 'time_left', 'x']))
        meta = {k: marker(rng, k) for k in keys}
        if rng.random() < 0.15:
            meta = [[k, v] for k, v in meta.items()]
            if rng.random() < 0.3:
                meta.append([1, 2])
        if inflight and rng.random() < 0.4:
            return J({'id': 0, 'errors': rng.choice([False, True, 'x']), 'value': rng.choice([1, None, 'v']), 'meta': meta}, 'meta')
        return J(base_call(meta=meta, args=[1]), 'meta')
    if r < 0.74:     # unhashable / odd channels
        ch = rng.choice([[[1]], [{}], [[[]]], ['app', [1]], [{'a': 1}, 'app'], [None], [1.5, True], 'app', {'app': 1}, [['app']]])
        return J(base_call(channels=ch), 'channels')
    if r < 0.80:     # hostile names
        return J(base_call(name=rng.choice(HOSTILE_NAMES), channels=rng.choice([['node'], ['*'], ['app'], []]),
                           args=rng.choice([[], [1], ['x', 'y'], [0, {'value': 1}]]), kwargs=rng.choice([{}, {'sock': 1}, {'self': 1}, {'event': 2}])), 'names')
    if r < 0.88:     # deep nesting
        n = rng.choice([50, 500, 1200, 5000, 100000])
        c = rng.randrange(3)
        if c == 0:
            return R(b'[' * n + DELIM, 'deep_nesting')
        if c == 1:
            return R(b'{"id": 1, "name": "h_ok", "args": ' + b'[' * n + b']' * n + b', "kwargs": {}, "success": false, "failure": false, '
                     b'"channels": ["app"], "notify": false, "meta": {}}' + DELIM, 'deep_nesting')
        return R(b'{"a":' * n + b'1' + b'}' * n + DELIM, 'deep_nesting')
    if r < 0.95:     # oversized
        n = rng.choice([5000, 70000, 300000])
        c = rng.randrange(4)
        if c == 0:
            return J(base_call(args=['A' * n]), 'oversized')
        if c == 1:
            return J(base_call(name='N' * n), 'oversized')
        if c == 2:
            return R(b'x' * n + (DELIM if rng.random() < 0.5 else b''), 'oversized')
        return R(DELIM * (n // 30), 'oversized')
    # a call packet that contains the text "value": , a value packet for an unknown id, ids of odd types
    c = rng.randrange(3)
    if c == 0:
        return J({'id': rng.choice([99, -1, 'zero', 1.0, None, [0], {'a': 1}]), 'errors': False, 'value': 1, 'meta': {}}, 'value_id')
    if c == 1:
        return J(base_call(id=rng.choice(['zero', None, [0], {'a': 1}, 1e308, -5])), 'value_id')
    return J({'id': 0, 'errors': [1], 'value': {'value': {'value': 1}}, 'meta': {'remote_finish': False, 'errors': 'M!'}}, 'value_id')


def gen_hostile(rng):
    attrs = dispatcher_attrs()
    inflight = rng.random() < 0.5
    n = rng.choice([1, 1, 1, 2, 3])
    packets = [gen_hostile_packet(rng, attrs, inflight) for _ in range(n)]
    chunks = rng.choice([None, None, [1], [rng.randint(1, 50)], [4096], [rng.randint(1, 9), BIG]])
    if sum(len(packet_bytes(p)) for p in packets) > 20000 and chunks and chunks[0] < 64:
        chunks = [4096]
    return {'kind': 'hostile', 'side': rng.choice(['s', 'c']), 'inflight': inflight, 'packets': packets, 'chunks': chunks,
            'burst': rng.random() < 0.3}


def gen_roundtrip(rng):
    args, kwargs = gen_payload(rng, hot=True, big=rng.choice([0, 0, 0, 5000]))
    return {'kind': 'roundtrip', 'name': rng.choice(NAMES + ['a~b', 'value']), 'args': args, 'kwargs': kwargs,
            'channels': rng.choice([[], ['app'], ['a', 'b'], ['*'], ['é', 'x~~~y']]), 'id': rng.choice([0, 1, 7, 2 ** 40, rng.randint(0, 10 ** 6)]),
            'flags': {'success': rng.random() < 0.5, 'failure': rng.random() < 0.5, 'notify': rng.random() < 0.5},
            'values': [{'value': gen_value(rng, 0, True), 'errors': rng.random() < 0.3, 'id': rng.randint(0, 1000), 'with_event': rng.random() < 0.5}
                       for _ in range(rng.randint(1, 3))]}


# ------------------------------------------------------------------------------------------------
# corpus
# ------------------------------------------------------------------------------------------------
def call(frm, name, args=(), kwargs=None, channels=('app',), style='direct', wave=0, **flags):
    return {'from': frm, 'name': name, 'args': list(args), 'kwargs': dict(kwargs or {}), 'channels': list(channels), 'style': style,
            'wave': wave, 'flags': flags}


def calls_case(calls, behaviour=None, cuts=None, conns=1, fw=None, burst=0, topology=None):
    c = {'kind': 'calls', 'conns': conns, 'calls': calls, 'behaviour': behaviour or {}, 'cuts': cuts or {}, 'burst': burst}
    if fw:
        c['fw'] = fw
    if topology:
        c['topology'] = topology
    return c


def corpus():
    cs = []
    hello = call('c0', 'hello', ['world', 1], {'k': [1, 2, {'z': None}]})
    # one piece, both directions, both styles
    cs.append(calls_case([hello], {'hello': 'ret'}))
    cs.append(calls_case([call('s0', 'hello', [1], style='call')], {'hello': 'echo'}))
    cs.append(calls_case([call('c0', 'hello', [1], style='call'), call('s0', 'ping', [2], style='direct')], {'hello': 'ret', 'ping': 'gen'}))
    # cut classes: inside the request, inside its delimiter, byte at a time, inside the answer, fixed 4096 reads of a big packet
    cs.append(calls_case([hello], {'hello': 'ret'}, {'c2s': [10, BIG]}))
    cs.append(calls_case([hello], {'hello': 'ret'}, {'s2c': [10, BIG]}))
    cs.append(calls_case([hello], {'hello': 'ret'}, {'c2s': [1], 's2c': [1]}))
    cs.append(calls_case([hello, call('c0', 'ping', [2])], {'hello': 'ret', 'ping': 'echo'}, {'c2s': [7], 's2c': [5]}, burst=1))
    cs.append(calls_case([call('c0', 'hello', ['B' * 9000], {'blob': list(range(2000))})], {'hello': 'echo'}, {'c2s': [4096], 's2c': [4096]}))
    cs.append(calls_case([call('s0', 'hello', ['B' * 21000], style='call')], {'hello': 'echo'}, {'c2s': [4096], 's2c': [1460]}))
    cs.append(calls_case([call('c0', 'hello', ['B' * 5000])], {'hello': 'echo'}))
    # the delimiter cut: request packet is known to end with ~~~, cut one and two bytes before its end
    for back in (1, 2):
        cs.append({'kind': 'calls-delimcut', 'back': back, 'dir': 'c2s'})
        cs.append({'kind': 'calls-delimcut', 'back': back, 'dir': 's2c'})
    # several in flight, same event class twice, results must not be swapped
    cs.append(calls_case([call('c0', 'hello', [i]) for i in range(5)], {'hello': 'ret'}))
    cs.append(calls_case([call('c0', 'hello', [1]), call('c0', 'ping', [2], style='call'), call('c0', 'x', [3]), call('s0', 'evt9', [4])],
                         {'hello': 'gen', 'ping': 'ret', 'x': 'echo', 'evt9': 'ret'}))
    cs.append(calls_case([call('c0', 'hello', [1], wave=0), call('c0', 'hello', [2], wave=1), call('c0', 'ping', [3], wave=1)], {'hello': 'ret', 'ping': 'none'}))
    # receiver behaviours: none, generator, two handlers on two channels, no handler at all, fire-and-forget
    cs.append(calls_case([call('c0', 'hello', [1])], {'hello': 'none'}))
    cs.append(calls_case([call('c0', 'hello', [1], style='call')], {'hello': 'gen'}))
    cs.append(calls_case([call('c0', 'hello', [1], channels=['app', 'aux'])], {'hello': 'ret'}))
    cs.append(calls_case([call('c0', 'hello', [1], channels=['nowhere'])], {'hello': 'ret'}))
    cs.append(calls_case([call('c0', 'hello', [1], channels=[])], {'hello': 'ret'}))
    cs.append(calls_case([call('s0', 'hello', [1], style='noresult'), call('s0', 'ping', [1], wave=1)], {'hello': 'ret', 'ping': 'ret'}))
    cs.append(calls_case([call('c0', 'hello', [1], success=True, failure=True, notify=True)], {'hello': 'ret'}))
    # the event is fired locally first and one of its own handlers hands it to send() (auto-binding): the promise of that fire() gets the
    # peer's result
    # results that are falsy but are results: the sender gets exactly them back, in every call style and in both directions
    for st_ in ('direct', 'call', 'bound'):
        cs.append(calls_case([call(f, 'hello', [v], style=st_, wave=k) for k, (f, v) in enumerate(zip(['c0', 's0'] * 4, FALSY + [None, 1, 'x']))],
                             {'hello': 'arg0'}, {'c2s': [7], 's2c': [5]}))
    cs.append(calls_case([call('c0', 'hello', [v]) for v in FALSY], {'hello': 'arg0'}))
    cs.append(calls_case([call('c0', 'hello', [0], success=True, notify=True), call('s0', 'ping', [False], style='call', success=True)], {'hello': 'arg0', 'ping': 'arg0'}))
    for b in ('ret', 'echo', 'gen', 'none', 'boom'):
        cs.append(calls_case([call('c0', 'hello', [1, 'x'], style='bound')], {'hello': b}))
        cs.append(calls_case([call('s0', 'hello', [2], style='bound', success=True), call('c0', 'ping', [3], style='bound', notify=True)], {'hello': b, 'ping': 'ret'}))
    cs.append(calls_case([call('c0', 'hello', [i], style='bound') for i in range(3)] + [call('c0', 'ping', [9])], {'hello': 'ret', 'ping': 'echo'}, {'c2s': [7], 's2c': [5]}))
    cs.append(calls_case([call('c0', 'hello', [1], style='bound', channels=['app', 'aux'])], {'hello': 'ret'}))
    cs.append(calls_case([call('c0', 'hello', [1], style='bound'), call('c1', 'ping', [2], style='bound')], {'hello': 'ret', 'ping': 'gen'}, conns=2, topology='hub'))
    # a relaying node: s0 calls the hub, whose handler passes the event on to s1 and waits; the answer of s1 goes back to s0's caller
    for style in ('direct', 'call'):
        cs.append(calls_case([call('s0', 'hello', [1, {'k': 2}], style=style)], {'hello': 'relay'}, conns=2, topology='hub'))
        cs.append(calls_case([call('s0', 'hello', [i], style=style) for i in range(3)] + [call('s1', 'ping', [7]), call('c1', 'x', [8])],
                             {'hello': 'relay', 'ping': 'ret', 'x': 'echo'}, {'c2s': [7], 's2c': [5]}, conns=3, topology='hub'))
    # the node components that create the Protocols (listening Server, Node(port=...), connecting Client) hand the right firewall to
    # the right direction
    for which in ('server', 'node', 'client'):
        for fw in ({'send': {'deny_names': ['secret']}, 'recv': {'deny_names': ['admin']}}, {'send': {'deny_names': ['secret']}},
                   {'recv': {'deny_names': ['admin']}}, {'send': {'deny_all': True}, 'recv': {}}, {'send': {}, 'recv': {'deny_all': True}}, {}):
            cs.append({'kind': 'wiring', 'which': which, 'names': ['hello', 'secret', 'admin'], 'fw': fw})
    # several outgoing connections in one tree (what two Node.add() calls give), calls in flight on all of them, answers in either order
    for n, calls_ in ((2, [(0, 'task_e', 1), (1, 'task_f', 2)]), (2, [(0, 'hello', 1), (0, 'hello', 2), (1, 'hello', 3)]),
                      (3, [(2, 'a', 1), (0, 'b', 2), (1, 'c', 3), (0, 'd', 4), (2, 'e', 5)]), (2, [(1, 'only', 1)])):
        for answers in ('in-order', 'reversed'):
            for sb in (False, True):
                cs.append({'kind': 'clients', 'n': n, 'calls': [list(c) for c in calls_], 'answers': answers, 'settle_between': sb})
    # remote handler raises (plain and generator)
    cs.append(calls_case([call('c0', 'hello', [1])], {'hello': 'boom'}))
    cs.append(calls_case([call('c0', 'hello', [1], style='call', failure=True)], {'hello': 'genboom'}))
    # firewalls: send side, receive side, both sides, by name and by channel
    deny_ping = {'deny_names': ['ping']}
    two = [call('c0', 'hello', [1]), call('c0', 'ping', [2]), call('c0', 'hello', [3], wave=1)]
    cs.append(calls_case(copy.deepcopy(two), {'hello': 'ret', 'ping': 'ret'}, fw={'c': {'send': deny_ping}}))
    cs.append(calls_case(copy.deepcopy(two), {'hello': 'ret', 'ping': 'ret'}, fw={'s': {'recv': deny_ping}}))
    cs.append(calls_case([call('s0', 'hello', [1]), call('s0', 'ping', [2], channels=['aux'])], {'hello': 'ret', 'ping': 'ret'},
                         fw={'s': {'send': {'deny_channels': ['aux']}}, 'c': {'recv': {'deny_names': ['hello']}}}))
    cs.append(calls_case([call('s0', 'ping', [2], channels=['aux']), call('c0', 'hello', [2], channels=['aux'])], {'hello': 'ret', 'ping': 'ret'},
                         fw={'c': {'recv': {'deny_channels': ['aux']}, 'send': {}}, 's': {'recv': {'deny_all': True}}}))
    # the protocol's own public methods are not remote entry points: a peer that sends 'init' must not get rid of the firewall
    cs.append(calls_case([call('c0', 'init', [], {}, channels=['node'], style='noresult'), call('c0', 'ping', [2], wave=1), call('c0', 'hello', [3], wave=2)],
                         {'init': 'none', 'ping': 'ret', 'hello': 'ret'}, fw={'s': {'recv': deny_ping}}))
    cs.append(calls_case([call('s0', 'init', [], {'sock': None}, channels=[]), call('s0', 'ping', [2], wave=1), call('c0', 'hello', [3], wave=2)],
                         {'init': 'none', 'ping': 'ret', 'hello': 'ret'}, fw={'c': {'recv': deny_ping, 'send': {'deny_names': ['hello']}}}))
    # payload corner cases (the last two are triggers of known findings)
    cs.append(calls_case([call('c0', 'hé', ['中\U0001f600', '', 0.1, -0.0, 10 ** 30, None, True, [[]], {}], {'k k': '"quoted"', '': 1})], {'hé': 'echo'}))
    cs.append(calls_case([call('c0', 'hello', [{'value': 1}], {'value': 2})], {'hello': 'echo'}))
    cs.append(calls_case([call('c0', 'hello', ['a~~~b'], {'k': '~~~'})], {'hello': 'echo'}))
    # two connections in one server tree
    cs.append(calls_case([call('c0', 'hello', [1], wave=0), call('c1', 'ping', [2], wave=1), call('s0', 'x', [3], wave=2), call('s1', 'evt9', [4], wave=3)],
                         {'hello': 'ret', 'ping': 'ret', 'x': 'ret', 'evt9': 'ret'}, conns=2))
    cs.append(calls_case([call('s0', 'x', [3]), call('s1', 'evt9', [4])], {'x': 'ret', 'evt9': 'ret'}, conns=2))
    cs.append(calls_case([call('c0', 'hello', [1]), call('c1', 'ping', [2])], {'hello': 'ret', 'ping': 'ret'}, conns=2))
    # one tree with several OUTGOING connections (what Node.add() builds: client-side Protocols side by side), each to its own server tree
    cs.append(calls_case([call('c0', 'hello', [1]), call('c1', 'ping', [2]), call('s0', 'x', [3]), call('s1', 'evt9', [4])],
                         {'hello': 'ret', 'ping': 'gen', 'x': 'ret', 'evt9': 'echo'}, conns=2, topology='hub'))
    cs.append(calls_case([call('s0', 'hello', [1]), call('s1', 'ping', [2])], {'hello': 'boom', 'ping': 'gen'}, conns=2, topology='hub'))
    cs.append(calls_case([call('s0', 'hello', [1], style='call'), call('s1', 'ping', [2], style='call')], {'hello': 'genboom', 'ping': 'gen'},
                         {'c2s': [7], 's2c': [5]}, conns=2, topology='hub'))
    cs.append(calls_case([call('s1', 'hello', [1], wave=1), call('s0', 'ping', [2], wave=0), call('s2', 'x', [3], wave=1)],
                         {'hello': 'boom', 'ping': 'gen', 'x': 'ret'}, conns=3, topology='hub'))
    cs.append(calls_case([call('c0', 'hello', [1]), call('c1', 'ping', [2]), call('s1', 'x', [3])], {'hello': 'boom', 'ping': 'genboom', 'x': 'boom'},
                         conns=2, topology='hub'))
    # hostile: one case per class
    for side in ('s', 'c'):
        cs.append({'kind': 'hostile-attrs', 'side': side, 'inflight': False})
        cs.append({'kind': 'hostile-attrs', 'side': side, 'inflight': True})
    H = []
    H.append([R(b'{"id": 1, "name": "h_ok", "ar' + DELIM, 'truncated'), R(b'{"id": 1' + DELIM, 'truncated')])
    H.append([R(b'\xff\xfe\x00' + DELIM, 'invalid'), R(b'not json at all' + DELIM, 'invalid'), R(DELIM * 3, 'invalid')])
    H.append([J(base_call(meta={'cause': 1}), 'meta')])
    H.append([J(base_call(meta={'effects': 'x', 'cause': {'a': 1}}), 'meta')])
    H.append([J(base_call(meta={'complete_channels': ['M!']}), 'meta')])
    H.append([J(base_call(meta=[['cause', 1], [1, 2]]), 'meta')])
    H.append([J(base_call(channels=[[1]]), 'channels')])
    H.append([J(base_call(channels=[{}, 'app']), 'channels')])
    H.append([J(base_call(channels='app'), 'channels'), J(base_call(channels=5), 'wrong_type'), J(base_call(channels=None), 'wrong_type')])
    for f in FIELDS_CALL:
        H.append([J(base_call(**{f: v}), 'wrong_type') for v in (None, 5, 'x', [[1]], {'a': 1})])
        o = base_call()
        del o[f]
        H.append([J(o, 'wrong_type')])
    H.append([R(b'[' * 100000 + DELIM, 'deep_nesting')])
    H.append([R(b'{"id": 1, "name": "h_ok", "args": ' + b'[' * 3000 + b']' * 3000 + b', "kwargs": {}, "success": false, "failure": false, '
                b'"channels": ["app"], "notify": false, "meta": {}}' + DELIM, 'deep_nesting')])
    H.append([J(base_call(args=['A' * 300000]), 'oversized')])
    H.append([R(b'x' * 200000, 'oversized'), R(DELIM * 2000, 'oversized')])
    H.append([J(base_call(name=nm, channels=['node']), 'names') for nm in HOSTILE_NAMES[:12]])
    H.append([J(base_call(name=nm, channels=['*'], args=[1, 2]), 'names') for nm in HOSTILE_NAMES[12:]])
    H.append([J(base_call(kwargs={'self': 1}), 'names'), J(base_call(kwargs={'event': 1}), 'names'), J(base_call(kwargs={'_name': 1}), 'names')])
    for pk in H:
        cs.append({'kind': 'hostile', 'side': 's', 'inflight': False, 'packets': pk, 'chunks': None})
    cs.append({'kind': 'hostile', 'side': 'c', 'inflight': False, 'packets': H[0] + H[1], 'chunks': [1]})
    V = []
    for f in FIELDS_VALUE:
        V.append([J(dict({'id': 0, 'errors': False, 'value': 'v', 'meta': {}}, **{f: v}), 'wrong_type') for v in (None, 'x', [[1]], {'a': 1}, 5)])
    V.append([J({'id': 0, 'errors': False, 'value': 1, 'meta': {'cause': 1, 'effects': 2, 'success_channels': ['M!'], 'stopped': 'M!stopped'}}, 'meta')])
    V.append([J({'id': [0], 'errors': False, 'value': 1, 'meta': {}}, 'value_id'), J({'id': {'a': 1}, 'errors': False, 'value': 1, 'meta': {}}, 'value_id')])
    V.append([J({'id': 0, 'errors': False, 'value': 1, 'meta': [['cause', 1]]}, 'meta')])
    for pk in V:
        cs.append({'kind': 'hostile', 'side': 's', 'inflight': True, 'packets': pk, 'chunks': None})
        cs.append({'kind': 'hostile', 'side': 'c', 'inflight': True, 'packets': pk, 'chunks': None})
    # roundtrip
    cs.append({'kind': 'roundtrip', 'name': 'hello', 'args': [1, 'a', None, [1.5, {'k': True}]], 'kwargs': {'k': 'v', 'n': {'x': []}}, 'channels': ['a', 'b'],
               'id': 7, 'flags': {'success': True, 'failure': False, 'notify': True},
               'values': [{'value': {'a': [1]}, 'errors': False, 'id': 3, 'with_event': True}, {'value': None, 'errors': True, 'id': 0, 'with_event': False}]})
    cs.append({'kind': 'roundtrip', 'name': 'x', 'args': [], 'kwargs': {}, 'channels': [], 'id': 0,
               'flags': {'success': False, 'failure': True, 'notify': False}, 'values': [{'value': 'B' * 9000, 'errors': False, 'id': 1, 'with_event': False}]})
    return cs


def expand(case):
    """Corpus entries whose concrete form depends on values only known at run time (attribute names, packet lengths)."""
    kind = case['kind']
    if kind == 'hostile-attrs':
        attrs = dispatcher_attrs()
        pk = []
        for k in attrs:
            o = ({'id': 0, 'errors': False, 'value': 1, 'meta': {k: 'M!' + k}} if case['inflight'] else base_call(meta={k: 'M!' + k}))
            pk.append(J(o, 'meta'))
        full = {k: ['M!', k] for k in attrs}
        pk.append(J({'id': 0, 'errors': False, 'value': 1, 'meta': full} if case['inflight'] else base_call(meta=full), 'meta'))
        # one packet per case, so that one key cannot hide what another does
        return [{'kind': 'hostile', 'side': case['side'], 'inflight': case['inflight'], 'packets': [p], 'chunks': None} for p in pk]
    if kind == 'calls-delimcut':
        base = calls_case([call('c0', 'hello', ['world', 1], {'k': 2})], {'hello': 'ret'})
        lens = stream_lengths(base)
        n = lens[case['dir']]
        c = copy.deepcopy(base)
        c['cuts'] = {case['dir']: [n - case['back'], BIG]}
        return [c]
    return [case]


def stream_lengths(case):
    """Dry run of a calls case in one piece, to learn how long the two streams are (for exhaustive single cuts)."""
    c = copy.deepcopy(case)
    c['cuts'] = {}
    w = World(c)
    for i in range(len(c['calls'])):
        w.start_call(i)
    w.settle()
    return {d: len(w.links[0].stream[d]) for d in ('c2s', 's2c')}


def single_cut_cases(base, lo=None, hi=None):
    lens = stream_lengths(base)
    out = []
    for d in ('c2s', 's2c'):
        for k in range(1, lens[d]):
            c = copy.deepcopy(base)
            c['cuts'] = {d: [k, BIG]}
            out.append(c)
    return out


SHORT_BASES = [
    calls_case([call('c0', 'hi', [1])], {'hi': 'ret'}),
    calls_case([call('s0', 'hi', ['é~'], {'k': None}, style='call')], {'hi': 'echo'}),
    calls_case([call('c0', 'a', [1]), call('c0', 'b', [2])], {'a': 'ret', 'b': 'gen'}),
]


# ------------------------------------------------------------------------------------------------
def plan(tier, seed):
    if tier == 'quick':
        specs = [{'kind': 'corpus'}, {'kind': 'single-cuts', 'base': 0}]
        specs += [{'kind': 'random', 'what': 'calls', 'seed': seed * 1000 + i, 'n': 220} for i in range(9)]
        specs += [{'kind': 'random', 'what': 'hostile', 'seed': seed * 1000 + 100 + i, 'n': 200} for i in range(4)]
        specs += [{'kind': 'random', 'what': 'roundtrip', 'seed': seed * 1000 + 200, 'n': 1500}]
        return specs
    specs = [{'kind': 'corpus'}] + [{'kind': 'single-cuts', 'base': i} for i in range(len(SHORT_BASES))]
    specs += [{'kind': 'random', 'what': 'calls', 'seed': seed * 100000 + i, 'n': 2500} for i in range(40)]
    specs += [{'kind': 'random', 'what': 'hostile', 'seed': seed * 100000 + 1000 + i, 'n': 3000} for i in range(16)]
    specs += [{'kind': 'random', 'what': 'roundtrip', 'seed': seed * 100000 + 2000 + i, 'n': 12000} for i in range(4)]
    return specs


def run_batch(spec):
    import circuits  # noqa: F401  (the real package under test)
    b = Batch(PROPERTY)
    if spec['kind'] == 'corpus':
        for entry in corpus():
            for case in expand(entry):
                evaluate(b, case)
    elif spec['kind'] == 'single-cuts':
        for case in single_cut_cases(SHORT_BASES[spec['base']]):
            evaluate(b, case)
            b.reached('exhaustive_single_cut_cases')
    else:
        rng = random.Random(spec['seed'])
        gen = {'calls': gen_calls, 'hostile': gen_hostile, 'roundtrip': gen_roundtrip}[spec['what']]
        for _ in range(spec['n']):
            evaluate(b, gen(rng))
    return b.result()


def run_replay(case):
    import circuits  # noqa: F401
    b = Batch(PROPERTY)
    evaluate(b, unjson(case))
    return b.result()


ENGINE = 'event-injection'
TECHNIQUE = ('runtime monitoring: two (or three) real node.Protocol instances in separate component trees stepped by the harness and joined '
             'by a byte wire that re-cuts the stream; dispatch/handler/result logs compared with the declarative case, a reference stream '
             'parser, the case\'s firewall predicates and marker values for hostile metadata')
LEVEL_TEXT = ('Every remote call of every generated case is followed end to end on the real code: bytes written by the sending Protocol, '
              'chunks fed to the receiving add_buffer, dispatches and handler runs on the peer, the value and error flag the waiting '
              'generator is resumed with. Exactly-once, payload identity, result identity and firewall silence are decided per call at '
              'quiescence of the single-threaded system; hostile packets are decided by "tick() never raised", a local canary event '
              'and marker values in the dispatcher-relevant attributes (names harvested from the running package). Held means: no '
              'mismatch on the corpus, on every single cut of short exchanges and on the random cases run; it is sampling, not a proof.')
LEVEL_NOTE = ('Trusted: the harness wire (ordered, lossless), the partition of Protocol\'s class-level state per tree, the JSON reference '
              'parser. Not exercised here: real sockets (TCPServer/TCPClient under Server/Client/Node), reconnects, Node.add '
              'auto_remote_event. Findings of the pinned tree are attributed only through neutralised twins.')

"""C09 - timers never fire early, fire as often as specified, and bound the idle sleep.

Runs real Timer components under the real run() on a virtual clock (vlib/vclock.py): time.time and
threading.Event are doubles installed before circuits is imported; every idle wait is logged with
its virtual duration and advances the clock exactly (DESIGN.md 2.3 and section 4, C09).
"""
import random

from vlib.batch import Batch, BudgetExceeded, cpu_budget, unjson

PROPERTY = 'C09'
LEVEL = 'exploration'
RULE = ('fixed corpus (one-shot, persistent, interval 0, equal intervals, datetime deadline, reset before/after expiry, unregister before/after '
        'expiry, timer created late, timers next to sleep() tasks and ordinary events; six of them also with a Select, Poll or EPoll component in the tree, whose select/poll/epoll wait then is the idle sleep and runs on the virtual clock in the unit the system call defines) + seeded random scenarios of 1-6 timers with intervals '
        'from {0, 0.1, 0.1, 0.25, 1, 2.5} or datetimes, persistent or not, created/reset/unregistered at random virtual times; non-trivial = '
        '>= 2 timers alive at the same time with different expiries, or a reset/unregister of a live timer; distinct = hash of the scenario')
ASSUMPTIONS = [
    'time.time and threading.Event doubles are picked up by the repository (asserted per worker, else inconclusive)',
    'virtual time advances inside the idle wait of the loop thread (threading.Event.wait of the fall-back generator, or the poller\'s select.select / poll.poll [ms] / epoll.poll [s] when a poller is in the tree: asked with a zero timeout first, so real wake-ups are kept), in `busy` handlers, and - in running-clock scenarios - by a fixed cost with every '
    'reading of the clock; in those scenarios NO_OVERSLEEP and PERSISTENT_SPACING allow 64 readings of slack (the loop cannot act at the instant it reads)',
    'harness actions are executed from a generate_events handler of priority 100, i.e. at the start of a loop iteration',
    'EPS = 1e-6 s tolerance on float arithmetic of expiries',
]
REQUIRED = ['one_shot_fired', 'persistent_fired_3plus', 'interval_zero', 'equal_expiries', 'datetime_deadline', 'reset_live_timer',
            'unregister_live_timer', 'unregister_persistent_after_firing', 'idle_wait_bounded_by_timer', 'two_timers_alive', 'sleep_task_present',
            'unbounded_idle_without_timers', 'poller_idle_wait_on_virtual_clock_Select', 'poller_idle_wait_on_virtual_clock_Poll', 'poller_idle_wait_on_virtual_clock_EPoll', 'double_event_instances', 'virtual_time_calls', 'source_fire_seen',
            'datetime_deadline_in_non_utc_zone', 'handler_consumed_time', 'clock_advances_between_readings', 'reset_with_new_interval', 'reset_to_zero_interval',
            'timer_object_registered_again_after_it_left', 'timer_registered_from_another_thread_while_loop_idle', 'registering_thread_preempted_inside_register']
REQUIRED_OBLIGATIONS = ['NOT_EARLY', 'ONE_SHOT_ONCE', 'ONE_SHOT_DETACHED', 'PERSISTENT_SPACING', 'NO_FIRE_AFTER_UNREGISTER', 'RESET_RESTARTS',
                        'NO_OVERSLEEP', 'PROMPT']
WORKER_TIMEOUT = {'quick': 300, 'thorough': 1500}
ENGINE = 'virtual-clock'
TECHNIQUE = 'runtime monitoring on a virtual clock: doubles for time.time / threading.Event log every idle wait and every timer firing with exact virtual times'
LEVEL_TEXT = ('Real Timer components run under the real run() while time.time and the idle wait are replaced by a virtual clock; the log of '
              '(virtual now, timer) firings and (virtual now, duration) idle waits is checked against the scenario: never early, one-shots once and '
              'detached, persistent ones at least an interval apart and silent after unregister, reset restarts the countdown, no idle wait extends '
              'past the earliest live expiry, a due timer fires in the iteration that finds it due. Held = no clause failed on the scenarios run.')
LEVEL_NOTE = 'Trusted: the clock doubles (patched on the stdlib modules before import) and the ghost model of expiries; scenarios are sampled.'

EPS = 1e-6
T0 = 1_000_000.0


def run_case(case, clock):
    from datetime import datetime

    from circuits import BaseComponent, Event, Timer, handler
    from circuits.core.manager import sleep

    import os
    import time as _time_mod
    old_tz = os.environ.get('TZ')
    if case.get('tz'):
        # naive datetime deadlines are local times: the whole-second rule must hold in every time zone
        os.environ['TZ'] = case['tz']
        _time_mod.tzset()
    try:
        return _run_case(case, clock)
    finally:
        if case.get('tz'):
            if old_tz is None:
                os.environ.pop('TZ', None)
            else:
                os.environ['TZ'] = old_tz
            _time_mod.tzset()


def _run_case(case, clock):
    from datetime import datetime

    from circuits import BaseComponent, Event, Timer, handler
    from circuits.core.manager import sleep

    clock.reset(T0)
    clock.read_cost = float(case.get('read_cost') or 0.0)
    # with a running clock the loop cannot know how much time passes between reading the clock and acting on it: what is computed
    # from one reading may be off by the readings of one loop iteration (bounded by 64 here, far below the smallest interval used)
    slack = 64 * clock.read_cost
    log = []            # ('FIRE', now, tid) | ('ACT', now, action) | ('ITER', now)
    timers = {}         # tid -> dict(obj, persist, interval, expiry (ghost), alive, unreg_at, fired[])
    in_flight = {}      # tid of the scenario -> ghost records of the events fired by the timer and not yet delivered
    alias = {}          # tid of the scenario -> ghost record in force (reset(new interval) opens a new record for the same Timer object)
    problems = []
    counts = dict.fromkeys(REQUIRED_OBLIGATIONS, 0)
    marks = set()
    if clock.read_cost:
        marks.add('clock_advances_between_readings')
    state = {'ge': None, 'iters': 0, 'due_prev': [], 'stopped': False, 'unbounded_with_live': 0}
    actions = sorted(case['actions'], key=lambda a: a[0])
    pending = list(actions)
    end = case['end']

    class tick(Event):
        pass

    class App(BaseComponent):
        @handler('tmr')
        def _on_tmr(self, tid):
            now = clock.now
            log.append(('FIRE', now, tid))
            # (the record that was in force when the timer FIRED this event, not the one in force now)
            q = in_flight.get(tid)
            timers[q.pop(0) if q else alias.get(tid, tid)]['fired'].append(now)

        @handler('sleeper')
        def _on_sleeper(self, d):
            marks.add('sleep_task_present')
            yield sleep(d)
            yield 'done'

        @handler('act')
        def _on_act(self):
            while pending and pending[0][0] + T0 <= clock.now + EPS:
                do(pending.pop(0))

        @handler('generate_events', priority=100)
        def _on_ge(self, event):
            now = clock.now
            state['ge'] = event
            state['iters'] += 1
            # PROMPT: timers found due at the previous iteration must have fired by now
            for tid, exp, nfired in state['due_prev']:
                t = timers[tid]
                counts['PROMPT'] += 1
                if len(t['fired']) <= nfired and t['alive_at_check']:
                    problems.append(('PROMPT', {'timer': tid, 'expiry': exp - T0, 'iteration_started_at': t['checked_at'] - T0,
                                                'note': 'due at the start of a loop iteration but did not fire in it'}))
            state['due_prev'] = []
            if state['stopped']:
                return
            # harness actions scheduled at virtual times are performed by an ordinary event handler (next pass), the
            # way applications create timers; a Timer registered *inside* the dispatch of generate_events would not
            # take part in that very iteration (its handler is not in the list being run) - not what the statement is about
            if pending and pending[0][0] + T0 <= now + EPS:
                self.fire(Event.create('act'))
                event.reduce_time_left(0)
            if now >= end + T0 - EPS or state['iters'] > 5000:
                state['stopped'] = True
                self.stop()
                return
            nxt = min([end + T0] + [a[0] + T0 for a in pending])
            event.reduce_time_left(max(0.0, nxt - now))
            live = [(tid, t) for tid, t in timers.items() if t['alive']]
            if len({round(t['expiry'], 9) for _, t in live}) >= 2:
                marks.add('two_timers_alive')
            for tid, t in live:
                t['alive_at_check'] = False
                if t['obj'].expiry is not None and t['obj'].expiry <= now and t['obj'].parent is not t['obj'] and not t['obj'].unregister_pending:
                    t['alive_at_check'] = True
                    t['checked_at'] = now
                    state['due_prev'].append((tid, t['expiry'], len(t['fired'])))

    def do(a):
        at, kind = a[0], a[1]
        now = clock.now
        log.append(('ACT', now, a))
        if kind == 'new':
            _, _, tid, interval, persist = a
            if isinstance(interval, list):   # ['dt', seconds from now, microseconds]
                marks.add('datetime_deadline')
                if case.get('tz'):
                    marks.add('datetime_deadline_in_non_utc_zone')
                deadline = datetime.fromtimestamp(now + interval[1]).replace(microsecond=interval[2])
                obj = Timer(deadline, Event.create('tmr', tid), persist=persist)
                eff = float(int(deadline.timestamp())) - now   # the deadline counts at whole-second resolution
            else:
                obj = Timer(interval, Event.create('tmr', tid), persist=persist)
                eff = interval
                if interval == 0:
                    marks.add('interval_zero')
            obj.register(app)
            exp = now + eff
            if any(t['alive'] and abs(t['expiry'] - exp) < 1e-9 for t in timers.values()):
                marks.add('equal_expiries')
            timers[tid] = {'obj': obj, 'persist': persist, 'interval': eff, 'expiry': exp, 'alive': True, 'unreg_at': None, 'fired': [],
                           'resets': [], 'created': now, 'alive_at_check': False}
        elif kind == 'reset':
            t = timers.get(alias.get(a[2], a[2]))
            if t and t['alive'] and not t['obj'].unregister_pending and t['obj'].parent is not t['obj']:
                marks.add('reset_live_timer')
                if len(a) > 3:
                    # reset(new interval): the countdown restarts with another interval (0 = due at once).  The ghost closes the
                    # record of the old arming and opens one for the new (same Timer object)
                    marks.add('reset_with_new_interval')
                    if a[3] == 0:
                        marks.add('reset_to_zero_interval')
                    t['obj'].reset(a[3])
                    t['alive'] = False
                    t['resets'].append((now, len(log)))
                    t['superseded'] = True
                    nid = '%s+%d' % (a[2], sum(1 for k_ in timers if str(k_).startswith('%s+' % a[2])) + 1)
                    timers[nid] = {'obj': t['obj'], 'persist': t['persist'], 'interval': a[3], 'expiry': now + a[3], 'alive': True, 'unreg_at': None,
                                   'fired': [], 'resets': [], 'created': now, 'alive_at_check': False}
                    alias[a[2]] = nid
                else:
                    t['obj'].reset()
                    t['expiry'] = now + t['interval']
                    t['resets'].append((now, len(log)))
        elif kind == 'unreg':
            t = timers.get(alias.get(a[2], a[2]))
            if t and t['alive'] and t['obj'].parent is not t['obj']:
                marks.add('unregister_live_timer')
                if t['persist'] and t['fired']:
                    marks.add('unregister_persistent_after_firing')
                t['obj'].unregister()
                t['alive'] = False
                t['unreg_at'] = len(log)
        elif kind == 'rejoin':
            # a Timer object that has left the tree (a one-shot that fired, or a completed unregister()) is armed and registered again
            t = timers.get(alias.get(a[2], a[2]))
            if t and not t['alive'] and t['obj'].parent is t['obj'] and not isinstance(t['obj'].interval, datetime) \
                    and not (t['persist'] and t['interval'] == 0):      # (a persistent timer of interval 0 never lets the virtual time advance)
                marks.add('timer_object_registered_again_after_it_left')
                t['obj'].reset()
                t['obj'].register(app)
                t['superseded'] = True     # (it had left the tree - checked above -; what the object does from now on belongs to the new record)
                nid = '%s+%d' % (a[2], sum(1 for k_ in timers if str(k_).startswith('%s+' % a[2])) + 1)
                timers[nid] = {'obj': t['obj'], 'persist': t['persist'], 'interval': t['interval'], 'expiry': now + t['interval'], 'alive': True,
                               'unreg_at': None, 'fired': [], 'resets': [], 'created': now, 'alive_at_check': False}
                alias[a[2]] = nid
        elif kind == 'busy':
            # a long-running handler: virtual time passes inside it, the loop reaches its timers late
            marks.add('handler_consumed_time')
            clock.now += a[2]
        elif kind == 'fire':
            app.fire(tick())
        elif kind == 'sleeper':
            app.fire(Event.create('sleeper', a[2]))

    def on_wait(now, dur):
        # NO_OVERSLEEP: the idle wait must not extend past the earliest expiry of a live timer
        live = [t['expiry'] for t in timers.values() if t['alive']]
        counts['NO_OVERSLEEP'] += 1
        if live:
            marks.add('idle_wait_bounded_by_timer')
            if now + dur > min(live) + EPS + slack:
                problems.append(('NO_OVERSLEEP', {'wait_started_at': now - T0, 'duration': dur, 'earliest_live_expiry': min(live) - T0, 'slack': slack}))

    def on_unbounded():
        live = [t for t in timers.values() if t['alive']]
        counts['NO_OVERSLEEP'] += 1
        if live:
            state['unbounded_with_live'] += 1
            if state['unbounded_with_live'] <= 1:
                problems.append(('NO_OVERSLEEP', {'wait_started_at': clock.now - T0, 'duration': 'unbounded',
                                                  'earliest_live_expiry': min(t['expiry'] for t in live) - T0}))
        else:
            marks.add('unbounded_idle_without_timers')
        # nothing else can wake a single-threaded loop: jump to the next harness action and wake it
        nxt = min([end + T0] + [a[0] + T0 for a in pending])
        clock.now = max(clock.now, nxt)
        if state['ge'] is not None:
            state['ge'].reduce_time_left(0)

    app = App()
    clock.on_wait = on_wait
    clock.on_unbounded = on_unbounded
    restore = []
    if case.get('poller'):
        # a poller in the tree does the idle sleep instead of the fall-back generator: its wait (select.select / poll.poll / epoll.poll) is
        # put on the virtual clock too.  The double first asks the real call with a zero timeout (wake-ups through the control pipe are
        # real), then lets the requested time pass virtually - in the unit the real call defines: seconds, or milliseconds for poll.poll
        import select as _select

        from circuits.core import pollers as _pollers

        def virtual_wait(seconds):
            marks.add('poller_idle_wait_on_virtual_clock_' + case['poller'])
            if seconds is None or seconds < 0 or seconds >= 10000:
                clock.waits.append((clock.now, None))
                on_unbounded()
                return
            on_wait(clock.now, seconds)
            clock.waits.append((clock.now, seconds))
            if seconds > 0:
                clock.now += seconds

        class PollDouble:
            def __init__(self, real, unit):
                self._real, self._unit = real, unit

            def poll(self, timeout=None, *rest):
                got = self._real.poll(0)
                if got:
                    return got
                virtual_wait(None if timeout is None else timeout * self._unit)
                return self._real.poll(0)

            def __getattr__(self, name):
                return getattr(self._real, name)

        class SelectDouble:
            def select(self, r, w, x, timeout=None):
                got = _select.select(r, w, x, 0)
                if any(got):
                    return got
                virtual_wait(timeout)
                return _select.select(r, w, x, 0)

            def __getattr__(self, name):
                return getattr(_select, name)

        if case['poller'] == 'Select':
            restore.append(_pollers.select)
            _pollers.select = SelectDouble()
            poller = _pollers.Select()
        else:
            poller = getattr(_pollers, case['poller'])()
            poller._poller = PollDouble(poller._poller, 0.001 if case['poller'] == 'Poll' else 1.0)
        poller.register(app)
        restore.append(poller)
    # the ghost expiry of a timer moves when it fires: Timer fires its event through its own fire() (same virtual time);
    # wrap that method per instance so the model follows at the moment of firing
    real_do = do

    def do_wrapped(a):
        real_do(a)
        if a[1] == 'new':
            t = timers[a[2]]
            obj = t['obj']
            of = obj.fire

            def tf(event, *channels, _t=t, _of=of, **kwargs):
                if getattr(event, 'name', None) == 'tmr':
                    cur_id = alias.get(a[2], a[2])
                    _t = timers[cur_id]
                    log.append(('SRC', clock.now, cur_id))
                    in_flight.setdefault(a[2], []).append(cur_id)
                    marks.add('source_fire_seen')
                    if _t['persist']:
                        _t['expiry'] = clock.now + _t['interval']
                    else:
                        _t['alive'] = False
                return _of(event, *channels, **kwargs)
            obj.fire = tf
    do = do_wrapped  # noqa: F811
    raised = None
    try:
        app.run()
    except BaseException as e:
        raised = e
    finally:
        for r in restore:
            if hasattr(r, '_ctrl_recv'):
                import os as _os
                for end_ in (r._ctrl_recv, r._ctrl_send):
                    try:
                        end_.close() if hasattr(end_, 'close') else _os.close(end_)
                    except OSError:
                        pass
                if hasattr(getattr(r, '_poller', None), 'close'):
                    r._poller.close()
            else:
                from circuits.core import pollers as _pollers
                _pollers.select = r
    clock.active = False
    if raised is not None:
        return [('LOOP_RAISED', {'error': repr(raised)})], {'marks': marks, 'counts': counts, 'nontrivial': False}
    overrun = state['iters'] > 5000
    # -- evaluation of firings --------------------------------------------------------------------------
    nontrivial = 'two_timers_alive' in marks or 'reset_live_timer' in marks or 'unregister_live_timer' in marks
    for tid, t in timers.items():
        delivered = t['fired']
        fired = [e[1] for e in log if e[0] == 'SRC' and e[2] == tid]   # times at which the timer fired its event
        counts['NOT_EARLY'] += 0
        if len(delivered) != len(fired):
            problems.append(('ONE_SHOT_ONCE' if not t['persist'] else 'PERSISTENT_SPACING',
                             {'timer': tid, 'note': 'events fired by the timer and events delivered differ', 'fired': len(fired), 'delivered': len(delivered)}))
        if fired:
            counts['NOT_EARLY'] += 1
            if fired[0] + EPS < t['created'] + t['interval']:
                problems.append(('NOT_EARLY', {'timer': tid, 'fired_at': fired[0] - T0, 'not_before': t['created'] + t['interval'] - T0,
                                               'interval': t['interval'], 'persist': t['persist']}))
        for s, at in t['resets']:
            counts['RESET_RESTARTS'] += 1
            later = [e[1] for e in log[at:] if e[0] == 'SRC' and e[2] == tid]
            if later and later[0] + EPS < s + t['interval']:
                problems.append(('RESET_RESTARTS', {'timer': tid, 'reset_at': s - T0, 'next_firing_at': later[0] - T0, 'interval': t['interval']}))
        if t['persist']:
            if len(fired) >= 3:
                marks.add('persistent_fired_3plus')
            for a, b in zip(fired, fired[1:]):
                counts['PERSISTENT_SPACING'] += 1
                if b - a + EPS + slack < t['interval']:
                    problems.append(('PERSISTENT_SPACING', {'timer': tid, 'consecutive_firings': [a - T0, b - T0], 'interval': t['interval']}))
        else:
            counts['ONE_SHOT_ONCE'] += 1
            # (long-running handlers push the clock on: a timer that comes due while one of them runs may only be reached after the end
            # of the scenario - the obligation to have fired is then not evaluated)
            busy_total = sum(a[2] for a in case['actions'] if a[1] == 'busy')
            should = t['unreg_at'] is None and t['created'] + t['interval'] + busy_total <= end + T0 - 0.5 and not t['resets']
            if len(fired) > 1 or (should and len(fired) != 1):
                problems.append(('ONE_SHOT_ONCE', {'timer': tid, 'firings': [f - T0 for f in fired], 'created_at': t['created'] - T0,
                                                   'interval': t['interval'], 'scenario_end': end}))
            if fired:
                marks.add('one_shot_fired')
                counts['ONE_SHOT_DETACHED'] += 1
                if t['obj'].parent is not t['obj'] and fired[0] < end + T0 - 0.5 and not t.get('superseded'):
                    problems.append(('ONE_SHOT_DETACHED', {'timer': tid, 'fired_at': fired[0] - T0, 'still_attached': True}))
        if t['unreg_at'] is not None:
            counts['NO_FIRE_AFTER_UNREGISTER'] += 1
            late = [e for e in log[t['unreg_at']:] if e[0] == 'SRC' and e[2] == tid]
            if late:
                problems.append(('NO_FIRE_AFTER_UNREGISTER', {'timer': tid, 'fired_after_unregister_at': [e[1] - T0 for e in late]}))
    if overrun and not problems:
        # the loop span 5000 iterations without the virtual time reaching the end and without any clause failing
        return None, {'inconclusive': 'scenario did not reach its end in 5000 iterations'}
    return problems[:5], {'marks': marks, 'counts': counts, 'nontrivial': nontrivial, 'waits': len(clock.waits), 'iters': state['iters']}


# ------------------------------------------------------------------------------------------------
def corpus():
    cs = []
    N, R, U = 'new', 'reset', 'unreg'
    cs.append({'name': 'mixed', 'end': 6.0, 'actions': [[0, N, 1, 0.1, False], [0, N, 2, 0.25, False], [0, N, 3, 1.0, True], [0.5, 'fire'], [2.2, U, 3]]})
    cs.append({'name': 'zero-and-equal', 'end': 3.0, 'actions': [[0, N, 1, 0, False], [0, N, 2, 0.1, False], [0, N, 3, 0.1, True], [0, N, 4, 0.1, False],
                                                                [0.5, N, 5, 0, True], [0.5, U, 5], [1.0, U, 3]]})
    cs.append({'name': 'datetime', 'end': 8.0, 'actions': [[0.3, N, 1, ['dt', 2.6, 700000], False], [0.3, N, 2, ['dt', 5.0, 1], True], [0, N, 3, 2.5, False]]})
    for tz in ('EST5', 'CET-1', 'IST-5:30'):
        cs.append({'name': 'datetime-' + tz, 'tz': tz, 'end': 8.0, 'actions': [[0.3, N, 1, ['dt', 2.6, 700000], False], [0.3, N, 2, ['dt', 5.0, 1], True],
                                                                              [0, N, 3, 2.5, False], [1.0, N, 4, ['dt', 0.2, 999999], False]]})
    cs.append({'name': 'reset', 'end': 8.0, 'actions': [[0, N, 1, 1.0, False], [0.5, R, 1], [0, N, 2, 1.0, True], [2.5, R, 2], [0, N, 3, 2.5, False], [3.0, R, 3],
                                                        [0, N, 4, 0.25, True], [0.6, R, 4], [4.0, U, 4]]})
    cs.append({'name': 'reset-new-interval', 'end': 9.0, 'actions': [[0, N, 1, 5.0, False], [1.0, R, 1, 0], [0, N, 2, 8.0, True], [2.0, R, 2, 0.25], [3.2, R, 2, 1.0],
                                                                      [0, N, 3, 0.25, False], [0.1, R, 3, 2.5], [0, N, 4, 2.5, False], [0.5, R, 4, 0.0], [4.0, N, 5, 1.0, False],
                                                                      [4.5, R, 5, 0.1], [6.0, U, 2]]})
    cs.append({'name': 'unregister', 'end': 6.0, 'actions': [[0, N, 1, 1.0, False], [0.5, U, 1], [0, N, 2, 0.25, True], [1.1, U, 2], [0, N, 3, 2.5, True],
                                                             [1.0, N, 4, 0.1, False], [2.0, N, 5, 1, True], [3.0, U, 5]]})
    # Timer objects that left the tree (a one-shot that fired; a completed unregister of a one-shot and of a persistent one) are armed and
    # registered again: they fire again, once / periodically, and can be taken out again
    J = 'rejoin'
    cs.append({'name': 'rejoin', 'end': 12.0, 'actions': [[0, N, 1, 1.0, False], [2.0, J, 1], [4.0, J, 1], [0, N, 2, 0.5, True], [1.7, U, 2], [2.5, J, 2], [4.3, U, 2],
                                                         [0, N, 3, 5.0, False], [1.0, U, 3], [2.0, J, 3], [8.0, J, 3], [9.0, R, 3], [0, N, 4, 0.25, True], [6.0, U, 4],
                                                         [6.5, J, 4], [7.4, U, 4], [8.0, J, 4], [10.0, U, 4]]})
    cs.append({'name': 'sleepers', 'end': 5.0, 'actions': [[0, 'sleeper', 0.35], [0, N, 1, 1.0, True], [0.2, N, 2, 0.1, False], [1.5, 'sleeper', 1.2],
                                                           [1.6, 'fire'], [2.0, N, 3, 0.25, False], [3.5, U, 1]]})
    cs.append({'name': 'late-loop', 'end': 16.0, 'actions': [[0, N, 1, 1.0, True], [0, N, 2, 0.25, True], [2.5, 'busy', 1.6], [5.0, 'busy', 3.25],
                                                            [0, N, 3, 2.5, False], [9.0, 'busy', 0.3], [9.0, N, 4, 0.1, False], [12.0, U, 2]]})
    # a running clock (every reading costs virtual time) and ordinary events that wake the loop a hair before an expiry, at offsets
    # scanned in steps of half a reading: some iteration reads the clock on both sides of the expiry
    for dlt in (1e-4, 5e-4):
        for m in range(11):
            acts = []
            for k in range(1, 9):
                acts.append([0, N, k, 0.5 * k, k % 2 == 0 and k < 5])
                acts.append([round(0.5 * k - (8 * m + k) * dlt / 2, 7), 'fire'])
            cs.append({'name': 'running-clock-%g-%d' % (dlt, m), 'read_cost': dlt, 'end': 6.0, 'actions': acts})
    cs.append({'name': 'idle-gap', 'end': 9.0, 'actions': [[0, N, 1, 0.1, False], [4.0, N, 2, 0.25, False], [6.0, 'fire'], [7.0, N, 3, 1, False]]})
    # the same scenarios with a poller in the tree: the poller, not the fall-back generator, sleeps while the loop is idle
    import copy
    for c in [c for c in cs if c.get('name') in ('mixed', 'reset', 'unregister', 'sleepers', 'datetime', 'late-loop')]:
        for mech in ('Select', 'Poll', 'EPoll'):
            d = copy.deepcopy(c)
            d['name'] += '-' + mech
            d['poller'] = mech
            cs.append(d)
    return cs


def gen_case(rng):
    end = rng.choice([3.0, 6.0, 10.0])
    acts = []
    ntim = rng.randint(1, 6)
    for tid in range(1, ntim + 1):
        at = rng.choice([0, 0, 0, round(rng.uniform(0, end * 0.6), 2)])
        if rng.random() < 0.12:
            interval = ['dt', round(rng.uniform(0.5, 4.0), 2), rng.randrange(1000000)]
        else:
            interval = rng.choice([0, 0.1, 0.1, 0.25, 1, 2.5])
        persist = rng.random() < 0.45 and not isinstance(interval, list)  # a datetime deadline is a one-shot notion
        if persist and interval == 0 and rng.random() < 0.7:
            interval = 0.1
        acts.append([at, 'new', tid, interval, persist])
        r = rng.random()
        if r < 0.3:
            acts.append([round(at + rng.uniform(0, end - at), 2), 'reset', tid])
            if rng.random() < 0.4 and not isinstance(interval, list):
                # reset to another interval; 0 (due at once) only for one-shot timers
                acts[-1].append(rng.choice([0, 0, 0.1, 1, 2.5]) if not persist else rng.choice([0.1, 0.25, 1, 2.5]))
        if persist and interval == 0:
            # fires in every iteration without the virtual time advancing: only meaningful if it leaves at once
            acts.append([at, 'unreg', tid])
        elif rng.random() < 0.35:
            acts.append([round(at + rng.uniform(0, min(end - at, 3.0)), 2), 'unreg', tid])
        if not isinstance(interval, list) and not (persist and interval == 0) and rng.random() < 0.25:
            # later on the same object is armed and registered again (a no-op unless it has left the tree by then)
            for _j in range(rng.randint(1, 2)):
                acts.append([round(rng.uniform(at, end), 2), 'rejoin', tid])
    for _ in range(rng.randint(0, 3)):
        acts.append([round(rng.uniform(0, end), 2), rng.choice(['fire', 'fire', 'sleeper'])] + ([round(rng.uniform(0.05, 1.5), 2)] if False else []))
    for _ in range(rng.randint(0, 2)):
        acts.append([round(rng.uniform(0, end), 2), 'busy', rng.choice([0.05, 0.3, 1.6, 3.25])])
    for a in acts:
        if a[1] == 'sleeper' and len(a) == 2:
            a.append(round(rng.uniform(0.05, 1.5), 2))
    case = {'end': end, 'actions': acts}
    if rng.random() < 0.3:
        # a running clock, and events that wake the loop within a few readings of an expiry
        dlt = rng.choice([1e-4, 5e-4, 2e-3])
        case['read_cost'] = dlt
        for a in list(acts):
            if a[1] == 'new' and not isinstance(a[3], list) and a[3] and rng.random() < 0.7:
                for n in range(1, rng.randint(1, 4) + 1):
                    acts.append([round(a[0] + n * a[3] - rng.randint(0, 60) * dlt / 2, 7), 'fire'])
    if any(isinstance(a[3], list) for a in acts if a[1] == 'new') and rng.random() < 0.6:
        case['tz'] = rng.choice(['EST5', 'CET-1', 'IST-5:30', 'NZST-12'])
    r2 = random.Random(repr(acts))     # (a stream of its own: the cases generated before this option keep their shape)
    if r2.random() < 0.3:
        case['poller'] = r2.choice(['Select', 'Poll', 'EPoll'])
    return case


def plan(tier, seed):
    # Timers created and registered by ANOTHER thread while the loop is idle, under the controlled scheduler of C03: the registering thread
    # is pre-empted after each of its first yield points, the loop runs until it blocks again, then the registration completes
    mechs = ['fallback', 'Select'] if tier == 'quick' else ['fallback', 'Select', 'Poll', 'EPoll']
    sched = [{'kind': 'sched', 'mech': m, 'lo': lo, 'hi': lo + 300} for m in mechs for lo in (1, 301, 601)]
    if tier == 'quick':
        return [{'kind': 'corpus'}] + [{'kind': 'random', 'seed': seed * 1000 + i, 'n': 40} for i in range(15)] + sched
    return [{'kind': 'corpus'}] + [{'kind': 'random', 'seed': seed * 100000 + i, 'n': 1000} for i in range(32)] + sched


def run_sched_batch(spec):
    from checks import c03
    from vlib import sched
    import os
    sched.install_and_import()
    import circuits
    sched.start_monitoring(os.path.join(os.path.dirname(circuits.__file__), 'core') + os.sep)
    b = Batch(PROPERTY)
    scn = {'mech': spec['mech'], 'firers': 1, 'events': 1, 'via': 'timer', 'interval': 0.001}
    INF = c03.INF
    if '_replay' in spec:
        todo = [[tuple(x) for x in spec['_replay']['plan']]]
        scn = spec['_replay']['sched']
    else:
        todo = [[('L', INF), ('F0', k), ('L', INF), ('F0', INF), ('L', INF)] for k in list(range(spec['lo'], spec['hi'])) + ([INF] if spec['lo'] == 1 else [])]
    for pl in todo:
        res = c03.run_schedule(scn, plan=pl)
        case = {'sched': scn, 'plan': [list(x) for x in pl]}
        preempted = any(sw[0] == 'F0' and sw[1] == 'L' and not str(sw[2]).startswith('finish:') for sw in res['switches'])
        if res['violation'] or res['deadlock']:
            b.case(case, nontrivial=True, distinct_key=[list(x[:3]) for x in res['switches']])
            b.fail(case, 'NO_OVERSLEEP', {'note': 'a Timer registered from another thread is pending, its register() has returned, and the loop sleeps without limit',
                                          'scheduler_report': res['violation'] or res['deadlock'], 'switches': [list(x) for x in res['switches'][-6:]]}, dedup='sched')
            continue
        if not res['finished']:
            b.inconclusive_because('scheduled cross-thread registration did not finish')
            continue
        b.case(case, nontrivial=preempted, distinct_key=[list(x[:3]) for x in res['switches']])
        b.reached('timer_registered_from_another_thread_while_loop_idle')
        if preempted:
            b.reached('registering_thread_preempted_inside_register')
        if res['dispatched'] == [(0, 0)]:
            b.ok('NO_OVERSLEEP')
            b.ok('ONE_SHOT_ONCE')
        else:
            b.fail(case, 'ONE_SHOT_ONCE', {'note': 'the timer registered from another thread did not fire exactly once', 'dispatched': res['dispatched']}, dedup='sched-once')
    return b.result()


def evaluate_case(b, case, clock):
    try:
        with cpu_budget(60):
            problems, info = run_case(case, clock)
    except BudgetExceeded as e:
        clock.active = False
        b.fail(case, 'NO_PROGRESS', {'error': str(e)}, dedup='')
        return
    except Exception as e:
        clock.active = False
        import traceback
        b.fail(case, 'HARNESS_RAISED', {'error': repr(e), 'tb': traceback.format_exc(limit=8)}, dedup=type(e).__name__)
        return
    if problems is None:
        b.inconclusive_because(info['inconclusive'])
        return
    b.case(case, nontrivial=info.get('nontrivial', False))
    for m in info.get('marks', ()):
        b.reached(m)
    b.reached('idle_waits_logged', info.get('waits', 0))
    b.reached('loop_iterations', info.get('iters', 0))
    first = {}
    for clause, detail in problems:
        first.setdefault(clause, detail)
    for clause, n in info.get('counts', {}).items():
        good = n - sum(1 for c, _ in problems if c == clause)
        if good > 0:
            b.ok(clause, good)
    for clause, detail in first.items():
        b.fail(case, clause, detail, dedup='')


def _setup():
    from vlib import vclock
    clock = vclock.install()
    import circuits  # noqa: F401
    return clock


def run_batch(spec):
    if spec['kind'] == 'sched':
        return run_sched_batch(spec)
    clock = _setup()
    b = Batch(PROPERTY)
    if spec['kind'] == 'corpus':
        for case in corpus():
            evaluate_case(b, case, clock)
    else:
        rng = random.Random(spec['seed'])
        for _ in range(spec['n']):
            evaluate_case(b, gen_case(rng), clock)
    b.reached('double_event_instances', clock.event_instances)
    b.reached('virtual_time_calls', clock.time_calls)
    return b.result()


def run_replay(case):
    if 'sched' in case:
        return run_sched_batch({'kind': 'sched', 'mech': case['sched']['mech'], '_replay': case})
    clock = _setup()
    b = Batch(PROPERTY)
    evaluate_case(b, unjson(case), clock)
    return b.result()

"""C16 - static files: only contents from inside the document root, exact byte ranges.

The real ``circuits.web.dispatchers.Static`` (with ``serve_file`` / ``get_ranges`` behind it) is
driven through two front ends - raw request lines through ``circuits.web.http.HTTP`` and ``request``
events with hand-built Request/Response objects handed straight to ``Static`` - against scratch
document roots whose parent directories hold marker files.  Oracles: an independent path
normaliser and an independent RFC 7233 evaluator (vlib/ref_ranges.py), the declared layout of the
scratch tree, an audit hook recording every open/listdir/scandir while a request is in flight.
See DESIGN.md section 4, C16.
"""
import html
import os
import random
import re
import shutil
import sys
import sysconfig
import tempfile
import traceback

from vlib import ref_ranges as ref
from vlib.batch import Batch, unjson

PROPERTY = 'C16'
LEVEL = 'exploration'
RULE = ('fixed corpus (every hostile spelling of "..", sibling/parent targets, mount-prefix variants, every class of the '
        'Range grammar x file sizes 0/1/10/256/5000, both front ends) + seeded random paths of 1-6 segments over an alphabet '
        'of hostile segments and real names, x 2 docroot layouts x 4 mount points x dirlisting on/off x {HTTP, direct}, + '
        'seeded random Range headers (1-4 specs: in-bounds, open, suffix, reversed, beyond EOF, overlapping, non-numeric, '
        'empty element, no "="); a third of the HTTP cases are the 2nd-4th request on a persistent connection that already served full '
        'files, partial content, listings or refusals; thorough adds every path of <= 5 segments over a 13-symbol alphabet for both front ends. '
        'A path case is non-trivial when it contains a hostile segment, a name that only exists outside the root, or is '
        'glued to / not below the mount point; a range case is non-trivial when some spec is not a plain in-bounds a-b. '
        'distinct = hash of the declarative case')
ASSUMPTIONS = [
    'a 3xx/4xx answer is always an acceptable refusal of a path; only 2xx answers are compared with the file system',
    'for ".." at the top of the path both the RFC 3986 reading (dropped) and the file-system reading (leaves the root, '
    'counts only if it re-enters through the root\'s own name) are accepted; either way the denoted object is inside the root',
    'multi-range sets may be answered 206 multipart (exact parts), one coalesced 206, 416 or 200-full (RFC 7233 3.1/4.4 leave '
    'rejecting/ignoring sets of several ranges to server policy); a single satisfiable range must be answered 206',
    'headers that are only valid through the #rule tolerance for empty list elements may also be treated as malformed',
    'percent-decoding is applied exactly once; no symlinks in the document root; GET over HTTP/1.1 only',
    'in direct mode an HTTPException raised by the handler counts as its status code, any other exception as a 5xx',
]
REQUIRED = ['request_left_to_the_application_next_to_static', 'static_answered_with_another_request_handler_behind_it', 'request_by_an_http10_client', 'range_header_of_an_http10_request_answered_with_the_whole_file', 'reference_selfcheck', 'audit_hook_live', 'audit_open_inside_root', 'audit_listdir_inside_root',
            'http_requests', 'direct_requests', 'served_file', 'served_default_index', 'served_listing',
            'guard_redirect', 'escape_refused_direct', 'escape_refused_http', 'reenter_through_root_name',
            'encoded_dotdot', 'double_encoded_dotdot', 'backslash_segment', 'sibling_target', 'parent_secret_target',
            'mounted_under_prefix', 'glued_to_mount', 'not_below_mount', 'percent_in_file_name',
            'range_206_single', 'range_206_multipart', 'range_416', 'range_malformed_full_200',
            'range_open_ended', 'range_suffix', 'range_beyond_eof', 'range_reversed', 'range_empty_file',
            'static_without_default_documents', 'request_on_kept_alive_connection', 'request_after_full_file_on_same_connection', 'request_after_partial_content_on_same_connection']
REQUIRED_OBLIGATIONS = ['MARKER', 'AUDIT', 'NO_5XX', 'ANSWERED', 'CONTENT', 'RANGE', 'CLEN']
WORKER_TIMEOUT = {'quick': 300, 'thorough': 1500}

COMPANION_BODY = b'C16 companion application: dynamic page for this path\n'
K_CONTAIN = 'static.containment-prefix-of-parent'
K_MOUNT = 'static.mount-prefix-no-boundary'
K_CLAMP = 'ranges.unclamped-last-byte'
K_SUFFIX_LONG = 'ranges.suffix-longer-than-file'
K_SUFFIX_NONPOS = 'ranges.suffix-length-not-positive'
K_MALFORMED = 'ranges.non-numeric-500'

# ------------------------------------------------------------------------------------------------
# declared layout of the scratch trees (the model the responses are compared with)
# ------------------------------------------------------------------------------------------------
LAYOUTS = [
    {'doc': 'www', 'sib': 'www-sibling', 'par': 'parent', 'parext': 'parent-ext'},
    {'doc': 'r', 'sib': 'r2', 'par': 'p', 'parext': 'p.bak'},
]
MOUNTS = [None, '/', '/static', '/a/b']
DEFAULTS = ('index.html', 'index.xhtml')
MARK = b'C16-OUTSIDE-'

INSIDE = {
    'e0.txt': b'',
    'e1.txt': b'Z',
    'f10.txt': b'0123456789',
    'big.txt': b''.join(b'%09d\n' % i for i in range(500)),
    'sub/in.txt': b'inside: sub/in.txt\n',
    'sub/index.html': b'<html>inside: default document of sub</html>\n',
    'sub2/deep.txt': b'inside: sub2/deep.txt\n',
    'sub2/other.bin': bytes(range(256)),
    'a b.txt': b'inside: file with a space in its name\n',
    'a+b.txt': b'inside: file with a PLUS in its name (in a path "+" is an ordinary character, not an encoded blank)\n',
    'sub/c+d.txt': b'inside: sub/c-plus-d\n',
    'sub/c d.txt': b'inside: sub/c-blank-d\n',
    'only+plus.txt': b'inside: only the plus spelling of this name exists\n',
    'p%41.txt': b'inside: literal percent-four-one\n',
    'pA.txt': b'inside: plain pA\n',
    '.hidden': b'inside: dot file\n',
    # directories and files inside the root that are named like the mount points (a request below the mount point may name them again),
    # next to same-named entries one level up with other content
    'x.txt': b'inside: top-level x.txt\n',
    'static/x.txt': b'inside: static/x.txt, in a directory named like a mount point\n',
    'static/index.html': b'<html>inside: default document of the directory named static</html>\n',
    'sub/staticfile.txt': b'inside: sub/staticfile.txt, a name that starts like a mount point\n',
    'subfile.txt': b'inside: top-level subfile.txt\n',
    'a/b/x.txt': b'inside: a/b/x.txt, in directories named like a two-level mount point\n',
    'a/x.txt': b'inside: a/x.txt\n',
}
DIRS = {'': set()}
for _k in INSIDE:
    _parts = _k.split('/')
    for _i in range(len(_parts)):
        DIRS.setdefault('/'.join(_parts[:_i]), set()).add(_parts[_i])
        if _i < len(_parts) - 1:
            DIRS.setdefault('/'.join(_parts[:_i + 1]), set())
RANGE_FILES = ['e0.txt', 'e1.txt', 'f10.txt', 'big.txt', 'sub2/other.bin', 'a+b.txt']


def outside_files(lay):
    def m(name):
        return MARK + name.encode() + b'-7f3a9c51e2\n'
    return {
        'secret2.txt': m('top-secret2'),
        'index.html': m('top-index'),
        lay['par'] + '/secret.txt': m('parent-secret'),
        lay['par'] + '/index.html': m('parent-index'),
        lay['par'] + '/' + lay['sib'] + '/x': m('sibling-x'),
        lay['par'] + '/' + lay['sib'] + '/index.html': m('sibling-index'),
        lay['parext'] + '/y': m('parent-ext-y'),
        lay['parext'] + '/index.html': m('parent-ext-index'),
    }


# ------------------------------------------------------------------------------------------------
# audit hook (installed once per worker; cannot be removed, so it is gated by a flag)
# ------------------------------------------------------------------------------------------------
_AUDIT = {'on': False, 'log': [], 'installed': False}


def _audit_hook(event, args):
    if _AUDIT['on'] and event in ('open', 'os.listdir', 'os.scandir'):
        _AUDIT['log'].append((event, args[0] if args else None))


def _install_audit():
    if not _AUDIT['installed']:
        sys.addaudithook(_audit_hook)
        _AUDIT['installed'] = True


def _interpreter_dirs():
    dirs = {sys.prefix, sys.base_prefix, sys.exec_prefix, sys.base_exec_prefix,
            os.environ.get('VERIF_REPO', '/repo'), os.path.dirname(os.path.dirname(os.path.abspath(__file__)))}
    for k in ('stdlib', 'platstdlib', 'purelib', 'platlib'):
        p = sysconfig.get_paths().get(k)
        if p:
            dirs.add(p)
    return sorted({os.path.realpath(d) for d in dirs if d})


def _inside(path, root):
    return path == root or path.startswith(root + os.sep)


# ------------------------------------------------------------------------------------------------
# the harness
# ------------------------------------------------------------------------------------------------
class Obs:
    """What one request produced, in front-end independent form."""

    def __init__(self):
        self.status = None      # int | None (never answered)
        self.headers = {}       # lower-case name -> value
        self.body = b''
        self.raw = b''          # every byte that could reach a client (marker scan)
        self.clen_ok = None     # HTTP only: Content-Length header equals the body sent
        self.how = ''           # 'http' | 'response' | 'declined' | 'httperror' | 'listing' | 'exception:<type>'
        self.audit = []
        self.late_bytes = 0     # bytes written after the connection was closed (not delivered)
        self.kept = []          # HTTP only: statuses of the earlier requests answered on the same, still open connection


class World:
    def __init__(self, batch):
        from circuits.web import wrappers
        from circuits.web.dispatchers import Static
        from circuits.web.errors import httperror
        from circuits.web.events import request
        from circuits.web.exceptions import HTTPException
        from circuits.web.headers import Headers
        from circuits.web.http import HTTP
        from vlib.inject import FakeSock, Wire
        self.c = dict(wrappers=wrappers, Static=Static, httperror=httperror, request=request, HTTPException=HTTPException,
                      Headers=Headers, HTTP=HTTP, FakeSock=FakeSock, Wire=Wire)
        self.b = batch
        self.tmp = os.path.realpath(tempfile.mkdtemp(prefix='vc16-', dir='/var/tmp' if os.path.isdir('/var/tmp') else None))
        self.trees = {}
        self.envs = {}
        self.interp = _interpreter_dirs()
        _install_audit()

    def close(self):
        shutil.rmtree(self.tmp, ignore_errors=True)

    # -- scratch trees ---------------------------------------------------------------------------
    def tree(self, li, neutral=False):
        key = (li, neutral)
        if key not in self.trees:
            lay = dict(LAYOUTS[li])
            if neutral:
                # the twin of K_CONTAIN: the sibling no longer extends the name of the root
                lay['sib'] = 'zz-' + lay['sib']
            top = os.path.join(self.tmp, 'L%d%s' % (li, 'n' if neutral else ''))
            root = os.path.join(top, lay['par'], lay['doc'])
            for rel, data in INSIDE.items():
                p = os.path.join(root, rel)
                os.makedirs(os.path.dirname(p), exist_ok=True)
                with open(p, 'wb') as f:
                    f.write(data)
            for rel, data in outside_files(lay).items():
                p = os.path.join(top, rel)
                os.makedirs(os.path.dirname(p), exist_ok=True)
                with open(p, 'wb') as f:
                    f.write(data)
            self.trees[key] = {'top': top, 'root': root, 'lay': lay}
        return self.trees[key]

    def env(self, fe, li, neutral, mount, dirlisting, defaults='std', companion=False):
        key = (fe, li, neutral, mount, dirlisting, defaults, companion)
        e = self.envs.get(key)
        if e is None or e['uses'] > 400:
            c = self.c
            t = self.tree(li, neutral)
            w = c['Wire']()
            if fe == 'http':
                c['HTTP'](w).register(w)
            # defaults: the shipped pair of default documents, or none at all (a pure file browser: () or [])
            dflt = DEFAULTS if defaults == 'std' else (() if defaults == 'tuple' else [])
            st = c['Static'](mount, docroot=t['root'], defaults=dflt, dirlisting=dirlisting).register(w)
            if companion:
                # the application next to Static: a lower-priority handler that answers every path (a catch-all controller / a gateway
                # mounted at /).  It gets whatever Static did not answer - and nothing Static did answer
                from circuits import BaseComponent as _BC, handler as _h

                class Companion(_BC):
                    channel = 'web'

                    @_h('request', priority=0.05)
                    def _v_request(self, event, req, res):
                        return COMPANION_BODY
                Companion().register(w)
            if neutral:
                # twin of K_CONTAIN: the same root spelt "<root>/." - dirname() of it is the root itself, so
                # the containment test of this tree is made against the root instead of its parent
                st.docroot = st.docroot + os.sep + '.'
            w.settle()
            e = self.envs[key] = {'w': w, 'uses': 0}
        e['uses'] += 1
        return e['w']

    # -- one request -----------------------------------------------------------------------------
    def request(self, fe, li, neutral, mount, dirlisting, path, range_header, before=(), defaults='std', proto='1.1', companion=False):
        w = self.env(fe, li, neutral, mount, dirlisting, defaults, companion)
        w.take()
        del w.exceptions[:]
        o = Obs()
        _AUDIT['log'] = []
        _AUDIT['on'] = True
        try:
            if fe == 'http':
                self._http(w, o, path, range_header, before, proto)
            else:
                self._direct(w, o, path, range_header)
        finally:
            _AUDIT['on'] = False
        o.audit = _AUDIT['log']
        return o

    def _http(self, w, o, path, range_header, before=(), proto='1.1'):
        s = self.c['FakeSock']()
        try:
            # earlier requests on the same (persistent) connection: the request under test must be answered for its own path and headers
            for bpath, brange in before:
                req = b'GET ' + bpath.encode('utf-8', 'surrogateescape') + b' HTTP/1.1\r\nHost: localhost\r\n'
                if brange is not None:
                    req += b'Range: ' + brange.encode('latin-1') + b'\r\n'
                w.feed(s, [req + b'\r\n'])
                out = w.take()
                if any(x[0] == 'close' and x[1] is s for x in out):
                    s.close()
                    s = self.c['FakeSock']()       # the server ended that connection: the next request needs a new one
                    o.kept = []
                else:
                    m = re.match(rb'^HTTP/1\.[01] ([0-9]{3}) ', b''.join(x[2] for x in out if x[0] == 'write' and x[1] is s))
                    o.kept.append(int(m.group(1)) if m else 0)
            _AUDIT['log'] = []
            req = b'GET ' + path.encode('utf-8', 'surrogateescape') + b' HTTP/' + proto.encode('ascii') + b'\r\n' + (b'Host: localhost\r\n' if proto == '1.1' else b'')
            if range_header is not None:
                req += b'Range: ' + range_header.encode('latin-1') + b'\r\n'
            w.feed(s, [req + b'\r\n'])
            # what reaches the client: the writes up to the first close of this connection (on this tree HTTP answers
            # a raising request handler twice - write, close, write, close; the second copy goes to a closed socket)
            raw, closed = b'', False
            for x in w.out:
                if x[0] == 'close' and x[1] is s:
                    closed = True
                elif x[0] == 'write' and x[1] is s:
                    if closed:
                        o.late_bytes += len(x[2])
                    else:
                        raw += x[2]
        finally:
            s.close()
        o.how = 'http'
        o.raw = raw
        if not raw:
            return
        head, sep, rest = raw.partition(b'\r\n\r\n')
        lines = head.split(b'\r\n')
        m = re.match(rb'^HTTP/1\.[01] ([0-9]{3})( |$)', lines[0])
        if not m or not sep:
            o.status = -1
            return
        o.status = int(m.group(1))
        for ln in lines[1:]:
            k, _, v = ln.partition(b':')
            o.headers[k.strip().lower().decode('latin-1')] = v.strip().decode('latin-1')
        if o.headers.get('transfer-encoding', '').lower() == 'chunked':
            body, ok = b'', True
            while True:
                size_line, nl, rest = rest.partition(b'\r\n')
                try:
                    n = int(size_line.split(b';')[0], 16)
                except ValueError:
                    ok = False
                    break
                if not nl:
                    ok = False
                    break
                if n == 0:
                    ok = rest == b'\r\n'
                    break
                body += rest[:n]
                if rest[n:n + 2] != b'\r\n':
                    ok = False
                    break
                rest = rest[n + 2:]
            o.body = body
            o.clen_ok = ok
        elif 'content-length' in o.headers:
            o.body = rest
            o.clen_ok = o.headers['content-length'].isdigit() and int(o.headers['content-length']) == len(rest)
        else:
            o.body = rest

    def _direct(self, w, o, path, range_header):
        c = self.c
        h = c['Headers']([('Host', 'localhost')] + ([('Range', range_header)] if range_header is not None else []))
        req = c['wrappers'].Request(None, 'GET', 'http', '/', (1, 1), '', headers=h, server=w)
        req.path = path
        res = c['wrappers'].Response(req)
        v = w.fire(c['request'](req, res), 'web')
        w.settle()
        value = v.value

        def collect(body):
            if isinstance(body, bytes):
                return body
            if isinstance(body, str):
                return body.encode('utf-8')
            return b''.join(x if isinstance(x, bytes) else str(x).encode('utf-8') for x in body if x is not None)

        def hdrs(headers):
            return {str(k).lower(): str(val) for k, val in headers.items()}

        if v.errors:
            etype, evalue, _tb = value
            if isinstance(evalue, c['HTTPException']) and isinstance(getattr(evalue, 'code', None), int):
                o.status = evalue.code
                o.how = 'httpexception'
            else:
                o.status = 500
                o.how = 'exception:%s' % getattr(etype, '__name__', etype)
                o.raw = repr(evalue).encode('utf-8', 'replace')
            o.headers = hdrs(res.headers)
        elif value is None:
            o.status = 404
            o.how = 'declined'
        elif isinstance(value, c['httperror']):
            o.status = int(value.code)
            o.how = 'httperror'
            o.headers = hdrs(value.response.headers)
            o.body = str(value).encode('utf-8')
        elif isinstance(value, c['wrappers'].Response):
            o.status = int(value.status)
            o.how = 'response'
            o.headers = hdrs(value.headers)
            try:
                o.body = collect(value.body)
            except Exception as e:     # the body generator raised: what a front end turns into a 500
                o.status = 500
                o.how = 'exception-in-body:%s' % type(e).__name__
        elif isinstance(value, (str, bytes)):
            o.status = int(res.status)
            o.how = 'listing'
            o.headers = hdrs(res.headers)
            o.body = collect(value)
        else:
            o.status = -1
            o.how = 'value:%s' % type(value).__name__
            o.body = repr(value).encode('utf-8', 'replace')
        o.raw = o.raw + b'\n'.join(k.encode() + b': ' + val.encode('utf-8', 'replace') for k, val in o.headers.items()) + b'\n\n' + o.body


# ------------------------------------------------------------------------------------------------
# oracles
# ------------------------------------------------------------------------------------------------
def common_problems(world, o, tree, counters):
    """Clauses evaluated on every response: MARKER, AUDIT, ANSWERED, NO_5XX, CLEN.  -> (problems, evaluated)"""
    probs = []
    evaluated = ['MARKER', 'AUDIT', 'ANSWERED']
    if MARK in o.raw or MARK in o.body:
        i = (o.raw + o.body).find(MARK)
        probs.append(('MARKER', {'what': 'a marker planted outside the root appears in the response',
                                 'marker': (o.raw + o.body)[i:i + 50], 'status': o.status}))
    root = tree['root']
    bad = []
    for event, p in o.audit:
        if isinstance(p, bytes):
            p = os.fsdecode(p)
        if isinstance(p, int):
            counters['audit_fd_events'] = counters.get('audit_fd_events', 0) + 1
            continue
        rp = os.path.realpath(p if p is not None else '.')
        if _inside(rp, root):
            counters['audit_open_inside_root' if event == 'open' else 'audit_listdir_inside_root'] = \
                counters.get('audit_open_inside_root' if event == 'open' else 'audit_listdir_inside_root', 0) + 1
        elif any(_inside(rp, d) for d in world.interp):
            counters['audit_interpreter_files_ignored'] = counters.get('audit_interpreter_files_ignored', 0) + 1
        else:
            bad.append((event, rp.replace(world.tmp, '<tmp>')))
    if bad:
        probs.append(('AUDIT', {'what': 'file-system object outside the root opened/listed while the request was in flight',
                                'events': bad[:4], 'status': o.status}))
    if o.status is None:
        probs.append(('ANSWERED', {'what': 'the request was never answered (tree quiescent, nothing written)'}))
        return probs, evaluated
    evaluated.append('NO_5XX')
    if o.status >= 500 or o.status < 0:
        probs.append(('NO_5XX', {'what': 'internal error instead of an answer', 'status': o.status, 'how': o.how,
                                 'content-range': o.headers.get('content-range')}))
    if o.clen_ok is not None:
        evaluated.append('CLEN')
        if not o.clen_ok:
            probs.append(('CLEN', {'what': 'Content-Length / chunk framing does not match the bytes sent',
                                   'content-length': o.headers.get('content-length'), 'body_len': len(o.body)}))
    return probs, evaluated


def listing_matches(body, rel):
    names = re.findall(rb'<li><a href="[^"]*">([^<]*)</a></li>', body)
    got = {html.unescape(n.decode('utf-8', 'replace')).rstrip('/') for n in names} - {'..'}
    entries = DIRS[rel]
    visible = {e for e in entries if not e.startswith('.')}
    return bool(names) and got <= entries and got >= visible


def content_verdict(path, mount, dirlisting, tree, body, fe='direct', defaults='std'):
    """Which inside object (if any) explains a 200 body for ``path``: ('file'|'default'|'listing', rel) or None."""
    for cand in sorted(ref.denotations(path, mount, tree['root'], network_path=(fe == 'http'))):
        rel = '/'.join(cand)
        if rel in INSIDE and body == INSIDE[rel]:
            return ('file', rel)
        if rel in DIRS:
            for d in (DEFAULTS if defaults == 'std' else ()):
                k = (rel + '/' + d) if rel else d
                if k in INSIDE and body == INSIDE[k]:
                    return ('default', k)
            if dirlisting and listing_matches(body, rel):
                return ('listing', rel)
    return None


def effective(case, neutral):
    """Path / layout actually used (the twin of K_CONTAIN renames the sibling, in the tree and in the path)."""
    path = case['path']
    if neutral:
        sib = LAYOUTS[case['layout']]['sib']
        path = path.replace(sib, 'zz-' + sib)
    return path


def evaluate(world, case, neutral=False):
    """Run one case on the real code and evaluate every clause.  -> (problems, info)"""
    tree = world.tree(case['layout'], neutral)
    path = effective(case, neutral)
    if '{ABSTOP' in path:
        # the absolute location of the scratch tree, only known at run time (hostile paths that name outside files absolutely)
        from urllib.parse import quote as _q
        path = path.replace('{ABSTOPENC}', _q(tree['top'].lstrip('/'), safe='')).replace('{ABSTOP}', tree['top'].lstrip('/'))
    mount = case['mount']
    counters = {}
    info = {'counters': counters, 'evaluated': [], 'status': None}
    header = None
    if case['family'] == 'range':
        header = case['prefix'] + case['sep'].join(case['specs']) if case['specs'] is not None else None
    before = [(('' if mount is None else mount.rstrip('/')) + '/' + rel, rng_h) for rel, rng_h in case.get('before', ())] if case['fe'] == 'http' else []
    o = world.request(case['fe'], case['layout'], neutral, mount, case.get('dirlisting', False), path, header, before, case.get('defaults', 'std'), case.get('proto', '1.1'),
                      companion=bool(case.get('companion')) and case['fe'] == 'http')
    if case.get('defaults', 'std') != 'std':
        counters['static_without_default_documents'] = 1
    info['status'] = o.status
    if case.get('proto') == '1.0':
        counters['request_by_an_http10_client'] = 1
    if o.kept:
        counters['request_on_kept_alive_connection'] = 1
        if 200 in o.kept:
            counters['request_after_full_file_on_same_connection'] = 1
        if 206 in o.kept:
            counters['request_after_partial_content_on_same_connection'] = 1
    if o.late_bytes:
        counters['bytes_written_after_close_ignored'] = 1
    counters[case['fe'] + '_requests'] = 1
    probs, evaluated = common_problems(world, o, tree, counters)
    info['evaluated'] = evaluated
    if o.status is None or o.status < 0:
        return probs, info
    esc = ref.escapes_root(path, mount, tree['root'])
    if case['family'] == 'path':
        if esc and 300 <= o.status < 500:
            counters['escape_refused_' + case['fe']] = 1
        if case['fe'] == 'http' and o.status in (301, 302, 307, 308):
            counters['guard_redirect'] = 1
        if o.status == 200 and case.get('companion') and case['fe'] == 'http' and o.body == COMPANION_BODY:
            # Static left the request to the application next to it (the counterpart of a 404 without one): nothing of the tree was served
            counters['request_left_to_the_application_next_to_static'] = 1
        elif 200 <= o.status < 300:
            evaluated.append('CONTENT')
            if case.get('companion') and case['fe'] == 'http':
                counters['static_answered_with_another_request_handler_behind_it'] = 1
            v = content_verdict(path, mount, case.get('dirlisting', False), tree, o.body, case['fe'], case.get('defaults', 'std')) if o.status == 200 else None
            if v is None:
                probs.append(('CONTENT', {
                    'what': 'a %s answer whose body is not the inside object the normalised path denotes' % o.status,
                    'path': path, 'mount': mount, 'denotes_inside': sorted('/'.join(c) for c in ref.denotations(path, mount, tree['root'])),
                    'escapes_root': esc, 'body': o.body[:60], 'how': o.how}))
            else:
                counters['served_' + {'file': 'file', 'default': 'default_index', 'listing': 'listing'}[v[0]]] = 1
                if not esc and ref.climbs_out(path, mount, tree['root']):
                    counters['reenter_through_root_name'] = 1
                if '%' in v[1]:
                    counters['percent_in_file_name'] = 1
    else:
        evaluated.append('RANGE')
        content = INSIDE[case['file']]
        rp = ref.judge_range_response(header, content, o.status, o.headers, o.body)
        if case.get('proto') == '1.0' and o.status == 200:
            # byte ranges are an HTTP/1.1 mechanism: a server may answer an HTTP/1.0 request with the whole file (this one does)
            counters['range_header_of_an_http10_request_answered_with_the_whole_file'] = 1
            rp = [] if o.body == content else ['200 for an HTTP/1.0 request whose body is not the whole file']
        if o.status >= 500:
            rp = []          # already reported under NO_5XX
        if rp:
            probs.append(('RANGE', {'what': rp[0], 'more': rp[1:3], 'range': header, 'size': len(content), 'status': o.status,
                                    'content-range': o.headers.get('content-range'), 'body_len': len(o.body)}))
        else:
            ev = ref.evaluate(header, len(content))
            if o.status == 206:
                counters['range_206_multipart' if o.headers.get('content-type', '').startswith('multipart/') else 'range_206_single'] = 1
            elif o.status == 416:
                counters['range_416'] = 1
            elif o.status == 200 and ev['kind'] == 'ignore':
                counters['range_malformed_full_200'] = 1
    return probs, info


# ------------------------------------------------------------------------------------------------
# known findings: structural triggers and their neutralised twins (DESIGN.md 3.3)
# ------------------------------------------------------------------------------------------------
_R_RANGE = re.compile(r'^([0-9]+)-([0-9]*)$')
_R_SUFFIX = re.compile(r'^-([0-9]+)$')


def range_classes(case):
    """Structural classes of the specs of a range case (used for counters, nontriviality and triggers)."""
    size = len(INSIDE[case['file']])
    cls = set()
    if case['specs'] is None:
        return cls
    if '=' not in case['prefix']:
        cls.add('no_equals')
    for s in case['specs']:
        t = s.strip(' \t')
        m = _R_RANGE.match(t)
        if m:
            a = int(m.group(1))
            if m.group(2) == '':
                cls.add('open_ended')
                if a >= size:
                    cls.add('first_beyond_eof')
            else:
                b = int(m.group(2))
                if b < a:
                    cls.add('reversed')
                elif a >= size:
                    cls.add('first_beyond_eof')
                elif b >= size:
                    cls.add('beyond_eof')
                else:
                    cls.add('plain')
            continue
        m = _R_SUFFIX.match(t)
        if m:
            n = int(m.group(1))
            cls.add('suffix_zero' if n == 0 else ('suffix_long' if n > size else 'suffix'))
            continue
        if t == '':
            cls.add('empty_element')
        elif re.match(r'^--[0-9]+$', t):
            cls.add('suffix_negative')
        else:
            cls.add('non_numeric')
    if len(case['specs']) > 1:
        cls.add('multi')
    if size == 0:
        cls.add('empty_file')
    return cls


def _is_malformed(t):
    return not (_R_RANGE.match(t) or _R_SUFFIX.match(t) or re.match(r'^--[0-9]+$', t) or t == '-')


def _respell(case, fn):
    return dict(case, specs=[fn(s.strip(' \t')) for s in (case['specs'] or [])])


def _n_mount(case, neutral):
    # glued to the mount point: neutralised by putting the segment boundary back
    m = case['mount']
    return dict(case, path=m.rstrip('/') + '/' + case['path'][len(m):]), neutral


def _n_contain(case, neutral):
    # the path leaves the root: neutralised by making the tree compare against the root itself (World.env / World.tree)
    return case, True


def _n_malformed(case, neutral):
    # RFC-equivalent respelling: every unparsable element becomes the (equally invalid) reversed spec 1-0
    if '=' not in case['prefix'] or not case['specs']:
        return dict(case, prefix='bytes=', specs=['1-0']), neutral
    return _respell(case, lambda t: '1-0' if _is_malformed(t) else t), neutral


def _n_clamp(case, neutral):
    size = len(INSIDE[case['file']])

    def f(t):
        m = _R_RANGE.match(t)
        if m and m.group(2) != '' and int(m.group(1)) < size <= int(m.group(2)):
            return '%s-%d' % (m.group(1), size - 1)     # the same bytes, last-byte-pos spelt inside the file
        return t
    return _respell(case, f), neutral


def _n_suffix_long(case, neutral):
    size = len(INSIDE[case['file']])

    def f(t):
        m = _R_SUFFIX.match(t)
        if m and int(m.group(1)) > size:
            return '-%d' % size if size else '0-'       # the same selection: the whole file (nothing, if it is empty)
        return t
    return _respell(case, f), neutral


def _n_suffix_nonpos(case, neutral):
    size = len(INSIDE[case['file']])

    def f(t):
        m = _R_SUFFIX.match(t)
        if m and int(m.group(1)) == 0:
            return '%d-' % size        # equally unsatisfiable, spelt as a first-byte-pos at EOF
        if re.match(r'^--[0-9]+$', t):
            return '1-0'               # equally invalid
        return t
    return _respell(case, f), neutral


def triggers(case, tree):
    """[(key, neutraliser)] for every known-finding trigger structurally present in ``case``; a neutraliser maps
    (case, neutral flag) to the twin in which only that trigger is respelt / reconfigured away."""
    out = []
    mount = case['mount']
    path = case['path']
    if mount not in (None, '/') and path.startswith(mount) and path != mount and not path.startswith(mount.rstrip('/') + '/'):
        out.append((K_MOUNT, _n_mount))
    if case['family'] == 'range':
        specs = [s.strip(' \t') for s in (case['specs'] or [])]
        if '=' not in case['prefix'] or any(_is_malformed(t) for t in specs):
            out.append((K_MALFORMED, _n_malformed))
        for key, fn in ((K_CLAMP, _n_clamp), (K_SUFFIX_LONG, _n_suffix_long), (K_SUFFIX_NONPOS, _n_suffix_nonpos)):
            if fn(case, False)[0]['specs'] != specs:
                out.append((key, fn))
    if case['fe'] == 'direct' and ref.escapes_root(path, mount, tree['root']):
        # reach of the finding: locations that have the root's parent directory as a string prefix; an escape
        # that ends anywhere else is not explained by it
        if ref.resolved_location(path, mount, tree['root']).startswith(tree['root'].rsplit('/', 1)[0]):
            out.append((K_CONTAIN, _n_contain))
    return out


def attribute(world, case):
    """DESIGN.md 3.3: the smallest set of structurally present known-finding triggers whose neutralisation makes the
    case satisfy every obligation (each member is then necessary: no smaller set suffices).  None if there is none -
    the failure is not explained by known findings.  One trigger at a time first; sets of several only for compound
    cases in which each remaining trigger keeps the case failing on its own."""
    import itertools
    trig = triggers(case, world.tree(case['layout'], False))
    for size in range(1, len(trig) + 1):
        for combo in itertools.combinations(range(len(trig)), size):
            c2, n2 = case, False
            for i in combo:
                c2, n2 = trig[i][1](c2, n2)
            probs, _ = evaluate(world, c2, n2)
            if not probs:
                return [trig[i][0] for i in combo]
    return None


# ------------------------------------------------------------------------------------------------
# case construction
# ------------------------------------------------------------------------------------------------
HOSTILE = ['..', '.', '', '%2e%2e', '%252e%252e', '..%2f', '\\', '..\\', '%2e', '..%5c', '%2e%2e%2f', '.%2e', '%2E%2E',
           '..%2f..', '%c0%ae%c0%ae', '..;', '%2e%2e%5c']
INSIDE_NAMES = ['static', 'static', 'x.txt', 'x.txt', 'staticfile.txt', 'subfile.txt', 'a', 'b', 'a+b.txt', 'a%2Bb.txt', 'c+d.txt', 'c%20d.txt', 'only+plus.txt', 'only%20plus.txt', 'sub', 'sub2', 'f10.txt', 'big.txt', 'in.txt', 'deep.txt', 'index.html', 'e0.txt', 'a%20b.txt', 'p%2541.txt',
                'pA.txt', '.hidden', 'nonexistent']
OUTSIDE_NAMES = ['{doc}', '{sib}', '{par}', '{parext}', 'secret.txt', 'secret2.txt', 'x', 'y']
EXH = ['..', '.', '', '%2e%2e', '%252e%252e', '..%2f', '\\', '..\\', 'sub', 'f10.txt', '{sib}', 'secret.txt', '{doc}']


def subst(seg, li):
    lay = LAYOUTS[li]
    for k, v in lay.items():
        seg = seg.replace('{' + k + '}', v)
    return seg


def path_case(fe, li, mount, dirlisting, segs, glue=False, below=True):
    segs = [subst(s, li) for s in segs]
    tail = '/'.join(segs)
    if mount is None or not below:
        path = '/' + tail
    elif glue:
        path = mount + tail
    else:
        path = mount.rstrip('/') + '/' + tail
    return {'family': 'path', 'fe': fe, 'layout': li, 'mount': mount, 'dirlisting': dirlisting, 'path': path}


def range_case(fe, li, mount, fname, specs, prefix='bytes=', sep=','):
    path = ('' if mount is None else mount.rstrip('/')) + '/' + fname
    return {'family': 'range', 'fe': fe, 'layout': li, 'mount': mount, 'file': fname, 'path': path,
            'prefix': prefix, 'sep': sep, 'specs': specs}


def path_features(case):
    """Structural features of a path case (coverage counters + the non-triviality rule)."""
    lay = LAYOUTS[case['layout']]
    p = case['path']
    low = p.lower()
    f = set()
    if '..' in p or '/./' in p or p.endswith('/.') or '//' in p:
        f.add('dot_segments')
    if '%2e' in low and '%252e' not in low:
        f.add('encoded_dotdot')
    if '%252e' in low:
        f.add('double_encoded_dotdot')
    if '%25' in low and '%252e' not in low:
        f.add('double_encoded_other')
    if '%2f' in low or '%5c' in low:
        f.add('encoded_separator')
    if '\\' in p:
        f.add('backslash_segment')
    if lay['sib'] in p:
        f.add('sibling_target')
    if 'secret.txt' in p or 'secret2.txt' in p:
        f.add('parent_secret_target')
    if lay['parext'] in p:
        f.add('parent_ext_target')
    m = case['mount']
    if m not in (None, '/'):
        f.add('mounted_under_prefix')
        if p.startswith(m) and p != m and not p.startswith(m.rstrip('/') + '/'):
            f.add('glued_to_mount')
        elif not p.startswith(m):
            f.add('not_below_mount')
    return f


def corpus():
    cases = []
    plain = ['a+b.txt', 'a%2Bb.txt', 'a%20b.txt', 'sub/c+d.txt', 'sub/c%20d.txt', 'sub/c%2bd.txt', 'only+plus.txt', 'only%20plus.txt', 'f10.txt', 'sub/in.txt', 'sub/', 'sub', 'sub2/', 'sub2', '', 'a%20b.txt', 'p%2541.txt', 'pA.txt', 'e0.txt', 'big.txt',
             'nonexistent', 'sub2/other.bin', '.hidden', 'sub/index.html']
    hostile = ['../secret.txt', '%2e%2e/secret.txt', '%252e%252e/secret.txt', '..%2fsecret.txt', '..%2f..%2fsecret2.txt',
               'sub/../../secret.txt', '../{sib}/x', '../{sib}/', '../{sib}', '../../{parext}/y', '../../secret2.txt', '..', '../',
               '../index.html', '../{doc}/f10.txt', '../{doc}/sub/', 'sub/../f10.txt', './f10.txt', '/f10.txt', '\\..\\secret.txt',
               '..\\secret.txt', '..%5csecret.txt', 'sub/%2e%2e/f10.txt', '%2e/f10.txt', 'sub/..%2f..%2fsecret.txt',
               '%2e%2e/{sib}/x', '%2E%2E/secret.txt', '.%2e/secret.txt', '../../../../../../etc/passwd', '%c0%ae%c0%ae/secret.txt',
               '..;/secret.txt', 'sub2/../../{sib}/index.html', '{sib}/x', 'secret.txt', '%252e%252e/{sib}/x',
               'p%252541.txt', 'sub/./in.txt', 'sub//in.txt',
               # an encoded slash in front of an ABSOLUTE path: after unquoting, os.path.join() would discard the document root
               '%2F{ABSTOP}/{par}/secret.txt', '%2f{ABSTOP}/{par}/{sib}/x', '%2F{ABSTOPENC}%2F{par}%2Fsecret.txt', '%2F{ABSTOP}/{par}/{sib}/',
               '%2F{ABSTOP}/secret2.txt', '%2F{ABSTOP}/{par}/{doc}/f10.txt', 'sub/%2F{ABSTOP}/{par}/secret.txt', '%2F%2F{ABSTOP}/{par}/secret.txt',
               '%252F{ABSTOP}/{par}/secret.txt']
    for fe in ('http', 'direct'):
        for li in (0, 1):
            for dl in (False, True):
                for mount in (None, '/static'):
                    for t in plain + hostile:
                        cases.append(path_case(fe, li, mount, dl, t.split('/')))
                        if fe == 'http' and li == 0:
                            # the same request with an application next to Static that answers whatever Static leaves alone
                            cases.append(dict(path_case(fe, li, mount, dl, t.split('/')), companion=True))
            for mount in ('/static', '/a/b'):
                for t in ['../secret.txt', 'f10.txt', '../{sib}/x', '..', '%2e%2e/secret.txt', '../{doc}/f10.txt', '..%2fsecret.txt']:
                    cases.append(path_case(fe, li, mount, True, t.split('/'), glue=True))
                for t in ['f10.txt', '../secret.txt', 'sub/']:
                    cases.append(path_case(fe, li, mount, True, t.split('/'), below=False))
                cases.append(dict(path_case(fe, li, mount, True, ['']), path=mount))
            for t in ['f10.txt', '../secret.txt', 'sub/']:
                cases.append(path_case(fe, li, '/', True, t.split('/')))
            # below the mount point the path names the mount point's own name(s) again: entries of the document root called like it
            for dl in (False, True):
                for mount in (None, '/', '/static', '/a/b'):
                    for t in ['static/x.txt', 'x.txt', 'static/', 'static', 'static/static/x.txt', 'sub/staticfile.txt', 'subfile.txt', 'a/b/x.txt', 'a/x.txt', 'a/b/', 'a/b',
                              'a/b/a/b/x.txt', 'static/nonexistent', 'a/b/nonexistent', 'a/static/x.txt']:
                        cases.append(path_case(fe, li, mount, dl, t.split('/')))
        for mount in ('/static', '/a/b'):
            for fname, specs in (('static/x.txt', ['0-5']), ('a/b/x.txt', ['-6']), ('sub/staticfile.txt', ['2-4', '8-9'])):
                cases.append(range_case(fe, 0, mount, fname, specs))
    # the same questions asked by an HTTP/1.0 client (files, default documents, listings, hostile paths, byte ranges)
    for li in (0, 1):
        for mount in (None, '/static'):
            for t in ['f10.txt', 'big.txt', 'sub/in.txt', 'sub/', 'sub2/', '', 'nonexistent', '../secret.txt', '%2e%2e/secret.txt', '../{sib}/x', 'e0.txt', 'static/x.txt']:
                cases.append(dict(path_case('http', li, mount, True, t.split('/')), proto='1.0'))
        for fname, specs in (('f10.txt', ['2-5']), ('big.txt', ['-7']), ('big.txt', ['0-1', '9-12']), ('f10.txt', ['50-']), ('e1.txt', ['0-0']), ('sub2/other.bin', ['x-y'])):
            cases.append(dict(range_case('http', li, '/static' if li else None, fname, specs), proto='1.0'))
    # no default documents configured (defaults=() / []): directories are listed (or refused), never taken from anywhere else
    for fe in ('http', 'direct'):
        for li in (0, 1):
            for mount in (None, '/static'):
                for dk in ('tuple', 'list'):
                    for dl in (True, False):
                        for t in ['', 'sub/', 'sub', 'sub2/', 'sub/%2e%2e/', 'sub/../', '../', '%2e%2e/', 'sub/in.txt', 'f10.txt', 'sub/index.html', '../{sib}/', 'sub/../sub2/']:
                            cases.append(dict(path_case(fe, li, mount, dl, t.split('/')), defaults=dk))
    # persistent connections: the request under test is the 2nd-4th on its connection, after full-file, partial, listing, refused answers
    preludes = [[['f10.txt', None]], [['big.txt', None], ['sub/in.txt', None]], [['f10.txt', 'bytes=2-4']], [['sub/', None]],
                [['nonexistent', None], ['f10.txt', None]], [['big.txt', 'bytes=0-1,5-6']], [['e0.txt', None], ['pA.txt', None], ['sub2/other.bin', None]]]
    for pre in preludes:
        for li, mount in ((0, None), (1, '/static')):
            for t in ['sub/in.txt', 'big.txt', 'f10.txt', 'sub/', 'nonexistent', '../secret.txt', '%2e%2e/secret.txt', '../{sib}/x', 'sub2/other.bin']:
                cases.append(dict(path_case('http', li, mount, True, t.split('/')), before=pre))
            for fname, specs in (('f10.txt', ['2-5']), ('big.txt', ['-7']), ('big.txt', ['0-1', '9-12']), ('f10.txt', ['50-']), ('sub2/other.bin', ['x-y'])):
                cases.append(dict(range_case('http', li, mount, fname, specs), before=pre))
    # Range grammar: every class x every size, both front ends
    for fe in ('http', 'direct'):
        for fname in RANGE_FILES:
            n = len(INSIDE[fname])
            heads = [None, ['0-0'], ['0-'], ['-1'], ['-%d' % n], ['-%d' % (n + 1)], ['-%d' % (n + 40)], ['0-%d' % max(n - 1, 0)],
                     ['0-%d' % n], ['%d-%d' % (max(n - 1, 0), n + 10)], ['%d-' % n], ['%d-%d' % (n, n + 5)], ['%d-' % (n + 7)],
                     ['5-2'], ['x-y'], ['1-x'], ['-x'], ['x-'], [''], ['-'], ['5'], ['1-2-3'], ['--5'], ['-0'], ['-00'],
                     ['0-1', '', '2-3'], ['0-1', '3-4'], ['0-0', '-1'], ['0-3', '2-5'], ['0-1', '0-1'], ['0-2', '1-3', '2-4', '3-5'],
                     ['0-0', '4-9'], ['0-12', '1-11'], ['0-1', 'x-y'], ['-%d' % (n + 3), 'x-y'], ['0-%d' % (n + 1), '-%d' % (n + 2)],
                     ['1-2', '-0'], ['0-1', '%d-' % n], ['%d-' % n, '%d-%d' % (n + 1, n + 2)], ['2-3', '0-1'],
                     ['99999999999999999999999-'], ['0-99999999999999999999999']]
            for specs in heads:
                cases.append(range_case(fe, 0, None, fname, specs))
            # an explicit range and a suffix range that begin at the same byte (every end of the explicit one), in both orders, with a third spec
            for N in sorted({1, 2, 3, 5, max(n - 1, 1), n}):
                if N > n or n > 300:
                    continue
                a = n - N
                for b_ in range(a, n):
                    cases.append(range_case(fe, 0, None, fname, ['%d-%d' % (a, b_), '-%d' % N]))
                    cases.append(range_case(fe, 0, None, fname, ['-%d' % N, '%d-%d' % (a, b_)]))
                    cases.append(range_case(fe, 0, None, fname, ['0-0', '%d-%d' % (a, b_), '-%d' % N]))
            # optional whitespace around list elements (RFC 9110 5.6.1 / 14.1.2: "bytes= 0-999, 4500-5499, -1000"), next to open and suffix specs
            for sp in (', ', ' ,', ' , ', ',\t'):
                cases.append(range_case(fe, 0, None, fname, ['0-1', '-2'], sep=sp))
                cases.append(range_case(fe, 0, None, fname, ['0-0', '%d-' % max(n - 2, 0), '0-1'], sep=sp))
                cases.append(range_case(fe, 0, None, fname, ['-1', '0-0'], sep=sp))
                # sets that are unsatisfiable as a whole, written with optional whitespace: 416, not the whole file
                cases.append(range_case(fe, 0, None, fname, ['-0', '-0'], sep=sp))
                cases.append(range_case(fe, 0, None, fname, ['%d-' % n, '-0'], sep=sp))
                cases.append(range_case(fe, 0, None, fname, ['%d-%d' % (n, n + 5), '%d-' % (n + 7), '-0'], sep=sp))
            cases.append(range_case(fe, 0, None, fname, ['0-1', '3-4'], sep=', '))
            cases.append(range_case(fe, 0, None, fname, ['0-1', '3-4'], sep=' ,'))
            cases.append(range_case(fe, 0, None, fname, ['0-5'], prefix='bytes '))
            cases.append(range_case(fe, 0, None, fname, [], prefix='bytes'))
            cases.append(range_case(fe, 0, None, fname, ['0-5'], prefix=''))
            cases.append(range_case(fe, 1, '/static', fname, ['1-3']))
            cases.append(range_case(fe, 1, '/static', fname, ['0-%d' % (n + 3)]))
    return cases


def gen_path(rng):
    fe = rng.choice(['http', 'direct'])
    li = rng.randrange(len(LAYOUTS))
    mount = rng.choice(MOUNTS)
    dl = rng.random() < 0.5
    n = rng.randint(1, 6)
    segs = []
    for _ in range(n):
        r = rng.random()
        segs.append(rng.choice(HOSTILE) if r < 0.5 else rng.choice(INSIDE_NAMES) if r < 0.8 else rng.choice(OUTSIDE_NAMES))
    glue = below = False
    if mount not in (None, '/'):
        r = rng.random()
        glue = r < 0.12
        below = not (0.12 <= r < 0.18)
    else:
        below = True
    case = path_case(fe, li, mount, dl, segs, glue=glue, below=below)
    if rng.random() < 0.15:
        case['defaults'] = rng.choice(['tuple', 'list'])
    if fe == 'http' and rng.random() < 0.35:
        case['before'] = gen_before(rng)
    if fe == 'http' and rng.random() < 0.15:
        case['proto'] = '1.0'
    if fe == 'http' and rng.random() < 0.3:
        case['companion'] = True
    return case


def gen_before(rng):
    out = []
    for _ in range(rng.choice([1, 1, 2, 3])):
        rel = rng.choice(['f10.txt', 'big.txt', 'sub/in.txt', 'sub2/other.bin', 'e1.txt', 'sub/', 'nonexistent', 'pA.txt'])
        out.append([rel, rng.choice([None, None, None, 'bytes=1-3', 'bytes=-2', 'bytes=0-0,2-2'])])
    return out


def gen_range(rng):
    fe = rng.choice(['http', 'direct'])
    fname = rng.choice(RANGE_FILES)
    n = len(INSIDE[fname])

    def pos(beyond=False):
        if beyond:
            return n + rng.choice([0, 1, 2, 10, 5000, 10 ** 12])
        return rng.randrange(n) if n else 0

    def spec():
        k = rng.random()
        if k < 0.30:
            a = pos()
            b = rng.randint(a, max(a, n - 1))
            return '%d-%d' % (a, b)
        if k < 0.40:
            return '%d-' % pos(rng.random() < 0.3)
        if k < 0.52:
            return '-%d' % rng.choice([1, 2, max(n - 1, 1), n, n + 1, n + 50, 0])
        if k < 0.64:
            return '%d-%d' % (pos(), pos(True))
        if k < 0.70:
            a = pos(True)
            return '%d-%d' % (a, a + rng.randint(0, 9))
        if k < 0.78:
            a, b = sorted([pos(), pos()])
            return '%d-%d' % (b + 1, a)
        if k < 0.90:
            return rng.choice(['x-y', '1-x', 'x-2', '-x', 'x-', '', '-', '5', '1-2-3', '--5', 'a', '0x1-0x2', '1.5-2', '-0'])
        a = pos()
        return '%d-%d' % (a, min(a + rng.randint(0, 3), max(n - 1, a)))
    specs = [spec() for _ in range(rng.choice([1, 1, 1, 2, 2, 3, 4]))]
    if n and rng.random() < 0.12:
        # an explicit and a suffix range beginning at the same byte
        N = rng.randint(1, min(n, 12))
        a = n - N
        pair = ['%d-%d' % (a, rng.randint(a, n - 1)), '-%d' % N]
        rng.shuffle(pair)
        k = rng.randint(0, len(specs))
        specs[k:k] = pair
    prefix, sep = 'bytes=', ','
    r = rng.random()
    if r < 0.04:
        prefix = rng.choice(['bytes', 'bytes ', '', 'bytes:'])
    elif r < 0.30:
        sep = rng.choice([', ', ' ,', ' , ', ',\t'])
    li = rng.randrange(len(LAYOUTS))
    mount = rng.choice([None, None, '/static'])
    case = range_case(fe, li, mount, fname, specs, prefix=prefix, sep=sep)
    if fe == 'http' and rng.random() < 0.35:
        case['before'] = gen_before(rng)
    if fe == 'http' and rng.random() < 0.12:
        case['proto'] = '1.0'
    return case


def exhaustive(fe, prefix):
    """Every path prefix + suffix, |suffix| <= 3, over EXH (layout 0, mounted at '/', listing on)."""
    def rec(acc, depth):
        yield acc
        if depth:
            for s in EXH:
                yield from rec(acc + [s], depth - 1)
    for segs in rec(list(prefix), 3):
        yield path_case(fe, 0, None, True, segs)


def plan(tier, seed):
    if tier == 'quick':
        return ([{'kind': 'corpus'}]
                + [{'kind': 'paths', 'seed': seed * 1000 + i, 'n': 550} for i in range(8)]
                + [{'kind': 'ranges', 'seed': seed * 1000 + 500 + i, 'n': 220} for i in range(4)])
    specs = [{'kind': 'corpus'}, {'kind': 'exh-short'}]
    for fe in ('http', 'direct'):
        for a in range(len(EXH)):
            specs.append({'kind': 'exh', 'fe': fe, 'a': a})
    specs += [{'kind': 'paths', 'seed': seed * 100000 + i, 'n': 12000} for i in range(24)]
    specs += [{'kind': 'ranges', 'seed': seed * 100000 + 50000 + i, 'n': 4000} for i in range(16)]
    return specs


EXHAUSTIVE = {}   # the exhaustive sub-space of the thorough tier is one slice of the quantifier, not all of it


# ------------------------------------------------------------------------------------------------
# driving
# ------------------------------------------------------------------------------------------------
def run_one(world, b, case):
    try:
        probs, info = evaluate(world, case)
    except RuntimeError as e:      # Wire.settle: the tree does not settle -> inconclusive, not a violation
        b.inconclusive_because('case did not settle: %r %s' % (case.get('path'), e))
        return
    except Exception as e:
        b.fail(case, 'HARNESS_RAISED', {'error': repr(e), 'tb': traceback.format_exc(limit=8)}, dedup=type(e).__name__)
        return
    if case['family'] == 'path':
        feats = path_features(case)
        for f in feats:
            b.reached(f)
        nontrivial = bool(feats)
    else:
        cls = range_classes(case)
        for name, c in (('range_open_ended', 'open_ended'), ('range_suffix', 'suffix'), ('range_suffix', 'suffix_long'),
                        ('range_beyond_eof', 'beyond_eof'), ('range_first_beyond_eof', 'first_beyond_eof'),
                        ('range_reversed', 'reversed'), ('range_non_numeric', 'non_numeric'), ('range_empty_element', 'empty_element'),
                        ('range_no_equals', 'no_equals'), ('range_multi', 'multi'), ('range_empty_file', 'empty_file'),
                        ('range_suffix_zero', 'suffix_zero')):
            if c in cls:
                b.reached(name)
        nontrivial = bool(cls - {'plain'})
    b.case(case, nontrivial=nontrivial)
    for k, n in info['counters'].items():
        b.reached(k, n)
    failed = {c for c, _ in probs}
    for clause in info['evaluated']:
        if clause not in failed:
            b.ok(clause)
    if not probs:
        return
    keys = None
    twin_error = None
    try:
        keys = attribute(world, case)
    except Exception:
        twin_error = traceback.format_exc(limit=4)
    for clause, detail in probs:
        detail = dict(detail)
        if keys:
            detail['neutralised_in_passing_twin'] = keys
            known = [(keys[0], lambda: True)]
        else:
            known = []
            if twin_error:
                detail['twin_error'] = twin_error
        b.fail(case, clause, detail, known=known, dedup=dedup_of(case, clause, detail))


def dedup_of(case, clause, detail):
    if case['family'] == 'range':
        return case['fe'] + ':' + '+'.join(sorted(range_classes(case) - {'multi', 'plain'}))
    return case['fe'] + ':' + '+'.join(sorted(path_features(case)))


def selfchecks(world, b):
    b.reached('reference_selfcheck', ref.selfcheck())
    # the audit hook really sees what this interpreter opens / lists
    t = world.tree(0)
    _AUDIT['log'] = []
    _AUDIT['on'] = True
    try:
        with open(os.path.join(t['root'], 'f10.txt'), 'rb') as f:
            f.read()
        os.listdir(t['root'])
        with os.scandir(t['root']) as it:
            list(it)
    finally:
        _AUDIT['on'] = False
    kinds = {e for e, _ in _AUDIT['log']}
    if {'open', 'os.listdir', 'os.scandir'} <= kinds:
        b.reached('audit_hook_live')
    else:
        b.inconclusive_because('audit hook does not report open/listdir/scandir: %r' % sorted(kinds))
    # the scratch tree is what the model says it is
    for rel, data in INSIDE.items():
        with open(os.path.join(t['root'], rel), 'rb') as f:
            assert f.read() == data


def run_batch(spec):
    import circuits  # noqa: F401  (the real package under test)
    b = Batch(PROPERTY)
    world = World(b)
    try:
        selfchecks(world, b)
        kind = spec['kind']
        if kind == 'corpus':
            for case in corpus():
                run_one(world, b, case)
        elif kind == 'paths':
            rng = random.Random(spec['seed'])
            for _ in range(spec['n']):
                run_one(world, b, gen_path(rng))
        elif kind == 'ranges':
            rng = random.Random(spec['seed'])
            for _ in range(spec['n']):
                run_one(world, b, gen_range(rng))
        elif kind == 'exh-short':
            for fe in ('http', 'direct'):
                run_one(world, b, path_case(fe, 0, None, True, ['']))
        elif kind == 'exh':
            for b2 in range(len(EXH)):
                for case in exhaustive(spec['fe'], [EXH[spec['a']], EXH[b2]]):
                    run_one(world, b, case)
            for case in [path_case(spec['fe'], 0, None, True, [EXH[spec['a']]])]:
                run_one(world, b, case)
    finally:
        world.close()
    return b.result()


def run_replay(case):
    import circuits  # noqa: F401
    b = Batch(PROPERTY)
    world = World(b)
    try:
        run_one(world, b, unjson(case))
    finally:
        world.close()
    return b.result()


ENGINE = 'event-injection'
TECHNIQUE = ('runtime monitoring: responses of the real Static/serve_file/get_ranges (behind HTTP and driven directly) compared with '
             'the declared scratch layout through an independent path normaliser and an independent RFC 7233 evaluator; marker '
             'files outside the root; sys.addaudithook on open/listdir/scandir')
LEVEL_TEXT = ('Every generated request is executed by the real dispatcher against a scratch tree with marker files in the parent, in a '
              'sibling whose name extends the root\'s and two levels up. Held means: on the paths and Range headers run, no marker '
              'and no audited open/listdir outside the root was seen, every 2xx body was the inside object the once-decoded, '
              'dot-resolved path denotes, every Range answer was what the RFC 7233 reference prescribes (exact slice + Content-Range, '
              '416, or the full file), no 5xx, Content-Length equal to the body. Sampling plus one exhaustive slice (all paths of '
              '<= 5 segments over 13 symbols), not a proof over all paths.')
LEVEL_NOTE = ('Trusted: the reference evaluator/normaliser in vlib/ref_ranges.py (self-checked against the RFC examples on every run), '
              'the declared layout, and the mapping of direct-mode handler results to statuses (None = not found, HTTPException = its '
              'code). Not asserted: which refusal (404/301/400) a hostile path gets, multi-range policy, If-Range, HEAD, symlinks.')

"""C07 - the component tree stays a consistent forest under register/unregister.

Oracle: structural invariants asserted on the real object graph after every harness step, plus a
per-component log of probe events and registered/unregistered announcements (catch-all observers on
every pool component) compared with the ghost history (DESIGN.md section 4, C07).
"""
import random

from vlib.batch import Batch, BudgetExceeded, cpu_budget, unjson

PROPERTY = 'C07'
LEVEL = 'exploration'
RULE = ('fixed corpus (nested unregister, re-register elsewhere, several unregisters before any tick, events queued before registration, '
        'move of a whole subtree) + seeded random histories (10-60 steps) over a pool of 4-7 components of register(c,p) with c fully '
        'detached and p outside c\'s subtree, unregister(c), fire(probe) on any component, k ticks of any current root; non-trivial = '
        '>= 2 completed unregistrations and >= 1 re-registration of a previously detached component; distinct = hash of the history')
ASSUMPTIONS = [
    'announcements are counted over the observers of all pool components (an announcement is delivered in whatever tree its queue belonged to)',
    'completion of an unregistration is not demanded when an ancestor is leaving at the same time (the statement speaks of completed ones only)',
    'operations are performed between ticks from the checking thread, never from inside handlers',
]
REQUIRED = ['dynamic_listener_added_while_registered', 'fire_addressed_to_a_component_instance', 'fire_addressed_to_an_instance_that_left_this_tree', 'register', 'unregister_completed', 'nested_unregister', 'reregister_elsewhere', 'several_unregisters_before_tick',
            'pre_registration_event_delivered', 'subtree_moved_with_children', 'probe_after_detach_on_former_root', 'unregister_pending_noop', 'self_register']
REQUIRED_OBLIGATIONS = ['LINKS', 'ROOT', 'SUBTREE_INTACT', 'ANNOUNCE_REGISTERED', 'ANNOUNCE_UNREGISTERED', 'PROBE_ONCE', 'PROBE_SCOPE']
WORKER_TIMEOUT = {'quick': 300, 'thorough': 1500}
ENGINE = 'stepping-driver'
TECHNIQUE = 'runtime monitoring: structural invariants on the live object graph after every step + announcement/probe delivery log vs. ghost history'
LEVEL_TEXT = ('Random register/unregister/fire/tick histories over a pool of real components; after every step parent/child links, root '
              'pointers, acyclicity and subtree integrity are asserted on the live objects, and at quiescence every completed (un)registration '
              'must have been announced by exactly one event dispatched once, every probe event delivered exactly once to exactly the '
              'components of the dispatching tree. Held = no invariant failed on the histories run.')
LEVEL_NOTE = 'Trusted: the ghost history kept by the harness and the catch-all observers; histories are sampled, not enumerated.'


class Pool:
    def __init__(self, n):
        from circuits import BaseComponent, handler
        from circuits.core.events import Event
        self.Event = Event
        pool = self

        class Node(BaseComponent):
            @handler(channel='*', priority=50)
            def _observe(self, event, *args, **kwargs):
                pool.observe(self, event, args)

        def make_listener(node):
            # a catch-all listener a component adds to itself while it is running somewhere (from a `registered` handler, say)
            @handler(channel='*', priority=49)
            def _listen(self, event, *args, **kwargs):
                pool.listen(node, event)
            return _listen
        self.make_listener = make_listener
        self.listeners = {}   # vid -> the handler added dynamically
        self.comps = [Node() for _ in range(n)]
        for i, c in enumerate(self.comps):
            c._vid = i
        self.seen = {}        # id(event) -> {'name', 'args', 'uid', 'observers': [vid...], 'scope': set(vid)}
        self.keep = []        # keep event objects alive so ids stay unique
        self.ghost_parent = {i: None for i in range(n)}
        self.registers = []   # (c, p)
        self.completed_unreg = []  # (c, former parent)
        self.marks = set()
        self.nprobe = 0
        self.probes = {}      # uid -> dict
        self.was_detached = set()
        self.ticking = None   # vid of the root whose tick() is running

    def vid(self, c):
        return getattr(c, '_vid', None)

    def observe(self, comp, event, args):
        name = event.name
        if name not in ('probe', 'registered', 'unregistered'):
            return
        key = id(event)
        rec = self.seen.get(key)
        if rec is None:
            self.keep.append(event)
            # the root whose tick() is dispatching right now (every dispatch happens inside a tick() the harness calls); what the observer
            # itself believes its root to be is not the reference
            root = self.comps[self.ticking] if self.ticking is not None else comp.root
            rec = self.seen[key] = {'name': name, 'args': [self.vid(a) for a in args[:2]], 'uid': getattr(event, '_vuid', None),
                                    'observers': [], 'scope': sorted(self.real_subtree(root)), 'root': self.vid(root)}
            rec['listeners_expected'] = sorted(v for v in rec['scope'] if v in self.listeners)
        rec['observers'].append(comp._vid)

    def listen(self, comp, event):
        if event.name != 'probe':
            return
        rec = self.seen.get(id(event))
        if rec is None:
            # (the class-level observer has the higher priority: it has created the record already - unless the component is not in the
            # dispatching tree at all and only this stray listener is reached)
            root = self.comps[self.ticking] if self.ticking is not None else comp.root
            self.keep.append(event)
            rec = self.seen[id(event)] = {'name': 'probe', 'args': [], 'uid': getattr(event, '_vuid', None), 'observers': [],
                                          'scope': sorted(self.real_subtree(root)), 'root': self.vid(root)}
        rec.setdefault('listeners', []).append(comp._vid)
        rec.setdefault('listeners_expected', sorted(v for v in rec['scope'] if v in self.listeners))

    def real_subtree(self, c, seen=None):
        seen = seen if seen is not None else set()
        if c._vid in seen:
            return seen
        seen.add(c._vid)
        for ch in list(c.components):
            if self.vid(ch) is not None:
                self.real_subtree(ch, seen)
        return seen

    # -- invariants -------------------------------------------------------------------------------
    def check_structure(self):
        problems = []
        n = len(self.comps)
        for c in self.comps:
            if c.parent is not c:
                if c not in c.parent.components:
                    problems.append(('LINKS', {'component': c._vid, 'parent': self.vid(c.parent), 'note': 'not listed among its parent\'s components'}))
            for ch in list(c.components):
                if self.vid(ch) is None:
                    continue
                if ch.parent is not c:
                    problems.append(('LINKS', {'component': c._vid, 'child': ch._vid, 'child_parent': self.vid(ch.parent),
                                               'note': 'child\'s parent link points elsewhere'}))
            # root = top of the chain of parents; no cycles
            top, steps = c, 0
            while top.parent is not top and steps <= n:
                top = top.parent
                steps += 1
            if steps > n:
                problems.append(('LINKS', {'component': c._vid, 'note': 'cycle in parent links'}))
            elif c.root is not top:
                problems.append(('ROOT', {'component': c._vid, 'root': self.vid(c.root), 'top_of_parent_chain': self.vid(top)}))
            if c.parent is c and c.unregister_pending:
                problems.append(('LINKS', {'component': c._vid, 'note': 'detached (its own parent) but still reports an unregistration pending'}))
        return problems

    def ghost_subtree(self, i):
        out = {i}
        for k, p in self.ghost_parent.items():
            if p == i:
                out |= self.ghost_subtree(k)
        return out

    def sync_ghost(self):
        """Detect completed unregistrations on the real graph and update the ghost."""
        done = []
        for i, c in enumerate(self.comps):
            if self.ghost_parent[i] is not None and c.parent is c:
                done.append(i)
        for i in done:
            self.completed_unreg.append((i, self.ghost_parent[i]))
            self.ghost_parent[i] = None
            self.marks.add('unregister_completed')
            self.was_detached.add(i)
        return done


def run_case(case):
    pool = Pool(case['n'])
    comps = pool.comps
    problems = []
    counts = dict.fromkeys(REQUIRED_OBLIGATIONS, 0)
    pending = set()

    def after_step(step_no, op):
        pool.sync_ghost()
        for clause, d in pool.check_structure():
            d.update({'after_step': step_no, 'op': op})
            problems.append((clause, d))
        counts['LINKS'] += 1
        counts['ROOT'] += 1
        # subtree integrity: real subtrees equal ghost subtrees
        counts['SUBTREE_INTACT'] += 1
        for i, c in enumerate(comps):
            real = pool.real_subtree(c)
            ghost = pool.ghost_subtree(i)
            if real != ghost:
                problems.append(('SUBTREE_INTACT', {'component': i, 'real_subtree': sorted(real), 'expected_subtree': sorted(ghost),
                                                    'after_step': step_no, 'op': op}))
                break

    unticked_unregs = 0
    for step_no, op in enumerate(case['ops']):
        if problems:
            break
        k = op[0]
        if k == 'reg':
            c, p = op[1], op[2]
            cc, pp = comps[c], comps[p]
            if cc.parent is not cc or cc.unregister_pending or p in pool.real_subtree(cc) or pool.ghost_parent[c] is not None:
                continue  # precondition of the statement not met: skip
            if len(cc):
                pool.marks.add('pre_registration_event_queued')
            if cc.components:
                pool.marks.add('subtree_moved_with_children')
            if c in pool.was_detached:
                pool.marks.add('reregister_elsewhere')
            cc.register(pp)
            pool.ghost_parent[c] = p
            pool.registers.append((c, p))
            pool.marks.add('register')
        elif k == 'selfreg':
            cc = comps[op[1]]
            if cc.parent is not cc or cc.unregister_pending:
                continue
            cc.register(cc)  # registering a component with itself is not a registration: no announcement
            pool.marks.add('self_register')
        elif k == 'unreg':
            c = op[1]
            cc = comps[c]
            if cc.parent is cc:
                continue
            if cc.unregister_pending:
                pool.marks.add('unregister_pending_noop')
            else:
                unticked_unregs += 1
                if unticked_unregs >= 2:
                    pool.marks.add('several_unregisters_before_tick')
                anc = cc.parent
                while True:
                    if anc.unregister_pending:
                        pool.marks.add('nested_unregister')
                    if anc.parent is anc:
                        break
                    anc = anc.parent
                if any(comps[d].unregister_pending for d in pool.real_subtree(cc) if d != c):
                    pool.marks.add('nested_unregister')
            cc.unregister()
        elif k == 'fire':
            c = op[1]
            e = pool.Event.create('probe')
            pool.nprobe += 1
            e._vuid = pool.nprobe
            cc = comps[c]
            pool.probes[pool.nprobe] = {'on': c, 'root_at_fire': pool.vid(cc.root), 'detached_self_root': cc.parent is cc and not cc.components,
                                        'fired_on_former_root_after_detach': bool(pool.completed_unreg) and cc.parent is cc}
            pool.keep.append(e)
            if len(op) > 2:
                # addressed to a component instance (whoever fires still holds a reference to it, wherever it is by now)
                tgt = comps[op[2]]
                pool.marks.add('fire_addressed_to_a_component_instance')
                if tgt.root is not cc.root:
                    pool.marks.add('fire_addressed_to_an_instance_in_another_tree')
                    if op[2] in pool.was_detached:
                        pool.marks.add('fire_addressed_to_an_instance_that_left_this_tree')
                cc.fire(e, tgt)
            else:
                cc.fire(e)
        elif k == 'listen':
            # the component adds a catch-all handler to itself (wherever it is at the moment) / removes it again
            c = op[1]
            if c in pool.listeners:
                comps[c].removeHandler(pool.listeners.pop(c))
                pool.marks.add('dynamic_listener_removed')
            else:
                pool.listeners[c] = comps[c].addHandler(pool.make_listener(comps[c]))
                pool.marks.add('dynamic_listener_added' + ('_while_registered' if comps[c].parent is not comps[c] else ''))
        elif k == 'tick':
            c, n = op[1], op[2]
            root = comps[c].root
            pool.ticking = root._vid
            for _ in range(n):
                root.tick()
            pool.ticking = None
            unticked_unregs = 0
        after_step(step_no, op)
    # quiescence: settle every current root
    if not problems:
        for _ in range(100):
            busy = False
            for c in comps:
                if c.parent is c and len(c):
                    busy = True
                    pool.ticking = c._vid
                    c.tick()
                    pool.ticking = None
                    after_step('settle', ['tick', c._vid, 1])
            if not busy:
                break
        else:
            return None, {'inconclusive': 'forest does not settle'}, pool
    if problems:
        return problems[:3], {'marks': pool.marks, 'counts': counts, 'nontrivial': False}, pool
    # announcements
    seen = list(pool.seen.values())
    for name, expected, clause in (('registered', pool.registers, 'ANNOUNCE_REGISTERED'), ('unregistered', pool.completed_unreg, 'ANNOUNCE_UNREGISTERED')):
        exp = {}
        for pair in expected:
            exp[tuple(pair)] = exp.get(tuple(pair), 0) + 1
        got = {}
        for r in seen:
            if r['name'] == name:
                got[tuple(r['args'])] = got.get(tuple(r['args']), 0) + 1
        counts[clause] += max(1, len(expected))
        if got != exp:
            problems.append((clause, {'expected_announcements': sorted([list(k), v] for k, v in exp.items()),
                                      'observed_distinct_events': sorted([list(k), v] for k, v in got.items())}))
    # every observed harness-relevant event was dispatched once, to exactly the tree of its dispatching root
    for r in seen:
        counts['PROBE_SCOPE'] += 1
        if sorted(r['observers']) != r['scope']:
            problems.append(('PROBE_SCOPE', {'event': r['name'], 'uid': r['uid'], 'args': r['args'], 'observers': sorted(r['observers']),
                                             'tree_of_dispatching_root': r['scope'],
                                             'note': 'duplicate delivery' if len(set(r['observers'])) < len(r['observers']) else 'scope mismatch'}))
    for r in seen:
        if r['name'] == 'probe' and (r.get('listeners_expected') or 'listeners' in r):
            counts['PROBE_SCOPE'] += 1
            got, want = sorted(r.get('listeners', [])), r.get('listeners_expected')
            if want is not None and got != want:
                problems.append(('PROBE_SCOPE', {'event': 'probe', 'uid': r['uid'], 'dynamic_listeners_reached': got, 'dynamic_listeners_in_the_tree_of_the_dispatching_root': want,
                                                 'tree_of_dispatching_root': r['scope'], 'note': 'a catch-all handler added at run time was reached outside / missed inside the dispatching tree'}))
    by_uid = {}
    for r in seen:
        if r['name'] == 'probe':
            by_uid.setdefault(r['uid'], []).append(r)
    for uid, info in pool.probes.items():
        counts['PROBE_ONCE'] += 1
        recs = by_uid.get(uid, [])
        if len(recs) != 1:
            problems.append(('PROBE_ONCE', {'probe': uid, 'fired_on': info['on'], 'dispatches_seen': len(recs),
                                            'note': 'lost' if not recs else 'dispatched more than once'}))
            continue
        if info['detached_self_root'] and recs[0]['root'] != info['on'] and info['on'] in recs[0]['scope']:
            pool.marks.add('pre_registration_event_delivered')
        if info['fired_on_former_root_after_detach']:
            pool.marks.add('probe_after_detach_on_former_root')
    nontrivial = len(pool.completed_unreg) >= 2 and 'reregister_elsewhere' in pool.marks
    return problems[:4], {'marks': pool.marks, 'counts': counts, 'nontrivial': nontrivial}, pool


# ------------------------------------------------------------------------------------------------
def corpus():
    R, U, F, T = 'reg', 'unreg', 'fire', 'tick'
    cs = []
    cs.append({'name': 'basic', 'n': 4, 'ops': [['selfreg', 3], [R, 1, 0], [R, 2, 1], [R, 3, 1], [T, 0, 2], [F, 0], [F, 2], [T, 0, 1], [U, 1], [F, 0], [T, 0, 4],
                                                [F, 0], [F, 1], [F, 3], [T, 0, 1], [T, 1, 1], [R, 1, 0], [T, 0, 2], [F, 3], [T, 0, 2]]})
    cs.append({'name': 'nested-unregister', 'n': 5, 'ops': [[R, 1, 0], [R, 2, 1], [R, 3, 2], [R, 4, 2], [T, 0, 2], [U, 2], [U, 1], [T, 0, 6],
                                                           [F, 0], [F, 1], [F, 2], [T, 0, 2], [T, 1, 2], [T, 2, 2]]})
    cs.append({'name': 'nested-unregister-inner-first', 'n': 5, 'ops': [[R, 1, 0], [R, 2, 1], [R, 3, 2], [T, 0, 2], [U, 3], [U, 2], [U, 1], [U, 1],
                                                                       [T, 0, 8], [F, 0], [T, 0, 2], [T, 1, 3], [T, 2, 3], [T, 3, 3]]})
    cs.append({'name': 'several-before-tick', 'n': 5, 'ops': [[R, 1, 0], [R, 2, 0], [R, 3, 0], [R, 4, 3], [T, 0, 3], [U, 1], [U, 2], [U, 3], [T, 0, 6],
                                                             [F, 0], [F, 3], [F, 4], [T, 0, 2], [T, 3, 2], [R, 1, 4], [R, 2, 1], [T, 3, 3], [F, 2], [T, 3, 2]]})
    cs.append({'name': 'pre-registration-events', 'n': 4, 'ops': [[F, 1], [F, 1], [F, 2], [R, 2, 1], [F, 2], [R, 1, 0], [T, 0, 3], [F, 3], [R, 3, 2], [T, 0, 3]]})
    cs.append({'name': 'move-subtree', 'n': 6, 'ops': [[R, 1, 0], [R, 2, 1], [R, 3, 2], [R, 4, 1], [T, 0, 3], [U, 1], [T, 0, 5], [F, 1], [R, 1, 5],
                                                       [T, 5, 3], [F, 3], [F, 5], [T, 5, 2], [U, 2], [T, 5, 5], [R, 2, 0], [T, 0, 3], [F, 3], [T, 0, 2]]})
    cs.append({'name': 'reregister-while-queue-pending', 'n': 4, 'ops': [[R, 1, 0], [T, 0, 2], [U, 1], [T, 0, 1], [T, 0, 1], [T, 0, 1], [F, 1], [R, 1, 2],
                                                                        [U, 1], [T, 2, 1], [T, 2, 4], [R, 1, 3], [T, 3, 3], [T, 0, 3]]})
    # catch-all handlers added at run time, while the component is registered somewhere; then it leaves / moves
    cs.append({'name': 'dynamic-listeners', 'n': 6, 'ops': [[R, 1, 0], [R, 2, 1], [R, 3, 0], [T, 0, 3], ['listen', 2], ['listen', 3], ['listen', 0], [F, 0], [F, 2], [T, 0, 2],
                                                            [U, 1], [T, 0, 5], [F, 0], [F, 3], [T, 0, 2], [F, 1], [T, 1, 2], [R, 1, 5], [T, 5, 3], [F, 5], [F, 0], [T, 5, 2], [T, 0, 2],
                                                            ['listen', 2], [F, 5], [T, 5, 2], ['listen', 4], [R, 4, 0], [T, 0, 2], [F, 0], [T, 0, 2], [U, 3], [T, 0, 4], [F, 0], [T, 0, 2]]})
    # events addressed to a component instance: in the same tree, after it left (before / after the tick that completes it), after it
    # joined another tree, and to the root itself
    cs.append({'name': 'instance-addressed', 'n': 6, 'ops': [[R, 1, 0], [R, 2, 1], [R, 3, 0], [T, 0, 3], [F, 0, 2], [F, 3, 1], [F, 2, 0], [T, 0, 2], [U, 1], [F, 0, 1], [F, 3, 2],
                                                             [T, 0, 5], [F, 0, 1], [F, 3, 2], [F, 1, 0], [F, 2, 3], [T, 0, 2], [T, 1, 2], [R, 1, 5], [T, 5, 3],
                                                             [F, 0, 2], [F, 3, 1], [F, 5, 0], [F, 2, 3], [T, 0, 2], [T, 5, 2], [U, 2], [T, 5, 4], [F, 5, 2], [F, 0, 2], [T, 5, 2], [T, 0, 2], [T, 2, 2]]})
    return cs


def gen_case(rng):
    n = rng.randint(4, 7)
    ops = []
    for i in range(1, n):
        if rng.random() < 0.75:
            ops.append(['reg', i, rng.randrange(i)])
    ops.append(['tick', 0, rng.randint(0, 3)])
    for _ in range(rng.randint(10, 60)):
        r = rng.random()
        if r < 0.25:
            ops.append(['reg', rng.randrange(n), rng.randrange(n)])
        elif r < 0.45:
            ops.append(['unreg', rng.randrange(n)])
        elif r < 0.68:
            ops.append(['fire', rng.randrange(n)] + ([rng.randrange(n)] if rng.random() < 0.3 else []))
        elif r < 0.7:
            ops.append(['selfreg', rng.randrange(n)])
        elif r < 0.76:
            ops.append(['listen', rng.randrange(n)])
        else:
            ops.append(['tick', rng.randrange(n), rng.randint(1, 4)])
    return {'n': n, 'ops': ops}


def plan(tier, seed):
    if tier == 'quick':
        return [{'kind': 'corpus'}] + [{'kind': 'random', 'seed': seed * 1000 + i, 'n': 150} for i in range(16)]
    return [{'kind': 'corpus'}] + [{'kind': 'random', 'seed': seed * 100000 + i, 'n': 2000} for i in range(32)]


def evaluate_case(b, case):
    try:
        with cpu_budget(30):
            problems, info, pool = run_case(case)
    except BudgetExceeded as e:
        b.fail(case, 'NO_PROGRESS', {'error': str(e)}, dedup='')
        return
    except Exception as e:
        import traceback
        b.fail(case, 'OPERATION_RAISED', {'error': repr(e), 'tb': traceback.format_exc(limit=8)}, dedup=type(e).__name__)
        return
    if problems is None:
        b.inconclusive_because(info['inconclusive'])
        return
    b.case(case, nontrivial=info.get('nontrivial', False))
    for m in info.get('marks', ()):
        b.reached(m)
    first = {}
    for clause, detail in problems:
        first.setdefault(clause, detail)
    for clause, n in info.get('counts', {}).items():
        good = n - sum(1 for c, _ in problems if c == clause)
        if good > 0:
            b.ok(clause, good)
    for clause, detail in first.items():
        b.fail(case, clause, detail, dedup=str(detail.get('note', '')))


def run_batch(spec):
    import circuits  # noqa: F401
    b = Batch(PROPERTY)
    if spec['kind'] == 'corpus':
        for case in corpus():
            evaluate_case(b, case)
    else:
        rng = random.Random(spec['seed'])
        for _ in range(spec['n']):
            evaluate_case(b, gen_case(rng))
    return b.result()


def run_replay(case):
    b = Batch(PROPERTY)
    evaluate_case(b, unjson(case))
    return b.result()

"""C01 - events reach exactly the matching handlers, once, using the live handler set.

Oracle: an independent *declaration model* (who declared which handler for which names on which
channel, and the ghost tree), compared with the multiset of handler invocations the real
dispatcher produced.  See DESIGN.md section 4, C01.
"""
import random

from vlib.batch import Batch, unjson

PROPERTY = 'C01'
LEVEL = 'exploration'
RULE = ('fixed corpus (one history per cache-invalidation site, detached-subtree history, same name on different '
        'channels) + seeded random histories over forests of 1-6 generated components (BaseComponent / Component '
        'subclasses, inherited handlers with and without override, catch-all and global handlers, dynamic handlers); '
        'non-trivial = the same (name, channel) key was dispatched by the same root before and after at least one '
        'structural change (warm cache); distinct = hash of the declarative case')
ASSUMPTIONS = [
    'unregistration is made atomic for the model by settling the tree before and after it (overlap is C07\'s subject)',
    'one target channel per fire; priorities of harness events all 0',
    'expected set of an event nobody handled is accepted if it was empty at some model version while the event was pending',
]
REQUIRED = ['component_unregistered_for_the_second_time', 'method_declared_not_a_handler_in_a_Component_subclass', 'warm_dispatch_after_add', 'warm_dispatch_after_rm', 'warm_dispatch_after_reg', 'warm_dispatch_after_unreg',
            'detached_subtree_dispatch', 'instance_channel_dispatch', 'global_handler_dispatch', 'inherited_handler_dispatch',
            'implicit_method_dispatch', 'ops_inside_handlers', 'pre_registration_event', 'fire_overlapping_unregister',
            'same_event_object_fired_on_two_channels', 'channels_preset_on_event', 'component_with_several_handler_declaring_bases']
REQUIRED_OBLIGATIONS = ['EXACT_SET']
WORKER_TIMEOUT = {'quick': 300, 'thorough': 1500}

NAMES = ['ping', 'pong', 'zap']
CHANS = ['*', 'a', 'b']


# ------------------------------------------------------------------------------------------------
# the harness: builds real components from a declarative case and runs the history
# ------------------------------------------------------------------------------------------------
class World:
    def __init__(self, case):
        from circuits import BaseComponent, Component, handler
        from circuits.core.events import Event
        self.Event = Event
        self.handler = handler
        self.case = case
        self.log = []           # (uid, cid, hid) per invocation
        self.comps = {}
        self.decl = {}          # cid -> {hid: decl}        (the model's handler table)
        self.parent = {}        # cid -> cid | None         (the model's tree)
        self.version = 0
        self.events = {}        # uid -> dict(x, name, ch, expected|None, could_be_empty, pending)
        self.uid = 0
        self.script_runs = {}
        self.skipped = 0
        self.times_left = {}
        self.done_ops = []
        self.hobj = {}          # (cid, hid) -> bound method (for removeHandler)
        self.next_dyn = 0
        self.key_hist = {}      # (root cid, name, ch) -> version at last dispatch  (warm-cache detection)
        self.marks = set()
        self.in_unreg = False
        self.changes = []       # (version, kind)
        for c in case['comps']:
            self._build(c, BaseComponent, Component)

    # -- construction -----------------------------------------------------------------------------
    def _mkfunc(self, cid_ref, hid, attr, implicit=False):
        world = self

        def h(self, event, *args, **kwargs):
            world._invoked(event, self, hid)
        h.__name__ = attr
        h.__qualname__ = attr
        return h

    def _build(self, c, BaseComponent, Component):
        cid = c['cid']
        top = Component if c['kind'] == 'comp' else BaseComponent
        decl = {}
        bases = (top,)
        if c.get('base'):
            bns = {}
            for hd in c['base']['handlers']:
                f = self._mkfunc(cid, hd['hid'], hd['attr'])
                bns[hd['attr']] = self.handler(*hd['names'], channel=hd['channel'], priority=hd.get('priority', 0))(f)
            B = type('B%d' % cid, (top,), bns)
            bases = (B,)
            # further direct bases (mixins), possibly declaring handlers under the SAME method names as the first one
            for i, mix in enumerate(c.get('mixins') or [], 1):
                mns = {}
                for hd in mix['handlers']:
                    f = self._mkfunc(cid, hd['hid'], hd['attr'])
                    mns[hd['attr']] = self.handler(*hd['names'], channel=hd['channel'], priority=hd.get('priority', 0))(f)
                bases += (type('B%d_%d' % (cid, i), (top,), mns),)
                self.marks.add('component_with_several_handler_declaring_bases')
        ns = {}
        own_attrs = {}
        for hd in c['handlers']:
            f = self._mkfunc(cid, hd['hid'], hd['attr'])
            ns[hd['attr']] = self.handler(*hd['names'], channel=hd['channel'], priority=hd.get('priority', 0),
                                          override=hd.get('override', False))(f)
            own_attrs[hd['attr']] = hd
            decl[hd['hid']] = {'names': list(hd['names']), 'channel': hd['channel'], 'kind': 'static'}
        for m in c.get('methods', []):  # implicit handlers of Component subclasses
            f = self._mkfunc(cid, 'm:' + m, m)
            ns[m] = f
            decl['m:' + m] = {'names': [m], 'channel': None, 'kind': 'implicit'}
        for m in c.get('nohandler', []):
            # a public method explicitly declared NOT to be a handler (@handler(False)): it is in no handler set, whatever the class kind
            if m in ns:
                continue
            ns[m] = self.handler(False)(self._mkfunc(cid, 'n:' + m, m))
            self.marks.add('method_declared_not_a_handler' + ('_in_a_Component_subclass' if c['kind'] == 'comp' else ''))
        if c.get('base'):
            for hd in c['base']['handlers']:
                shadow = own_attrs.get(hd['attr'])
                if shadow is not None and shadow.get('override'):
                    continue  # replaced
                if hd['attr'] in c.get('methods', []):
                    # an implicit method of the same name does not say override=True: both are handlers
                    pass
                decl[hd['hid']] = {'names': list(hd['names']), 'channel': hd['channel'], 'kind': 'inherited'}
            for mix in c.get('mixins') or []:
                for hd in mix['handlers']:
                    shadow = own_attrs.get(hd['attr'])
                    if shadow is not None and shadow.get('override'):
                        continue  # replaced
                    # a handler declared by a direct base stays a handler, whatever the other bases call theirs
                    decl[hd['hid']] = {'names': list(hd['names']), 'channel': hd['channel'], 'kind': 'inherited'}
        if c.get('channel') is not None:
            ns['channel'] = c['channel']
        K = type('K%d' % cid, bases, ns)
        obj = K()
        obj._vcid = cid
        self.comps[cid] = obj
        self.decl[cid] = decl
        self.parent[cid] = None

    # -- the model ---------------------------------------------------------------------------------
    def top(self, cid):
        while self.parent[cid] is not None:
            cid = self.parent[cid]
        return cid

    def subtree(self, cid):
        out = [cid]
        for k, p in self.parent.items():
            if p == cid:
                out.extend(self.subtree(k))
        return out

    def chan_of(self, ch):
        if isinstance(ch, list):
            return ('inst', ch[1])
        return ch

    def expected(self, x, name, ch):
        """The property's wording, coded separately from getHandlers."""
        root = self.top(x)
        out = set()
        for c in self.subtree(root):
            cchan = self.case['comps'][c].get('channel') or '*'
            for hid, d in self.decl[c].items():
                if d['names'] and name not in d['names']:
                    continue
                hch = d['channel'] if d['channel'] is not None else cchan
                hch = self.chan_of(hch)
                if ch == '*' or hch == '*' or hch == ch or ch == ('inst', c):
                    out.add((c, hid))
        return out

    def expected2(self, e):
        exp = list(self.expected(e['x'], e['name'], e['ch']))
        if 'ch2' in e:
            exp += list(self.expected(e['x'], e['name'], e['ch2']))
        return exp

    def mutate(self, kind):
        """Called *before* every model mutation: pending, unobserved events may have been dispatched
        under the current version."""
        for e in self.events.values():
            if e['pending'] and not e['could_be_empty']:
                if not self.expected(e['x'], e['name'], e['ch']):
                    e['could_be_empty'] = True
        self.version += 1
        self.changes.append((self.version, kind))

    # -- observation --------------------------------------------------------------------------------
    def _invoked(self, event, comp, hid):
        uid = getattr(event, '_vuid', None)
        if uid is None:
            return  # framework event seen by a catch-all handler
        e = self.events[uid]
        cid = comp._vcid
        if e['pending']:
            e['pending'] = False
            e['expected'] = self.expected2(e)
            root = self.top(e['x'])
            e['root'] = root
            key = (root, e['name'], repr(e['ch']))
            prev = self.key_hist.get(key)
            if prev is not None:
                kinds = {k for v, k in self.changes if v > prev}
                for k in kinds:
                    self.marks.add('warm_dispatch_after_' + k)
                if kinds:
                    e['warm'] = True
            self.key_hist[key] = self.version
        self.log.append((uid, cid, hid))
        d = self.decl.get(cid, {}).get(hid)
        if d:
            if d['kind'] == 'inherited':
                self.marks.add('inherited_handler_dispatch')
            if d['kind'] == 'implicit':
                self.marks.add('implicit_method_dispatch')
            if not d['names'] and d['channel'] == '*':
                self.marks.add('global_handler_dispatch')
        script = self.case.get('scripts', {}).get(str(hid))
        if script and not self.script_runs.get(hid) and not self.in_unreg:
            self.script_runs[hid] = 1
            self.marks.add('ops_inside_handlers')
            for op in script:
                self.do(op, inside=True)

    # -- operations ------------------------------------------------------------------------------------
    def settle_all(self):
        for _ in range(60):
            busy = False
            for cid, obj in self.comps.items():
                if self.parent[cid] is None and len(obj):
                    busy = True
                    obj.flush()
            if not busy:
                return
        raise RuntimeError('forest does not settle')

    def do(self, op, inside=False):
        kind = op[0]
        if kind == 'fire':
            x, name, ch = op[1], op[2], op[3]
            ev = self.Event.create(name)
            self.uid += 1
            ev._vuid = self.uid
            mch = self.chan_of(ch) if ch is not None else (self.case['comps'][x].get('channel') or '*')
            self.events[self.uid] = {'x': x, 'name': name, 'ch': mch, 'expected': None, 'could_be_empty': False,
                                     'pending': True, 'inside': inside}
            if self.parent[x] is None and self.subtree(x) == [x] and not inside:
                self.marks_pre = getattr(self, 'marks_pre', set())
                self.marks_pre.add(x)
            if len(op) > 4 and op[4] == 'preset' and ch is not None:
                # the target channel is carried by the event itself (Event.channels set before firing), fire() gets no channel
                self.marks.add('channels_preset_on_event')
                ev.channels = (self.comps[mch[1]],) if isinstance(mch, tuple) else (ch,)
                self.comps[x].fire(ev)
            elif isinstance(mch, tuple):
                self.marks.add('instance_channel_dispatch')
                self.comps[x].fire(ev, self.comps[mch[1]])
            elif ch is None:
                self.comps[x].fire(ev)
            else:
                self.comps[x].fire(ev, ch)
        elif kind == 'fire2':
            # ONE event object fired to two different channels before either delivery is dispatched (two queue entries):
            # each delivery reaches the handlers of its own channel; the tree is settled at once, so one model version applies
            _, x, name, ch1, ch2 = op
            ev = self.Event.create(name)
            self.uid += 1
            ev._vuid = self.uid
            m1, m2 = self.chan_of(ch1), self.chan_of(ch2)
            self.events[self.uid] = {'x': x, 'name': name, 'ch': m1, 'ch2': m2, 'expected': None, 'could_be_empty': False,
                                     'pending': True, 'inside': inside}
            self.marks.add('same_event_object_fired_on_two_channels')
            held = self.in_unreg
            self.in_unreg = True   # handler scripts are held back: one model version must apply to both deliveries
            for ch, m in ((ch1, m1), (ch2, m2)):
                if isinstance(m, tuple):
                    self.comps[x].fire(ev, self.comps[m[1]])
                else:
                    self.comps[x].fire(ev, ch)
            if not inside:
                self.settle_all()
                self.in_unreg = held
                e = self.events[self.uid]
                if e['pending']:
                    e['pending'] = False
                    e['expected'] = self.expected2(e)
        elif kind == 'settle':
            self.settle_all()
        elif kind == 'flush':
            self.comps[op[1]].flush()
        elif kind == 'add':
            _, x, d = op
            hid = d['hid']
            if hid in self.decl[x]:
                self.skipped += 1
                return
            f = self._mkfunc(x, hid, 'dyn_%s' % hid)
            ch = d['channel']
            real_ch = self.comps[ch[1]] if isinstance(ch, list) else ch
            self.mutate('add')
            m = self.comps[x].addHandler(self.handler(*d['names'], channel=real_ch, priority=d.get('priority', 0))(f))
            self.hobj[(x, hid)] = m
            self.decl[x][hid] = {'names': list(d['names']), 'channel': self.chan_of(ch) if isinstance(ch, list) else ch,
                                 'kind': 'dynamic'}
        elif kind == 'rm':
            _, x, hid = op
            d = self.decl[x].get(hid)
            if d is None or d['kind'] == 'implicit' and False:
                self.skipped += 1
                return
            m = self.hobj.get((x, hid))
            if m is None:
                m = self._find_static(x, hid)
            if m is None:
                self.skipped += 1
                return
            self.mutate('rm')
            if d.get('partial'):
                # some names were already removed one by one: remove the remaining ones the same way
                for name in list(d['names']):
                    self.comps[x].removeHandler(m, name)
            else:
                self.comps[x].removeHandler(m)
            del self.decl[x][hid]
        elif kind == 'rm1':  # remove for one event name only
            _, x, hid, name = op
            d = self.decl[x].get(hid)
            if d is None or name not in d['names']:
                self.skipped += 1
                return
            m = self.hobj.get((x, hid)) or self._find_static(x, hid)
            if m is None:
                self.skipped += 1
                return
            self.mutate('rm')
            self.comps[x].removeHandler(m, name)
            d['names'] = [n for n in d['names'] if n != name]
            d['partial'] = True
            if not d['names']:
                del self.decl[x][hid]
        elif kind == 'reg':
            _, c, p = op
            # (whether an unregistration is still under way is the model's knowledge - every 'unreg' is settled before the next op -, never
            # the component's own flag: a flag that is not cleared must not keep the history from being run)
            if self.parent[c] is not None or p in self.subtree(c) or c == p:
                self.skipped += 1
                return
            if inside and len(self.comps[c]._queue._priority_queue):
                self.skipped += 1  # c is itself a root in the middle of a flush: registering it now is outside the statement
                return
            if len(self.comps[c]) and not inside:
                self.marks.add('pre_registration_event')
            self.mutate('reg')
            self.comps[c].register(self.comps[p])
            self.parent[c] = p
        elif kind == 'unreg':
            c = op[1]
            if self.parent[c] is None or inside:
                self.skipped += 1
                return
            self.settle_all()
            self.in_unreg = False
            self.mutate('unreg')
            self.in_unreg = True  # handler scripts are held back: what they fire would race with the detachment
            self.comps[c].unregister()
            # events fired now are queued right behind prepare_unregister and are dispatched in the same
            # pass, i.e. while c is still attached (its detachment needs at least one more pass)
            for f in (op[2] if len(op) > 2 else ()):
                self.do(f)
                self.marks.add('fire_overlapping_unregister')
            self.settle_all()
            self.in_unreg = False
            self.mutate('unreg')
            self.parent[c] = None
            if self.comps[c].parent is not self.comps[c]:
                # the model goes on with c detached (everything has settled): what is delivered from now on is judged against that
                self.marks.add('component_still_attached_after_its_unregistration_settled')
            if self.times_left.get(c):
                self.marks.add('component_unregistered_for_the_second_time')
            self.times_left[c] = self.times_left.get(c, 0) + 1
            self.marks_detached = getattr(self, 'marks_detached', set())
            self.marks_detached.add(c)
        else:
            raise ValueError(op)
        self.done_ops.append(op)

    def _find_static(self, x, hid):
        obj = self.comps[x]
        cdef = self.case['comps'][x]
        for hd in cdef['handlers']:
            if hd['hid'] == hid:
                return getattr(obj, hd['attr'], None)
        if cdef.get('base'):
            own = {h['attr'] for h in cdef['handlers']} | set(cdef.get('methods', []))
            for hd in cdef['base']['handlers']:
                if hd['hid'] == hid:
                    if hd['attr'] in own:
                        return getattr(obj, 'B%d_%s' % (x, hd['attr']), None)
                    return getattr(obj, hd['attr'], None)
        if isinstance(hid, str) and hid.startswith('m:'):
            return getattr(obj, hid[2:], None)
        return None


def run_case(case):
    """Returns (problems, info).  problems: list of (clause, detail)."""
    w = World(case)
    problems = []
    for op in case['ops']:
        w.do(op)
    w.settle_all()
    # evaluate
    per = {}
    for uid, cid, hid in w.log:
        per.setdefault(uid, []).append((cid, hid))
    checked = 0
    for uid, e in w.events.items():
        obs = per.get(uid, [])
        if e['pending']:
            # nobody handled it: its expected set must have been empty at some point while it was pending
            if not e['could_be_empty'] and w.expected(e['x'], e['name'], e['ch']):
                problems.append(('EXACT_SET', {'event': [e['x'], e['name'], repr(e['ch'])], 'observed': [],
                                               'expected': sorted(map(list, w.expected(e['x'], e['name'], e['ch'])), key=repr),
                                               'note': 'never delivered to anybody'}))
            checked += 1
            continue
        exp = e['expected']
        if sorted(obs, key=repr) != sorted(exp, key=repr):
            problems.append(('EXACT_SET', {'event': [e['x'], e['name'], repr(e['ch'])],
                                           'observed': sorted(map(list, obs), key=repr),
                                           'expected': sorted(map(list, exp), key=repr),
                                           'missing': sorted(map(list, set(exp) - set(obs)), key=repr),
                                           'extra': sorted(map(list, set(obs) - set(exp)), key=repr),
                                           'duplicates': len(obs) - len(set(obs)), 'warm': e.get('warm', False),
                                           'root': e.get('root')}))
        checked += 1
        if e.get('root') in getattr(w, 'marks_detached', ()):
            w.marks.add('detached_subtree_dispatch')
    nontrivial = any(e.get('warm') for e in w.events.values())
    info = {'checked': checked, 'marks': sorted(w.marks), 'nontrivial': nontrivial, 'invocations': len(w.log),
            'skipped_ops': w.skipped}
    return problems, info


# ------------------------------------------------------------------------------------------------
# corpus and generator
# ------------------------------------------------------------------------------------------------
def H(hid, names, channel=None, attr=None, override=False, priority=0):
    return {'hid': hid, 'names': list(names), 'channel': channel, 'attr': attr or ('h%s' % hid), 'override': override,
            'priority': priority}


def comp(cid, channel=None, handlers=(), kind='base', base=None, methods=(), mixins=(), nohandler=()):
    c = {'cid': cid, 'kind': kind, 'channel': channel, 'handlers': list(handlers), 'base': base, 'methods': list(methods)}
    if mixins:
        c['mixins'] = list(mixins)
    if nohandler:
        c['nohandler'] = list(nohandler)
    return c


def corpus():
    cases = []
    F, S = 'fire', ['settle']
    # 1. addHandler / removeHandler between warm dispatches
    cases.append({'name': 'warm-add-rm', 'comps': [comp(0, None, [H(1, ['ping'])]), comp(1, 'a', [H(2, ['ping'])])], 'ops': [
        ['reg', 1, 0], [F, 0, 'ping', '*'], S, [F, 0, 'ping', '*'], S,
        ['add', 1, {'hid': 50, 'names': ['ping'], 'channel': None}], [F, 0, 'ping', '*'], S,
        ['rm', 1, 50], [F, 0, 'ping', '*'], S, ['rm', 0, 1], [F, 0, 'ping', '*'], S,
        ['add', 0, {'hid': 51, 'names': ['ping', 'pong'], 'channel': 'a'}], [F, 0, 'ping', 'a'], [F, 0, 'pong', 'a'], S,
        ['rm1', 0, 51, 'ping'], [F, 0, 'ping', 'a'], [F, 0, 'pong', 'a'], S]})
    # 1b. the same component instance joins and leaves twice (with a child of its own, next to a permanent sibling); fired after every step
    cases.append({'name': 'join-leave-join-leave', 'comps': [comp(0, None, [H(1, ['ping'])]), comp(1, None, [H(2, ['ping'])]), comp(2, None, [H(3, ['ping'])]),
                                                            comp(3, None, [H(4, ['ping'])])], 'ops': [
        ['reg', 1, 0], ['reg', 2, 1], ['reg', 3, 0], [F, 0, 'ping', None], S, ['unreg', 1], [F, 0, 'ping', None], [F, 1, 'ping', None], S,
        ['reg', 1, 0], [F, 0, 'ping', None], S, ['unreg', 1], [F, 0, 'ping', None], S, [F, 1, 'ping', None], S, [F, 0, 'ping', '*'], S,
        ['reg', 1, 3], [F, 0, 'ping', None], S, ['unreg', 1, [[F, 0, 'ping', None]]], [F, 0, 'ping', None], S, [F, 2, 'ping', None], S]})
    # 2. register / unregister between warm dispatches
    cases.append({'name': 'warm-reg-unreg', 'comps': [comp(0, None, [H(1, ['ping'])]), comp(1, None, [H(2, ['ping'])]),
                                                     comp(2, 'b', [H(3, ['ping'])])], 'ops': [
        [F, 0, 'ping', None], S, ['reg', 1, 0], [F, 0, 'ping', None], S, ['reg', 2, 1], [F, 0, 'ping', None], S,
        [F, 0, 'ping', 'b'], S, ['unreg', 1, [[F, 0, 'ping', None], [F, 0, 'ping', 'b']]], [F, 0, 'ping', None], S, [F, 0, 'ping', 'b'], S, [F, 1, 'ping', 'b'], S,
        ['reg', 1, 0], [F, 0, 'ping', 'b'], S]})
    # 3. the design-review history: a used as root, registered under r, child c added, a unregistered
    cases.append({'name': 'root-child-detach', 'comps': [comp(0, None, [H(1, ['ping'])]), comp(1, None, [H(2, ['ping'])]),
                                                        comp(2, None, [H(3, ['ping'])])], 'ops': [
        [F, 1, 'ping', None], S, ['reg', 1, 0], [F, 0, 'ping', None], S, ['reg', 2, 1], [F, 0, 'ping', None], S,
        ['unreg', 1], [F, 1, 'ping', None], S, [F, 0, 'ping', None], S]})
    # 3b. detached subtree gets a dynamic handler, then a grandchild
    cases.append({'name': 'detached-add', 'comps': [comp(0, None, [H(1, ['ping'])]), comp(1, None, [H(2, ['ping'])]),
                                                   comp(2, None, [H(3, ['ping'])])], 'ops': [
        [F, 1, 'ping', None], S, ['reg', 1, 0], ['add', 1, {'hid': 60, 'names': ['ping'], 'channel': None}], [F, 0, 'ping', None], S,
        ['unreg', 1], [F, 1, 'ping', None], S, ['rm', 1, 60], [F, 1, 'ping', None], S, ['reg', 2, 1], [F, 1, 'ping', None], S]})
    # 4. same name on different channels (memo key must include the channels), instance targets
    cases.append({'name': 'channels', 'comps': [comp(0, 'a', [H(1, ['ping'])]), comp(1, 'b', [H(2, ['ping']), H(3, ['ping'], '*')]),
                                               comp(2, None, [H(4, ['ping'], 'a'), H(5, [], 'b'), H(6, [], '*')])], 'ops': [
        ['reg', 1, 0], ['reg', 2, 0], [F, 0, 'ping', 'a'], [F, 0, 'ping', 'b'], [F, 0, 'ping', '*'], [F, 0, 'ping', None], S,
        [F, 0, 'ping', ['inst', 1]], [F, 0, 'ping', ['inst', 2]], [F, 0, 'ping', ['inst', 0]], S,
        [F, 1, 'ping', None], [F, 2, 'ping', None], [F, 0, 'zap', 'b'], [F, 0, 'zap', 'c'], S,
        [F, 0, 'ping', 'a'], [F, 0, 'ping', 'b'], [F, 0, 'ping', ['inst', 1]], S,
        [F, 0, 'ping', 'b', 'preset'], [F, 1, 'ping', 'a', 'preset'], [F, 2, 'ping', ['inst', 1], 'preset'], [F, 0, 'zap', '*', 'preset'], S]})
    # 4b. one event object fired to two channels before dispatch (the memo must be keyed by the channels of the queue entry)
    cs_ = {'name': 'same-object-two-channels', 'comps': [comp(0, None, []), comp(1, 'a', [H(1, ['ping'])]), comp(2, 'b', [H(2, ['ping'])]),
                                                         comp(3, 'c', [H(3, ['ping']), H(4, ['ping'], '*')])], 'ops': [
        ['reg', 1, 0], ['reg', 2, 0], ['reg', 3, 0], ['fire2', 0, 'ping', 'a', 'b'], [F, 0, 'ping', 'b'], S, [F, 0, 'ping', 'a'], S,
        ['add', 2, {'hid': 90, 'names': ['ping'], 'channel': None}], ['fire2', 0, 'ping', 'b', 'c'], [F, 0, 'ping', 'c'], [F, 0, 'ping', 'b'], S,
        ['rm', 2, 90], ['fire2', 0, 'ping', 'c', ['inst', 1]], [F, 0, 'ping', ['inst', 1]], [F, 0, 'ping', 'c'], S]}
    cases.append(cs_)
    # 5. inheritance with and without override, implicit methods
    base = {'handlers': [H(10, ['ping'], attr='foo'), H(11, ['ping'], attr='bar'), H(12, ['pong'], attr='baz')]}
    cases.append({'name': 'inherit', 'comps': [
        comp(0, None, [H(13, ['ping'], attr='foo', override=True), H(14, ['ping'], attr='bar')], base=base),
        comp(1, None, [], kind='comp', methods=['ping', 'zap'], base={'handlers': [H(15, ['ping'], attr='ping'), H(16, ['zap'], attr='other')]}),
        comp(2, 'a', [H(17, ['pong'])], kind='comp', methods=['pong'])], 'ops': [
        ['reg', 1, 0], ['reg', 2, 0], [F, 0, 'ping', None], [F, 0, 'pong', None], [F, 0, 'zap', None], S,
        [F, 0, 'pong', 'a'], [F, 0, 'pong', 'b'], S, ['rm', 0, 11], [F, 0, 'ping', None], S, ['rm', 1, 'm:zap'], [F, 0, 'zap', None], S]})
    # 5a. public methods declared NOT to be handlers (@handler(False)) next to implicit and explicit ones, in both kinds of class, attached
    #     and detached, addressed by channel, wildcard and instance
    cases.append({'name': 'not-a-handler', 'comps': [
        comp(0, None, [H(20, ['ping'])], kind='comp', methods=['pong'], nohandler=['zap', 'ping']),
        comp(1, 'a', [H(21, ['zap'])], kind='comp', methods=['ping'], nohandler=['pong']),
        comp(2, None, [H(22, ['zap'], '*')], kind='base', nohandler=['ping', 'pong'])], 'ops': [
        ['reg', 1, 0], ['reg', 2, 1], [F, 0, 'ping', None], [F, 0, 'pong', None], [F, 0, 'zap', None], S,
        [F, 0, 'ping', 'a'], [F, 0, 'pong', 'a'], [F, 0, 'zap', '*'], [F, 0, 'pong', ['inst', 1]], [F, 0, 'zap', ['inst', 0]], S,
        ['unreg', 1], [F, 1, 'pong', None], [F, 1, 'ping', 'a'], [F, 2, 'ping', None], S, [F, 0, 'zap', None], S]})
    # 5b. several direct bases (mixins) declaring handlers under the same method names; the subclass redeclares one (without override),
    #     overrides another, leaves the third alone; three mixins with an empty subclass
    m1 = {'handlers': [H(20, ['ping'], attr='foo'), H(21, ['ping'], attr='bar'), H(22, ['pong'], attr='baz')]}
    m2 = {'handlers': [H(23, ['ping'], attr='foo'), H(24, ['ping'], attr='bar'), H(25, ['pong'], attr='baz')]}
    m3 = {'handlers': [H(26, ['ping'], attr='foo'), H(27, ['zap'], attr='qux')]}
    cases.append({'name': 'mixins', 'comps': [
        comp(0, None, [H(28, ['ping'], attr='foo'), H(29, ['ping'], attr='bar', override=True)], base=m1, mixins=[m2]),
        comp(1, None, [], base={'handlers': [H(30, ['ping'], attr='foo')]}, mixins=[{'handlers': [H(31, ['ping'], attr='foo')]}, {'handlers': [H(32, ['ping'], attr='foo')]}]),
        comp(2, 'a', [H(33, ['ping'], attr='foo')], kind='comp', methods=['pong'], base=m3, mixins=[{'handlers': [H(34, ['ping'], attr='foo'), H(35, ['pong'], attr='pong')]}])],
        'ops': [['reg', 1, 0], ['reg', 2, 0], [F, 0, 'ping', None], [F, 0, 'pong', None], [F, 0, 'zap', None], S, [F, 0, 'ping', 'a'], [F, 0, 'pong', 'a'], S,
                [F, 0, 'ping', ['inst', 1]], [F, 0, 'ping', ['inst', 0]], S, ['unreg', 1], [F, 1, 'ping', None], S, [F, 0, 'ping', None], S]})
    # 6. structural changes from inside handlers
    cases.append({'name': 'inside', 'comps': [comp(0, None, [H(1, ['ping']), H(2, ['pong'])]), comp(1, None, [H(3, ['ping']), H(4, ['pong'])]),
                                             comp(2, None, [H(5, ['ping', 'pong'])])],
                  'scripts': {'1': [['add', 0, {'hid': 70, 'names': ['pong'], 'channel': None}], ['reg', 1, 0], [F, 0, 'pong', None]],
                              '3': [['rm', 0, 2], ['reg', 2, 1], [F, 1, 'ping', None]]},
                  'ops': [[F, 0, 'pong', None], S, [F, 0, 'ping', None], [F, 0, 'pong', None], S, [F, 0, 'ping', None], [F, 0, 'pong', None], S]})
    # 7. events queued on a component before it is registered
    cases.append({'name': 'pre-reg', 'comps': [comp(0, None, [H(1, ['ping'])]), comp(1, 'a', [H(2, ['ping'])])], 'ops': [
        [F, 0, 'ping', None], S, [F, 1, 'ping', None], [F, 1, 'ping', '*'], ['reg', 1, 0], S, [F, 0, 'ping', None], S]})
    # 8. catch-all and global handlers added and removed dynamically
    cases.append({'name': 'catchall-dyn', 'comps': [comp(0, 'a', [H(1, ['ping'])]), comp(1, 'b', [])], 'ops': [
        ['reg', 1, 0], [F, 0, 'ping', 'a'], [F, 0, 'ping', 'b'], S,
        ['add', 1, {'hid': 80, 'names': [], 'channel': None}], ['add', 1, {'hid': 81, 'names': [], 'channel': '*'}],
        [F, 0, 'ping', 'a'], [F, 0, 'ping', 'b'], S, ['rm', 1, 80], [F, 0, 'ping', 'a'], [F, 0, 'ping', 'b'], S,
        ['rm', 1, 81], [F, 0, 'ping', 'a'], [F, 0, 'ping', 'b'], S]})
    return cases


def gen_case(rng):
    n = rng.randint(1, 6)
    comps = []
    hid = [100]

    def newh(names=None, **kw):
        hid[0] += 1
        if names is None:
            r = rng.random()
            names = [] if r < 0.15 else rng.sample(NAMES, 1 if r < 0.8 else 2)
        ch = rng.choice([None, None, None, '*', 'a', 'b'])
        return H(hid[0], names, ch, **kw)
    for cid in range(n):
        kind = 'comp' if rng.random() < 0.3 else 'base'
        channel = rng.choice([None, None, 'a', 'b', '*'])
        hs = []
        base = None
        methods = []
        if rng.random() < 0.3:
            bh = [newh(attr='f%d' % i) for i in range(rng.randint(1, 3))]
            base = {'handlers': bh}
            for i, b in enumerate(bh):
                r = rng.random()
                if r < 0.3:
                    hs.append(newh(attr=b['attr'], override=True))
                elif r < 0.6:
                    hs.append(newh(attr=b['attr']))
        for i in range(rng.randint(0, 3)):
            hs.append(newh(attr='g%d' % i))
        if kind == 'comp':
            methods = rng.sample(NAMES, rng.randint(0, 2))
        mixins = []
        if base is not None and rng.random() < 0.4:
            for _ in range(rng.randint(1, 2)):
                mixins.append({'handlers': [newh(attr=rng.choice(['f0', 'f1', 'f2', 'k0'])) for _ in range(rng.randint(1, 2))]})
                # one method name is declared once per class
                seen_attr = set()
                mixins[-1]['handlers'] = [h for h in mixins[-1]['handlers'] if not (h['attr'] in seen_attr or seen_attr.add(h['attr']))]
        nohandler = [m for m in rng.sample(NAMES, rng.randint(1, 2)) if m not in methods] if rng.random() < 0.3 else []
        comps.append(comp(cid, channel, hs, kind=kind, base=base, methods=methods, mixins=mixins, nohandler=nohandler))
    all_hids = {c['cid']: [h['hid'] for h in c['handlers']] + ['m:' + m for m in c['methods']] +
                ([h['hid'] for h in c['base']['handlers']] if c['base'] else []) for c in comps}

    def rnd_ch():
        r = rng.random()
        if r < 0.25:
            return None
        if r < 0.8:
            return rng.choice(CHANS)
        return ['inst', rng.randrange(n)]

    def rnd_op(inside=False):
        r = rng.random()
        x = rng.randrange(n)
        if r < 0.04 and not inside:
            c1, c2 = rnd_ch() or '*', rnd_ch() or 'a'
            if c1 != c2:
                return ['fire2', x, rng.choice(NAMES), c1, c2]
        if r < 0.45:
            if rng.random() < 0.15:
                return ['fire', x, rng.choice(NAMES), rnd_ch(), 'preset']
            return ['fire', x, rng.choice(NAMES), rnd_ch()]
        if r < 0.58:
            hid[0] += 1
            rr = rng.random()
            names = [] if rr < 0.2 else rng.sample(NAMES, 1 if rr < 0.8 else 2)
            ch = rng.choice([None, None, '*', 'a', 'b', ['inst', rng.randrange(n)]])
            all_hids[x].append(hid[0])
            return ['add', x, {'hid': hid[0], 'names': names, 'channel': ch}]
        if r < 0.70:
            if all_hids[x]:
                h = rng.choice(all_hids[x])
                if rng.random() < 0.25:
                    return ['rm1', x, h, rng.choice(NAMES)]
                return ['rm', x, h]
            return ['fire', x, rng.choice(NAMES), rnd_ch()]
        if r < 0.85:
            return ['reg', x, rng.randrange(n)]
        if inside:
            return ['fire', x, rng.choice(NAMES), rnd_ch()]
        if rng.random() < 0.5:
            return ['unreg', x, [['fire', rng.randrange(n), rng.choice(NAMES), rnd_ch()] for _ in range(rng.randint(1, 2))]]
        return ['unreg', x]
    ops = []
    # start with some tree
    for cid in range(1, n):
        if rng.random() < 0.7:
            ops.append(['reg', cid, rng.randrange(cid)])
    hot = [(rng.randrange(n), rng.choice(NAMES), rnd_ch()) for _ in range(2)]
    for _ in range(rng.randint(5, 40)):
        r = rng.random()
        if r < 0.25:
            x, nm, ch = rng.choice(hot)
            ops.append(['fire', x, nm, ch])
        elif r < 0.45:
            ops.append(['settle'])
        else:
            ops.append(rnd_op())
    scripts = {}
    for c in comps:
        for h in c['handlers']:
            if rng.random() < 0.12:
                scripts[str(h['hid'])] = [rnd_op(inside=True) for _ in range(rng.randint(1, 3))]
    return {'comps': comps, 'ops': ops, 'scripts': scripts}


# ------------------------------------------------------------------------------------------------
def plan(tier, seed):
    if tier == 'quick':
        return [{'kind': 'corpus'}] + [{'kind': 'random', 'seed': seed * 1000 + i, 'n': 250} for i in range(16)]
    return [{'kind': 'corpus'}] + [{'kind': 'random', 'seed': seed * 100000 + i, 'n': 6000} for i in range(64)]


def evaluate(b, case):
    try:
        problems, info = run_case(case)
    except Exception as e:
        import traceback
        b.fail(case, 'HARNESS_OR_DISPATCH_RAISED', {'error': repr(e), 'tb': traceback.format_exc(limit=6)}, dedup=type(e).__name__)
        return
    b.case(case, nontrivial=info['nontrivial'])
    for m in info['marks']:
        b.reached(m)
    b.reached('handler_invocations', info['invocations'])
    b.ok('EXACT_SET', info['checked'] - len(problems))
    seen = set()
    for clause, detail in problems:
        kind = 'missing' if detail.get('missing') or not detail.get('observed') else ('extra' if detail.get('extra') else 'dup')
        if kind in seen:
            continue
        seen.add(kind)
        b.fail(case, clause, detail, dedup=kind)


def run_batch(spec):
    import circuits  # noqa: F401  (the real package under test)
    b = Batch(PROPERTY)
    if spec['kind'] == 'corpus':
        for case in corpus():
            evaluate(b, case)
    else:
        rng = random.Random(spec['seed'])
        for _ in range(spec['n']):
            evaluate(b, gen_case(rng))
    return b.result()


def run_replay(case):
    b = Batch(PROPERTY)
    evaluate(b, unjson(case))
    return b.result()

ENGINE = 'stepping-driver'
TECHNIQUE = 'runtime monitoring: handler-invocation log of generated components vs. an independent declaration model, over generated histories'
LEVEL_TEXT = ('Every handler invocation the real dispatcher performs for harness events is logged and compared, per event, with the set an '
              'independent model of declarations and tree membership prescribes (exactly once, nobody else), over a fixed corpus that reaches '
              'every cache-invalidation site plus thousands of random forests/histories with warm-cache dispatches around every structural '
              'change. Held means: no mismatch on the histories run; it is sampling, not a proof over all histories.')
LEVEL_NOTE = ('Trusted: the harness model of which declarations exist (built from the same declarative case the components are generated '
              'from) and the FIFO/settling discipline that makes "the set in force at dispatch" unambiguous; multi-channel fires and '
              'unregistration overlapping handler-fired events are outside what is asserted.')
